#!/usr/bin/env python3
"""Mutant catalogue for the checker self-validation (thorough tier). Each entry is applied to a scratch copy of the
current /repo and the property's quick check is run; only entries that behave as expected are written to
/verif/selftest/mutants/<ID>.json (the others are printed for inspection)."""
import json, os, sys
from concurrent.futures import ThreadPoolExecutor
import os; sys.path.insert(0, os.path.dirname(os.path.dirname(os.path.abspath(__file__))))
from cqverif import scratch

V, H = "violation", "holds"
PD = "src/place_detailed/"
PG = "src/place_global/"
M = {
 "C01": [
  ("tetris-interval-end-one-past-the-last-position", PD + "tetris_legalizer.cpp", "    int e = rows_[r].maxX - w;\n    if (e >= b) {", "    int e = rows_[r].maxX - w + 1;\n    if (e > b) {", V, ["IB"]),
  ("benign-tetris-interval-end-through-a-named-local", PD + "tetris_legalizer.cpp", "    int e = rows_[r].maxX - w;\n    if (e >= b) {", "    const int lastPos = rows_[r].maxX - w;\n    int e = lastPos;\n    if (b <= e) {", H, []),
  ("abacus-downward-sweep-misses-row-0", PD + "abacus_legalizer.cpp", "  for (int row = initialRow - 1; row >= 0; --row) {", "  for (int row = initialRow - 1; row > 0; --row) {", V, ["RS"]),
  ("benign-downward-sweep-gt-minus-one", PD + "abacus_legalizer.cpp", "  for (int row = initialRow - 1; row >= 0; --row) {", "  for (int row = initialRow - 1; row > -1; --row) {", H, []),
  ("interval-intersection-de-morgan-slip", PD + "tetris_legalizer.cpp", "      if (b1 <= e2 && b2 <= e1) {\n        ret.emplace_back(std::max(b1, b2), std::min(e1, e2));\n      }", "      if (b1 > e2 && b2 > e1) {\n        continue;\n      }\n      ret.emplace_back(std::max(b1, b2), std::min(e1, e2));", V, ["IE"]),
  ("benign-interval-intersection-skip-form", PD + "tetris_legalizer.cpp", "      if (b1 <= e2 && b2 <= e1) {\n        ret.emplace_back(std::max(b1, b2), std::min(e1, e2));\n      }", "      if (b1 > e2 || b2 > e1) {\n        continue;\n      }\n      ret.emplace_back(std::max(b1, b2), std::min(e1, e2));", H, []),
  ("drop-checkAllPlaced", PD + "legalizer.cpp", "  // Check that everything is legalized\n  checkAllPlaced();\n", "", V, ["P1"]),
  ("legalizer-on-raw-rows", PD + "legalizer.cpp", "return Legalizer(circuit.computeRows(), widths", "return Legalizer(circuit.rows(), widths", V, ["PV"]),
  ("remainingRows-subtracts-unplaced", PD + "legalizer.cpp", "    if (!isPlaced(i)) {\n      continue;\n    }\n    obstacles.emplace_back", "    obstacles.emplace_back", V, ["PV"]),
  ("abacus-commit-without-candidate-test", PD + "abacus_legalizer.cpp", "  if (bestRow == -1) {\n    return;\n  }\n", "", V, ["AC"]),
  ("benign-reorder-commit", PD + "abacus_legalizer.cpp", "  rowToCells_[bestRow].push_back(cell);\n  cellIsPlaced_[cell] = true;", "  cellIsPlaced_[cell] = true;\n  rowToCells_[bestRow].push_back(cell);", H, []),
 ],
 "C02": [
  ("shift-write-back-skips-pinless-cells", PD + "place_detailed.cpp", "    int pos = ns.potential(cell_nodes[c]) - ns.potential(fixed);\n    placement_.cellX_[c] = pos;", "    if (xtopo_.nbCellPins(c) == 0) {\n      continue;\n    }\n    int pos = ns.potential(cell_nodes[c]) - ns.potential(fixed);\n    placement_.cellX_[c] = pos;", V, ["LW"]),
  ("reorder-position-carried-across-orderings", PD + "place_detailed.cpp", "    // Iterate on all possible orderings\n    while (\n        std::next_permutation(order_[rowInd].begin(), order_[rowInd].end())) {\n      // Setup the positions\n      positions_[rowInd].clear();\n      int predPos = regions_[rowInd].minPos;\n", "    // Iterate on all possible orderings\n    int predPos = regions_[rowInd].minPos;\n    while (\n        std::next_permutation(order_[rowInd].begin(), order_[rowInd].end())) {\n      // Setup the positions\n      positions_[rowInd].clear();\n", V, ["RP"]),
  ("benign-position-declared-outside-reset-inside", PD + "place_detailed.cpp", "    // Iterate on all possible orderings\n    while (\n        std::next_permutation(order_[rowInd].begin(), order_[rowInd].end())) {\n      // Setup the positions\n      positions_[rowInd].clear();\n      int predPos = regions_[rowInd].minPos;\n", "    // Iterate on all possible orderings\n    int predPos = 0;\n    while (\n        std::next_permutation(order_[rowInd].begin(), order_[rowInd].end())) {\n      // Setup the positions\n      positions_[rowInd].clear();\n      predPos = regions_[rowInd].minPos;\n", H, []),
  ("place-without-canPlace", PD + "detailed_placement.cpp", "  if (!canPlace(c, row, pred, x)) {\n    throw std::runtime_error(\"Cannot place the cell\");\n  }\n", "", V, ["G3"]),
  ("swap-accepted-when-infeasible", PD + "place_detailed.cpp", "    auto [feasible, val] = valueOnSwap(c, candidate);\n    if (feasible && val < bestValue) {\n      found = true;\n      bestCandidate = candidate;\n    }\n  }\n  if (found) {\n    doSwap(c, bestCandidate);\n  }\n  return found;", "    auto [feasible, val] = valueOnSwap(c, candidate);\n    if (val < bestValue) {\n      found = true;\n      bestCandidate = candidate;\n    }\n  }\n  if (found) {\n    doSwap(c, bestCandidate);\n  }\n  return found;", V, ["MV"]),
  ("callback-before-export", PD + "place_detailed.cpp", "  exportPlacement(circuit_);\n  callback_.value()(PlacementStep::Detailed);", "  callback_.value()(PlacementStep::Detailed);\n  exportPlacement(circuit_);", V, ["R1"]),
  ("ctor-admits-ignored-cells", PD + "detailed_placement.cpp", "    if (isIgnored(i)) {\n      continue;\n    }\n    int x = posX[i];", "    int x = posX[i];", V, ["G4"]),
  ("stray-writer-of-cellNext", PD + "place_detailed.cpp", "void DetailedPlacer::doInsert(int c, int row, int pred) {\n", "void DetailedPlacer::doInsert(int c, int row, int pred) {\n  placement_.cellNext_[c] = -1;\n", V, ["W2"]),
  ("benign-braces", PD + "place_detailed.cpp", "  if (!callback_.has_value()) return;\n  exportPlacement(circuit_);", "  if (!callback_.has_value()) {\n    return;\n  }\n  exportPlacement(circuit_);", H, []),
 ],
 "C03": [
  ("exporter-drops-fixed-skip", PG + "place_global.cpp", "    if (circuit.isFixed(i)) {\n      continue;\n    }\n    circuit.cellX_[i] = std::round(xplace[i]", "    circuit.cellX_[i] = std::round(xplace[i]", V, ["G5"]),
  ("global-placement-writes-orientation", PG + "place_global.cpp", "    circuit.cellY_[i] = std::round(yplace[i] - 0.5 * circuit.placedHeight(i));\n", "    circuit.cellY_[i] = std::round(yplace[i] - 0.5 * circuit.placedHeight(i));\n    circuit.cellOrientation_[i] = CellOrientation::N;\n", V, ["REACH"]),
  ("fixed-cells-get-demand", PG + "density_grid.cpp", "    if (circuit.isFixed(i)) {\n      demands.push_back(0LL);\n    } else {\n      demands.push_back(circuit.area(i));\n    }\n  }\n  return HierarchicalDensityPlacement(grid, demands);", "    if (circuit.isFixed(i)) {\n      demands.push_back(circuit.area(i));\n    } else {\n      demands.push_back(circuit.area(i));\n    }\n  }\n  return HierarchicalDensityPlacement(grid, demands);", V, ["G6"]),
  ("stage-calls-setter", PD + "place_detailed.cpp", "  leg.exportPlacement(circuit);\n", "  leg.exportPlacement(circuit);\n  circuit.setCellWidth(circuit.cellWidth());\n", V, ["REACH"]),
  ("benign-guard-idiom", PG + "net_model.cpp", "    if (!circuit.isFixed(i)) {\n      circuit.cellX_[i] = std::round(xplace[i] - 0.5f * circuit.placedWidth(i));\n    }", "    if (circuit.isFixed(i)) {\n      continue;\n    }\n    circuit.cellX_[i] = std::round(xplace[i] - 0.5f * circuit.placedWidth(i));", H, []),
 ],
 "C04": [
  ("getOrientation-keeps-incoming-on-turn-mismatch", PD + "legalizer.cpp", "  return orient;\n}", "  if (isTurn(orient) != isTurn(cellTargetOrientation_[cell])) {\n    return cellTargetOrientation_[cell];\n  }\n  return orient;\n}", V, ["KO"]),
  ("benign-getOrientation-inverted-test", PD + "legalizer.cpp", "  if (orient == CellOrientation::UNKNOWN) {\n    // Keep the same orientation\n    return cellTargetOrientation_[cell];\n  }\n  return orient;\n}", "  if (orient != CellOrientation::UNKNOWN) {\n    return orient;\n  }\n  return cellTargetOrientation_[cell];\n}", H, []),
  ("legalizer-given-the-circuits-polarity-vector", PD + "legalizer.cpp", "  return Legalizer(circuit.computeRows(), widths, heights, polarities, x, y,\n                   orient);", "  return Legalizer(circuit.computeRows(), widths, heights,\n                   circuit.cellRowPolarity_, x, y, orient);", V, ["CA"]),
  ("opposite-table-wrong", "src/parameters.cpp", "    case CellOrientation::N:\n      return CellOrientation::FS;", "    case CellOrientation::N:\n      return CellOrientation::FN;", V, ["T1"]),
  ("NW-polarity-misses-FW", "src/parameters.cpp", "        rowOrientation == CellOrientation::FW ||\n        rowOrientation == CellOrientation::W) {", "        rowOrientation == CellOrientation::W) {", V, ["T2"]),
  ("abacus-admits-invalid", PD + "abacus_legalizer.cpp", "  if (getOrientation(cell, row) == CellOrientation::INVALID) {\n    return std::make_pair(false, 0);\n  }\n", "", V, ["SA"]),
  ("place-stores-unknown", PD + "detailed_placement.cpp", "  if (orient != CellOrientation::UNKNOWN) {\n    cellOrientation_[c] = orient;\n  }", "  cellOrientation_[c] = orient;", V, ["G7"]),
  ("check-accepts-invalid", PD + "detailed_placement.cpp", "      if (expected == CellOrientation::INVALID) {\n        throw std::runtime_error(\"Cell is in a row forbidden by its polarity\");\n      }\n", "", V, ["R2"]),
  ("benign-isTurn-reorder", "src/parameters.cpp", "  return orient == CellOrientation::E || orient == CellOrientation::W ||", "  return orient == CellOrientation::W || orient == CellOrientation::E ||", H, []),
 ],
 "C05": [
  ("fixed-pin-upper-arc-with-the-offset-sign-kept", PD + "place_detailed.cpp", "        constraint_arcs.emplace_back(Ar, -xtopo_.cellPos(c) - pin_offs);", "        constraint_arcs.emplace_back(Ar, -xtopo_.cellPos(c) + pin_offs);", V, ["AP"]),
  ("benign-fixed-pin-upper-arc-as-a-negated-sum", PD + "place_detailed.cpp", "        constraint_arcs.emplace_back(Ar, -xtopo_.cellPos(c) - pin_offs);", "        constraint_arcs.emplace_back(Ar, -(xtopo_.cellPos(c) + pin_offs));", H, []),
  ("model-builder-counts-fewer-pins-than-given", PD + "incr_net_model.cpp", "  netLimits_.push_back(netLimits_.back() + cells.size());", "  netLimits_.push_back(netLimits_.back() + cells.size() - 1);", V, ["MX"]),
  ("shift-reads-y-offsets-for-x", PD + "place_detailed.cpp", "      int pin_offs = xtopo_.netPinOffset(net, i);", "      int pin_offs = ytopo_.netPinOffset(net, i);", V, ["AX"]),
  ("acceptance-reversed", PD + "place_detailed.cpp", "    auto [feasible, val] = valueOnInsert(c, row, candidate);\n    if (feasible && val < bestValue) {", "    auto [feasible, val] = valueOnInsert(c, row, candidate);\n    if (feasible && val > bestValue) {", V, ["G8"]),
  ("probe-not-restored", PD + "place_detailed.cpp", "  updateCellPos(c, newP);\n  long long newValue = value();\n  updateCellPos(c, oldP);\n", "  updateCellPos(c, newP);\n  long long newValue = value();\n", V, ["R3"]),
  ("insert-without-model-update", PD + "place_detailed.cpp", "  placement_.insert(c, row, pred);\n  updateCellPos(c);\n", "  placement_.insert(c, row, pred);\n", V, ["R4"]),
  ("writeback-without-improvement", PD + "place_detailed.cpp", "  if (improvement_) {\n    // Save the new placement", "  if (true) {\n    // Save the new placement", V, ["R4"]),
  ("benign-mirrored-comparison", PD + "place_detailed.cpp", "    auto [feasible, val] = valueOnInsert(c, row, candidate);\n    if (feasible && val < bestValue) {", "    auto [feasible, val] = valueOnInsert(c, row, candidate);\n    if (feasible && bestValue > val) {", H, []),
 ],
 "C06": [
  ("clipped-row-shifted-instead-of-shrunk", PG + "density_grid.cpp", "    clippedRows.emplace_back(row.minX + margin, row.maxX - margin, row.minY,\n                             row.maxY);", "    clippedRows.emplace_back(row.minX + margin, row.maxX + margin, row.minY,\n                             row.maxY);", V, ["CR"]),
  ("benign-clipped-row-through-named-locals", PG + "density_grid.cpp", "    clippedRows.emplace_back(row.minX + margin, row.maxX - margin, row.minY,\n                             row.maxY);", "    const int clippedMinX = row.minX + margin;\n    const int clippedMaxX = row.maxX - margin;\n    clippedRows.emplace_back(clippedMinX, clippedMaxX, row.minY, row.maxY);", H, []),
  ("blend-weight-clamped", PG + "place_global.cpp", "                                  float blending) {\n  if (blending == 0.0f) {", "                                  float blending) {\n  blending = std::min(std::max(blending, 0.0f), 1.0f);\n  if (blending == 0.0f) {", V, ["CR"]),
  ("callback-sees-x-and-y-exchanged", PG + "place_global.cpp", "      callback(PlacementStep::PenaltyUpdate, xPlacementUB_, yPlacementUB_);", "      callback(PlacementStep::PenaltyUpdate, yPlacementUB_, xPlacementUB_);", V, ["QA"]),
  ("single-target-returned-unspread", PG + "density_grid.cpp", "  assert(targets.size() == demands.size());\n  std::vector<std::pair<float, int> > order;", "  assert(targets.size() == demands.size());\n  if (targets.size() <= 1) {\n    return targets;\n  }\n  std::vector<std::pair<float, int> > order;", V, ["SB"]),
  ("benign-empty-targets-returned", PG + "density_grid.cpp", "  assert(targets.size() == demands.size());\n  std::vector<std::pair<float, int> > order;", "  assert(targets.size() == demands.size());\n  if (targets.empty()) {\n    return targets;\n  }\n  std::vector<std::pair<float, int> > order;", H, []),
  ("blend-mixes-axes", PG + "place_global.cpp", "  std::vector<float> yplace = blendPlacement(yPlacementLB_, yPlacementUB_, w);", "  std::vector<float> yplace = blendPlacement(yPlacementLB_, xPlacementUB_, w);", V, ["QB"]),
  ("export-uses-height-for-x", PG + "place_global.cpp", "    circuit.cellX_[i] = std::round(xplace[i] - 0.5 * circuit.placedWidth(i));", "    circuit.cellX_[i] = std::round(xplace[i] - 0.5 * circuit.placedHeight(i));", V, ["XP"]),
  ("fixed-pins-not-clamped", PG + "net_model.cpp", "    minPos = std::max(minPos, areaMin);\n    maxPos = std::min(maxPos, areaMax);\n    ret.addNet(cells, offsets, minPos, maxPos, circuit.netWeight(i));\n  }\n  ret.check();\n  return ret;\n}\n\nNetModel NetModel::yTopology", "    maxPos = std::min(maxPos, areaMax);\n    ret.addNet(cells, offsets, minPos, maxPos, circuit.netWeight(i));\n  }\n  ret.check();\n  return ret;\n}\n\nNetModel NetModel::yTopology", V, ["G9"]),
  ("no-finalize", PG + "net_model.cpp", "  check();\n  finalize();\n  Eigen::SparseMatrix", "  check();\n  Eigen::SparseMatrix", V, ["P3"]),
  ("blend-wrong-formula", PG + "place_global.cpp", "    ret.push_back((1.0f - blending) * v1[i] + blending * v2[i]);", "    ret.push_back((1.0f - blending) * v2[i] + blending * v1[i]);", V, ["QB"]),
  ("y-twin-uses-x-limits", PG + "density_grid.cpp", "          spreadCells(binTargets, binDemands, binLimitY(j), binLimitY(j + 1));", "          spreadCells(binTargets, binDemands, binLimitX(j), binLimitX(j + 1));", V, ["TW"]),
  ("clear-before-early-return", PG + "density_legalizer.cpp", "      assignment.push_back(binCnt);\n    }\n  }\n  if (bins.empty() || cells.empty()) {\n    return;\n  }\n\n  for (auto [x, y] : binCandidates) {\n    binCells_[x][y].clear();\n  }\n", "      assignment.push_back(binCnt);\n    }\n    binCells_[x][y].clear();\n  }\n  if (bins.empty() || cells.empty()) {\n    return;\n  }\n", V, ["CC"]),
  ("refine-picks-child-by-capacity", PG + "density_grid.cpp", "      if (i != 0 && parentX(i) == parentX(i - 1)) {\n        continue;\n      }", "      if ((i != 0 && parentX(i) == parentX(i - 1)) || binCapacity(i, j) == 0) {\n        continue;\n      }", V, ["CC"]),
  ("benign-blend-reordered", PG + "place_global.cpp", "    ret.push_back((1.0f - blending) * v1[i] + blending * v2[i]);", "    ret.push_back(blending * v2[i] + (1.0f - blending) * v1[i]);", H, []),
 ],
 "C07": [
  ("closestRow-answers-minus-one", PD + "legalizer.cpp", "    throw std::runtime_error(\"No row left to place the cells\");", "    return -1;", V, ["E1"]),
  ("light-star-stamps-a-possibly-fixed-pin-as-moving", PG + "net_model.cpp", "        addPin(c, starC, topo_.pinOffset(net, i), pos - starPos, w1 + w2);", "        addMovingPin(c, starC, topo_.pinOffset(net, i), pos - starPos, w1 + w2);", V, ["MC"]),
  ("benign-light-star-tests-the-cell-itself", PG + "net_model.cpp", "        addPin(c, starC, topo_.pinOffset(net, i), pos - starPos, w1 + w2);", "        if (c >= 0) {\n          addMovingPin(c, starC, topo_.pinOffset(net, i), pos - starPos, w1 + w2);\n        } else {\n          addPin(c, starC, topo_.pinOffset(net, i), pos - starPos, w1 + w2);\n        }", H, []),
  ("rough-legalizer-margin-and-bin-size-exchanged", PG + "place_global.cpp", "          circuit, params.global.roughLegalization.binSize,\n          params.global.roughLegalization.sideMargin)),", "          circuit, params.global.roughLegalization.sideMargin,\n          params.global.roughLegalization.binSize)),", V, ["SW"]),
  ("product-widened-late", PD + "row_legalizer.cpp", "    cur_cost += static_cast<long long>(old_pos - cur_pos) * (slope + width);", "    cur_cost += (old_pos - cur_pos) * (slope + width);", V, ["M1"]),
  ("area-in-int", "src/coloquinte.hpp", "  long long area() const { return (long long)width() * (long long)height(); }", "  long long area() const { return width() * height(); }", V, ["M1"]),
  ("cost-narrowed", PD + "abacus_legalizer.cpp", "  long long dist =\n      rowLegalizers_[row].getCost(cellWidth_[cell], cellTargetX_[cell]);", "  int dist =\n      rowLegalizers_[row].getCost(cellWidth_[cell], cellTargetX_[cell]);", V, ["M2"]),
  ("assert-excludes-shared-sentinel", PD + "place_detailed.cpp", "  assert(cellPred != cellNext || cellPred == -1);", "  assert(cellPred != cellNext);", V, ["AS"]),
  ("benign-assert-guarded-form", PD + "place_detailed.cpp", "  assert(cellPred != cellNext || cellPred == -1);", "  if (cellPred != -1) {\n    assert(cellPred != cellNext);\n  }", H, []),
  ("capacity-share-in-int", PG + "transportation.cpp", "  DemandType added = missing / nbSinks();", "  int added = missing / nbSinks();", V, ["M2"]),
  ("benign-remainder-in-int", PG + "transportation.cpp", "  assert(missing >= 0LL && missing < nbSinks());", "  int rem = missing % nbSinks();\n  (void)rem;\n  assert(missing >= 0LL && missing < nbSinks());", H, []),
  ("min-height-includes-zero", PG + "density_grid.cpp", "    if (height > 0) {\n      minCellHeight = std::min(height, minCellHeight);\n    }", "    if (height >= 0) {\n      minCellHeight = std::min(height, minCellHeight);\n    }", V, ["DZ"]),
  ("benign-min-height-skip-form", PG + "density_grid.cpp", "    if (height > 0) {\n      minCellHeight = std::min(height, minCellHeight);\n    }", "    if (height <= 0) {\n      continue;\n    }\n    minCellHeight = std::min(height, minCellHeight);", H, []),
  ("benign-bin-size-clamped", PG + "density_grid.cpp", "    if (height > 0) {\n      minCellHeight = std::min(height, minCellHeight);\n    }", "    minCellHeight = std::min(std::max(height, 1), minCellHeight);", H, []),
  ("benign-cast-style", PD + "row_legalizer.cpp", "    cur_cost += static_cast<long long>(old_pos - cur_pos) * (slope + width);", "    cur_cost += (long long)(old_pos - cur_pos) * (slope + width);", H, []),
 ],
 "C08": [
  ("function-local-static", PG + "place_global.cpp", "  float totalDemand = leg_.totalDemand();\n  float avgDemand", "  static float totalDemand = leg_.totalDemand();\n  float avgDemand", V, ["Z1"]),
  ("seed-from-random-device", PG + "place_global.cpp", "  rgen_.seed(params_.seed);", "  rgen_.seed(std::random_device()());", V, ["Z3"]),
  ("benign-async-gets-a-const-reference-to-a-local-nobody-writes", PG + "place_global.cpp", "&xtopo_,\n                 xPlacementLB_, xTarget, penalty, params);", "&xtopo_,\n                 xPlacementLB_, xTarget, std::cref(penalty), params);", H, []),
  ("unordered-iteration-unsorted", PD + "place_detailed.cpp", "  std::vector<int> nets(net_set.begin(), net_set.end());\n  std::sort(nets.begin(), nets.end());\n", "  std::vector<int> nets(net_set.begin(), net_set.end());\n", V, ["D2"]),
  ("reads-coordinates-back", PG + "place_global.cpp", "void GlobalPlacer::runUB() {\n  updateCellSizes();", "void GlobalPlacer::runUB() {\n  updateCellSizes();\n  xPlacementUB_[0] += circuit_.x(0);", V, ["D3"]),
  ("future-not-joined", PG + "place_global.cpp", "  xPlacementLB_ = x.get();\n  yPlacementLB_ = y.get();", "  xPlacementLB_ = x.get();\n  if (step_ > 1) yPlacementLB_ = y.get();", V, ["A1"]),
 ],
 "C09": [
  ("y-pseudo-cell-at-area-origin", PD + "incr_net_model.cpp", "  cellY.push_back(0);", "  cellY.push_back(circuit.computePlacementArea().minY);", V, ["TW"]),
  ("fixed-extent-strict-emptiness-test", PD + "incr_net_model.cpp", "    if (hasFixed) {\n      cells.push_back(fixedCell);\n      offsets.push_back(minFixed);", "    if (minFixed < maxFixed) {\n      cells.push_back(fixedCell);\n      offsets.push_back(minFixed);", V, ["SN"]),
  ("benign-fixed-extent-nonstrict-test", PD + "incr_net_model.cpp", "    if (hasFixed) {\n      cells.push_back(fixedCell);\n      offsets.push_back(minFixed);", "    if (minFixed <= maxFixed) {\n      cells.push_back(fixedCell);\n      offsets.push_back(minFixed);", H, []),
  ("pinX-flip-set-incomplete", "src/coloquinte.cpp", "                 orient == CellOrientation::FN || orient == CellOrientation::FE;\n  return flipped ? placedWidth(cell) - offs : offs;", "                 orient == CellOrientation::FN;\n  return flipped ? placedWidth(cell) - offs : offs;", V, ["T3"]),
  ("hpwl-stops-early", "src/coloquinte.cpp", "      int cell = pinCell(net, pin);\n      int px = x(cell) + pinXOffset(net, pin);", "      if (pin > 3) break;\n      int cell = pinCell(net, pin);\n      int px = x(cell) + pinXOffset(net, pin);", V, ["H1"]),
  ("hpwl-mixes-axes", "src/coloquinte.cpp", "      int py = y(cell) + pinYOffset(net, pin);", "      int py = y(cell) + pinXOffset(net, pin);", V, ["H1"]),
  ("value-increment-sign", PD + "incr_net_model.cpp", "  value_ += newValue - oldValue;", "  value_ += oldValue - newValue;", V, ["R5"]),
  ("benign-isTurn-reorder", "src/parameters.cpp", "  return orient == CellOrientation::E || orient == CellOrientation::W ||", "  return orient == CellOrientation::W || orient == CellOrientation::E ||", H, []),
 ],
 "C10": [
  ("size-flag-cleared-twice-net-flag-never", PD + "place_detailed.cpp", "  circuit.hasCellSizeUpdate_ = false;\n  circuit.hasNetUpdate_ = false;", "  circuit.hasCellSizeUpdate_ = false;\n  circuit.hasCellSizeUpdate_ = false;", V, ["FL"]),
  ("benign-update-flags-cleared-in-the-other-order", PD + "place_detailed.cpp", "  circuit.hasCellSizeUpdate_ = false;\n  circuit.hasNetUpdate_ = false;", "  circuit.hasNetUpdate_ = false;\n  circuit.hasCellSizeUpdate_ = false;", H, []),
  ("legalizer-skips-empty-cells-export-does-not", PD + "legalizer.cpp", "    widths.push_back(circuit.placedWidth(i));", "    if (circuit.area(i) == 0) {\n      continue;\n    }\n    widths.push_back(circuit.placedWidth(i));", V, ["CA"]),
  ("benign-compact-vectors-pushed-in-another-order", PD + "legalizer.cpp", "    widths.push_back(circuit.placedWidth(i));\n    heights.push_back(circuit.placedHeight(i));", "    heights.push_back(circuit.placedHeight(i));\n    widths.push_back(circuit.placedWidth(i));", H, []),
  ("empty-net-accepted-while-busy", "src/coloquinte.cpp", "  checkNotInUse();\n  if (cells.empty()) {\n    return;\n  }", "  if (cells.empty()) {\n    return;\n  }\n  checkNotInUse();", V, ["G10"]),
  ("setRows-without-busy-check", "src/coloquinte.cpp", "void Circuit::setRows(const std::vector<Row> &r) {\n  checkNotInUse();\n", "void Circuit::setRows(const std::vector<Row> &r) {\n", V, ["G10"]),
  ("guard-after-the-placer", "src/coloquinte.cpp", "  InUseGuard guard(isInUse_);\n  GlobalPlacer::place(*this, params, callback);", "  GlobalPlacer::place(*this, params, callback);\n  InUseGuard guard(isInUse_);", V, ["X1"]),
  ("check-after-construction", PG + "place_global.cpp", "  params.check();\n  std::cout << \"Global placement starting\" << std::endl;\n  auto startTime = std::chrono::steady_clock::now();\n  GlobalPlacer pl(circuit, params);", "  std::cout << \"Global placement starting\" << std::endl;\n  auto startTime = std::chrono::steady_clock::now();\n  GlobalPlacer pl(circuit, params);\n  params.check();", V, ["P2"]),
  ("benign-try-catch-idiom", "src/coloquinte.cpp", "  InUseGuard guard(isInUse_);\n  GlobalPlacer::place(*this, params, callback);", "  isInUse_ = true;\n  try {\n    GlobalPlacer::place(*this, params, callback);\n  } catch (...) {\n    isInUse_ = false;\n    throw;\n  }\n  isInUse_ = false;", H, []),
 ],
 "C12": [
  ("descent-limit-through-remainingSpace", PD + "row_legalizer.cpp", "          bounds.top().absolutePos > end_ - usedSpace() - width)) {", "          bounds.top().absolutePos + width > remainingSpace())) {", V, ["LC"]),
  ("benign-descent-limit-width-on-the-left", PD + "row_legalizer.cpp", "          bounds.top().absolutePos > end_ - usedSpace() - width)) {", "          bounds.top().absolutePos + width > end_ - usedSpace())) {", H, []),
  ("prediction-on-a-shifted-target", PD + "row_legalizer.cpp", "  return getDisplacement(width, targetPos, false);", "  return getDisplacement(width, targetPos - begin_, false);", V, ["PA"]),
  ("pop-limit-forgets-row-begin", PD + "row_legalizer.cpp", "bounds.top().absolutePos > end_ - usedSpace() - width)) {", "bounds.top().absolutePos > remainingSpace() - width)) {", V, ["LC"]),
  ("benign-pop-limit-through-getter", PD + "row_legalizer.cpp", "bounds.top().absolutePos > end_ - usedSpace() - width)) {", "bounds.top().absolutePos > begin_ + remainingSpace() - width)) {", H, []),
  ("leftover-bound-at-uncommitted-position", PD + "row_legalizer.cpp", "      bounds.push(Bound(slope, finalAbsPos));", "      bounds.push(Bound(slope, cur_pos));", V, ["BQ"]),
  ("benign-leftover-bound-at-min-of-both", PD + "row_legalizer.cpp", "      bounds.push(Bound(slope, finalAbsPos));", "      bounds.push(Bound(slope, std::min(cur_pos, finalAbsPos)));", H, []),
  ("clear-half-empties-queue", PD + "row_legalizer.cpp", "  bounds = std::priority_queue<Bound>();", "  for (size_t i = 0; i < bounds.size(); ++i) {\n    bounds.pop();\n  }", V, ["QP"]),
  ("benign-clear-by-popping-all", PD + "row_legalizer.cpp", "  bounds = std::priority_queue<Bound>();", "  while (!bounds.empty()) {\n    bounds.pop();\n  }", H, []),
  ("no-repush", PD + "row_legalizer.cpp", "    for (Bound b : passed_bounds) {\n      bounds.push(b);\n    }", "    (void)passed_bounds;", V, ["R6"]),
  ("state-written-on-query", PD + "row_legalizer.cpp", "  if (update) {\n    cumWidth_.push_back(width + usedSpace());", "  cumWidth_.push_back(width + usedSpace());\n  if (update) {", V, ["G11"]),
  ("getCost-commits", PD + "row_legalizer.cpp", "  return getDisplacement(width, targetPos, false);", "  return getDisplacement(width, targetPos, true);", V, ["QP"]),
  ("tie-jumps-to-target", PD + "row_legalizer.cpp", "slope >= 0 ? cur_pos : targetAbsPos", "slope > 0 ? cur_pos : targetAbsPos", V, ["TS"]),
  ("bound-guard-on-wrong-variable", PD + "row_legalizer.cpp", "    if (targetAbsPos > begin_) {", "    if (targetPos > begin_) {", V, ["BP"]),
  ("benign-descent-through-ties", PD + "row_legalizer.cpp", "((slope < 0 and bounds.top()", "((slope <= 0 and bounds.top()", H, []),
  ("benign-selector-arms-swapped", PD + "row_legalizer.cpp", "slope >= 0 ? cur_pos : targetAbsPos", "slope < 0 ? targetAbsPos : cur_pos", H, []),
  ("save-dropped", PD + "row_legalizer.cpp", "    if (not update) {\n      passed_bounds.push_back(bounds.top());\n    }\n", "", V, ["R6"]),
  ("benign-save-always", PD + "row_legalizer.cpp", "    if (not update) {\n      passed_bounds.push_back(bounds.top());\n    }\n", "    passed_bounds.push_back(bounds.top());\n", H, []),
 ],
 "C14": [
  ("assign-position-in-float", PG + "transportation_1d.cpp", "    long long assignPos = p[i] + S[i] + s[i] / 2;", "    long long assignPos = p[i] + S[i] + 0.5f * s[i];", V, ["NF"]),
  ("benign-assign-position-long-literal", PG + "transportation_1d.cpp", "    long long assignPos = p[i] + S[i] + s[i] / 2;", "    long long assignPos = p[i] + S[i] + s[i] / 2LL;", H, []),
  ("balance-divides-by-source-count", PG + "transportation_1d.cpp", "  long long added = missing / nbSinks();", "  long long added = missing / nbSources();", V, ["QI"]),
  ("solution-indices-swapped", PG + "transportation_1d.cpp", "    ret.emplace_back(srcOrder[i], snkOrder[j], a);", "    ret.emplace_back(srcOrder[j], snkOrder[i], a);", V, ["QI"]),
  ("convert-walks-wrong-order", PG + "transportation_1d.cpp", "  for (int i : srcOrder) {\n    su.push_back(pb.u[i]);", "  for (int i : snkOrder) {\n    su.push_back(pb.u[i]);", V, ["QI"]),
  ("result-sized-by-sorted-count", PG + "transportation_1d.cpp", "  std::vector<int> ret(nbSources_, snkOrder.empty() ? 0 : snkOrder.front());", "  std::vector<int> ret(srcOrder.size(), snkOrder.empty() ? 0 : snkOrder.front());", V, ["QI"]),
 ],
 "C15": [
  ("placedWidth-forgets-mirrored-quarter-turns", "src/coloquinte.cpp", "  return isTurn(orient) ? cellHeight_[cell] : cellWidth_[cell];", "  return (orient == CellOrientation::W || orient == CellOrientation::E) ? cellHeight_[cell] : cellWidth_[cell];", V, ["TT"]),
  ("benign-placedWidth-named-flag", "src/coloquinte.cpp", "  return isTurn(orient) ? cellHeight_[cell] : cellWidth_[cell];", "  const bool turned = isTurn(orient);\n  return turned ? cellHeight_[cell] : cellWidth_[cell];", H, []),
  ("is-turn-misses-FW", "src/parameters.cpp", "orient == CellOrientation::FW || orient == CellOrientation::FE;", "orient == CellOrientation::FE || orient == CellOrientation::FE;", V, ["TT"]),
  ("benign-is-turn-listed-in-another-order", "src/parameters.cpp", "orient == CellOrientation::FW || orient == CellOrientation::FE;", "orient == CellOrientation::FE || orient == CellOrientation::FW;", H, []),
  ("free-rectangle-scan-stops-at-a-partial-one", "src/coloquinte.cpp", "    if (newRow.height() == height()) {\n      ret.emplace_back(newRow, orientation);\n    }", "    if (newRow.height() != height()) {\n      break;\n    }\n    ret.emplace_back(newRow, orientation);", V, ["G13"]),
  ("benign-free-rectangle-filter-as-guard-clause", "src/coloquinte.cpp", "    if (newRow.height() == height()) {\n      ret.emplace_back(newRow, orientation);\n    }", "    if (newRow.height() != height()) {\n      continue;\n    }\n    ret.emplace_back(newRow, orientation);", H, []),
  ("free-rectangles-by-the-member-function", "src/coloquinte.cpp", "  bpl::get_rectangles(diff, row_set);", "  row_set.get_rectangles(diff);", V, ["G13"]),
  ("obstacles-inflated-after-weak-overlap-test", "src/coloquinte.cpp", "    row_set.insert(bpl::rectangle_data<int>(r.minX, r.minY, r.maxX, r.maxY),\n                   true);", "    if (r.maxY <= minY || r.minY >= maxY) {\n      continue;\n    }\n    row_set.insert(bpl::rectangle_data<int>(r.minX, minY, r.maxX, maxY), true);", V, ["G13"]),
  ("benign-solid-obstacles-inflated", "src/coloquinte.cpp", "    row_set.insert(bpl::rectangle_data<int>(r.minX, r.minY, r.maxX, r.maxY),\n                   true);", "    if (r.maxY <= minY || r.minY >= maxY || r.minY >= r.maxY) {\n      continue;\n    }\n    row_set.insert(bpl::rectangle_data<int>(r.minX, minY, r.maxX, maxY), true);", H, []),
  ("non-obstructions-removed", "src/coloquinte.cpp", "    if (!isObstruction(i)) {\n      continue;\n    }\n    obstacles.emplace_back(placement(i));", "    obstacles.emplace_back(placement(i));", V, ["G12"]),
  ("segment-loses-orientation", "src/coloquinte.cpp", "      ret.emplace_back(newRow, orientation);", "      ret.emplace_back(newRow, CellOrientation::N);", V, ["G13"]),
  ("partial-slabs-kept", "src/coloquinte.cpp", "    if (newRow.height() == height()) {\n      ret.emplace_back(newRow, orientation);\n    }", "    ret.emplace_back(newRow, orientation);", V, ["G13"]),
  ("rectangle-arguments-swapped", "src/coloquinte.cpp", "    Rectangle newRow(bpl::xl(r), bpl::xh(r), bpl::yl(r), bpl::yh(r));", "    Rectangle newRow(bpl::xl(r), bpl::yl(r), bpl::xh(r), bpl::yh(r));", V, ["ROLE"]),
  ("density-grid-on-raw-rows", PG + "density_grid.cpp", "  std::vector<Row> rows = circuit.computeRows();\n  // Add a small margin", "  std::vector<Row> rows = circuit.rows();\n  // Add a small margin", V, ["PV"]),
  ("benign-merged-guard", "src/coloquinte.cpp", "    if (!isFixed(i)) {\n      continue;\n    }\n    if (!isObstruction(i)) {\n      continue;\n    }\n    obstacles.emplace_back(placement(i));", "    if (!isFixed(i) || !isObstruction(i)) {\n      continue;\n    }\n    obstacles.emplace_back(placement(i));", H, []),
 ],
 "C16": [
  ("y-limits-from-the-x-origin", PG + "density_grid.cpp", "      computeSubdivisions(placementArea_.minY, placementArea_.maxY, binsY);", "      computeSubdivisions(placementArea_.minX, placementArea_.maxY, binsY);", V, ["SX"]),
  ("benign-y-limits-first", PG + "density_grid.cpp", "  binLimitX_ =\n      computeSubdivisions(placementArea_.minX, placementArea_.maxX, binsX);\n  binLimitY_ =\n      computeSubdivisions(placementArea_.minY, placementArea_.maxY, binsY);", "  binLimitY_ =\n      computeSubdivisions(placementArea_.minY, placementArea_.maxY, binsY);\n  binLimitX_ =\n      computeSubdivisions(placementArea_.minX, placementArea_.maxX, binsX);", H, []),
  ("subdivision-product-in-32-bits", "src/utils/helpers.hpp", "    ret.push_back(min + static_cast<int>(static_cast<long long>(i) *\n                                         (max - min) / number));", "    ret.push_back(min + i * (max - min) / number);", V, ["BL"]),
  ("benign-subdivision-widened-on-the-extent", "src/utils/helpers.hpp", "    ret.push_back(min + static_cast<int>(static_cast<long long>(i) *\n                                         (max - min) / number));", "    ret.push_back(min + static_cast<int>(i * static_cast<long long>(max - min) / number));", H, []),
  ("coarsen-without-remap", PG + "density_grid.cpp", "  binCells_ = newCells;\n  levelX_++;\n  updateCellToBin();", "  binCells_ = newCells;\n  levelX_++;", V, ["R7a"]),
  ("setBinCells-forgets-list", PG + "density_grid.cpp", "    cellBinY_[c] = y;\n  }\n  binCells_[x][y] = cells;\n}", "    cellBinY_[c] = y;\n  }\n}", V, ["R7b"]),
  ("refineY-uses-x-parent", PG + "density_grid.cpp", "      if (j != 0 && parentY(j) == parentY(j - 1)) {", "      if (j != 0 && parentX(j) == parentX(j - 1)) {", V, ["TW"]),
  ("zero-demand-cells-admitted", PG + "density_grid.cpp", "    if (cellDemand_[c] > 0LL) {\n      allCells.push_back(c);\n    }", "    allCells.push_back(c);", V, ["G14"]),
 ],
 "C17": [
  ("netWeight-accessor-affine", PG + "net_model.hpp", "    return netWeight_[net];", "    return 0.5f * netWeight_[net] + 0.5f;", V, ["QD"]),
  ("benign-netWeight-accessor-at", PG + "net_model.hpp", "    return netWeight_[net];", "    return netWeight_.at(net);", H, []),
  ("max-pin-started-at-the-smallest-positive-float", PG + "net_model.cpp", "  float bestO = -std::numeric_limits<float>::infinity();", "  float bestO = std::numeric_limits<float>::min();", V, ["SN"]),
  ("benign-max-pin-started-at-lowest", PG + "net_model.cpp", "  float bestO = -std::numeric_limits<float>::infinity();", "  float bestO = std::numeric_limits<float>::lowest();", H, []),
  ("min-pin-also-keeps-the-last-pin-on-ties", PG + "net_model.cpp", "    if (pos < bestPos) {\n      bestI = i;", "    if (pos <= bestPos) {\n      bestI = i;", V, ["B2"]),
  ("max-pin-keeps-the-first-pin-on-ties", PG + "net_model.cpp", "    if (pos >= bestPos) {\n      bestI = i;", "    if (pos > bestPos) {\n      bestI = i;", V, ["B2"]),
  ("benign-second-stamp-guarded-by-distinct-bounds", PG + "net_model.cpp", "    if (i == maxI) {\n      continue;\n    }\n    float distMax", "    if (i == maxI || maxI == minI) {\n      continue;\n    }\n    float distMax", H, []),
  ("net-weights-kept-when-none-given", "src/coloquinte.cpp", "  netWeights_ = weights;\n  netWeights_.resize(", "  if (!weights.empty()) {\n    netWeights_ = weights;\n  }\n  netWeights_.resize(", V, ["PV"]),
  ("benign-net-weights-assign", "src/coloquinte.cpp", "  netWeights_ = weights;\n  netWeights_.resize(", "  netWeights_.assign(weights.begin(), weights.end());\n  netWeights_.resize(", H, []),
  ("rhs-without-weight", PG + "net_model.cpp", "  rhs_[c1] += weight * (pos - offs1);", "  rhs_[c1] += (pos - offs1);", V, ["QD"]),
  ("star-weight-ignores-net-weight", PG + "net_model.cpp", "    float w = topo_.netWeight(net) / nb;\n    int c = addCell(0.0f);", "    float w = 1.0f / nb;\n    int c = addCell(0.0f);", V, ["QD"]),
  ("weight-squared", PG + "net_model.cpp", "  float w = topo_.netWeight(net) / (topo_.nbPins(net) - 1);\n  for (int i = 0; i < topo_.nbPins(net); ++i) {\n    float pos", "  float w = topo_.netWeight(net) * topo_.netWeight(net) / (topo_.nbPins(net) - 1);\n  for (int i = 0; i < topo_.nbPins(net); ++i) {\n    float pos", V, ["QD"]),
  ("topology-drops-weight", PG + "net_model.cpp", "    ret.addNet(cells, offsets, minPos, maxPos, circuit.netWeight(i));\n  }\n  ret.check();\n  return ret;\n}\n\nNetModel NetModel::yTopology", "    ret.addNet(cells, offsets, minPos, maxPos, 1.0f);\n  }\n  ret.check();\n  return ret;\n}\n\nNetModel NetModel::yTopology", V, ["PV"]),
  ("tolerance-tied-to-rhs", PG + "net_model.cpp", "  solver.setTolerance(tolerance);", "  solver.setTolerance(tolerance / std::max(1.0f, rhs.norm()));", V, ["QH"]),
  ("absolute-threshold-on-weight", PG + "net_model.cpp", "  rhs_[c1] += weight * (pos - offs1);\n  hasNonZero_[c1] = 1;", "  rhs_[c1] += weight * (pos - offs1);\n  if (weight > 1.0e-8f) hasNonZero_[c1] = 1;", V, ["QH"]),
  ("small-weights-dropped", PG + "net_model.cpp", "  if (c1 == c2) {\n    return;\n  }\n  if (c1 == -1) {", "  if (c1 == c2 || weight < 1.0e-6f) {\n    return;\n  }\n  if (c1 == -1) {", V, ["QH"]),
  ("benign-zero-weight-skipped", PG + "net_model.cpp", "  if (c1 == c2) {\n    return;\n  }\n  if (c1 == -1) {", "  if (c1 == c2 || weight == 0.0f) {\n    return;\n  }\n  if (c1 == -1) {", H, []),
  ("benign-commuted-product", PG + "net_model.cpp", "  rhs_[c1] += weight * (pos - offs1);", "  rhs_[c1] += (pos - offs1) * weight;", H, []),
 ],
 "C18": [
  ("byFactor-halves-the-margin", "src/coloquinte.cpp", "\n  long long rowArea = computeRowPlacementArea(rowSideMargin);\n", "\n  long long rowArea = computeRowPlacementArea(0.5 * rowSideMargin);\n", V, ["MA"]),
  ("benign-margin-through-a-local", "src/coloquinte.cpp", "\n  long long rowArea = computeRowPlacementArea(rowSideMargin);\n", "\n  const double sideMargin = rowSideMargin;\n  long long rowArea = computeRowPlacementArea(sideMargin);\n", H, []),
  ("carry-credited-in-widths", "src/coloquinte.cpp", "      missingArea += h * (fracW - newW);", "      missingArea += w * (fracW - newW);", V, ["CY"]),
  ("rounding-carry-declared-per-cell", "src/coloquinte.cpp", "  double missingArea = 0.0;\n  for (int i = 0; i < nbCells(); ++i) {\n    if (!cellIsFixed_[i]) {\n      int h = cellHeight_[i];\n      int w = cellWidth_[i];\n      if (h <= 0 || w <= 0) {\n        continue;\n      }\n", "  for (int i = 0; i < nbCells(); ++i) {\n    if (!cellIsFixed_[i]) {\n      int h = cellHeight_[i];\n      int w = cellWidth_[i];\n      if (h <= 0 || w <= 0) {\n        continue;\n      }\n      double missingArea = 0.0;\n", V, ["CY"]),
  ("rounding-carry-reset-per-cell", "src/coloquinte.cpp", "      double fracW = w * expansionFactor;\n      // Force the expansion to a maximum", "      missingArea = 0.0;\n      double fracW = w * expansionFactor;\n      // Force the expansion to a maximum", V, ["CY"]),
  ("benign-rounding-carry-as-long-double", "src/coloquinte.cpp", "  double missingArea = 0.0;\n  for (int i = 0; i < nbCells(); ++i) {\n    if (!cellIsFixed_[i]) {\n      int h = cellHeight_[i];", "  double missingArea{0.0};\n  for (int i = 0; i < nbCells(); ++i) {\n    if (!cellIsFixed_[i]) {\n      const int h = cellHeight_[i];", H, []),
  ("expansion-factor-truncated", "src/coloquinte.cpp", "      expandedArea += expansionFactor[i] * area(i);", "      expandedArea += (long long)expansionFactor[i] * area(i);", V, ["NN"]),
  ("region-scan-bounded-by-cell-minx", "src/coloquinte.cpp", "      for (auto [r, e] : expansionMap) {\n        if (r.intersects(place)) {\n          expansion = std::max(expansion, e);\n        }\n      }", "      auto last = std::upper_bound(expansionMap.begin(), expansionMap.end(), place.minX,\n                                   [](int x, const std::pair<Rectangle, float> &a) { return x < a.first.minX; });\n      for (auto it = expansionMap.begin(); it != last; ++it) {\n        if (it->first.intersects(place)) {\n          expansion = std::max(expansion, it->second);\n        }\n      }", V, ["RM"]),
  ("benign-region-scan-bounded-by-cell-maxx", "src/coloquinte.cpp", "      for (auto [r, e] : expansionMap) {\n        if (r.intersects(place)) {\n          expansion = std::max(expansion, e);\n        }\n      }", "      auto last = std::upper_bound(expansionMap.begin(), expansionMap.end(), place.maxX,\n                                   [](int x, const std::pair<Rectangle, float> &a) { return x < a.first.minX; });\n      for (auto it = expansionMap.begin(); it != last; ++it) {\n        if (it->first.intersects(place)) {\n          expansion = std::max(expansion, it->second);\n        }\n      }", H, []),
  ("fixed-cells-expanded", "src/coloquinte.cpp", "    if (!cellIsFixed_[i]) {\n      // Just round down here", "    if (true) {\n      // Just round down here", V, ["G15"]),
  ("fixed-cells-get-penalty", "src/coloquinte.cpp", "      expansions.push_back(1.0f);", "      expansions.push_back(1.0f + fixedPenalty);", V, ["G16"]),
  ("density-guard-dropped", "src/coloquinte.cpp", "  double density = (double)cellArea / (double)rowArea;\n  if (density >= targetDensity) {\n    return;\n  }\n", "  double density = (double)cellArea / (double)rowArea;\n", V, ["NN"]),
  ("factor-inverted", "src/coloquinte.cpp", "  double expansionFactor = targetDensity / density;", "  double expansionFactor = density / targetDensity;", V, ["NN"]),
  ("rescale-proportional", "src/coloquinte.cpp", "      e = 1.0 + (e - 1.0) * ratio;", "      e *= ratio;", V, ["NN"]),
  ("rounding-off-by-one", "src/coloquinte.cpp", "      int newW = (int)fracW;", "      int newW = (int)fracW - 1;", V, ["NN"]),
  ("regions-deduplicated-by-origin", "src/coloquinte.cpp", "  // Now analyze the expansion for each cell; use the maximum of the expansion", "  expansionMap.erase(std::unique(expansionMap.begin(), expansionMap.end(), [](const CongestionRegion &a, const CongestionRegion &b) -> bool { return a.first.minX == b.first.minX && a.first.minY == b.first.minY; }), expansionMap.end());\n  // Now analyze the expansion for each cell; use the maximum of the expansion", V, ["RM"]),
  ("benign-rescale-affine", "src/coloquinte.cpp", "      e = 1.0 + (e - 1.0) * ratio;", "      e = e * ratio + (1.0 - ratio);", H, []),
  ("benign-factor-floor-at-one", "src/coloquinte.cpp", "  double expansionFactor = targetDensity / density;", "  double expansionFactor = std::max(1.0, targetDensity / density);", H, []),
  ("benign-factor-ternary", "src/coloquinte.cpp", "  double expansionFactor = targetDensity / density;", "  double expansionFactor = targetDensity > density ? targetDensity / density : 1.0;", H, []),
  ("expansion-resets-heights", "src/coloquinte.cpp", "      cellWidth_[i] = newW;\n", "      cellWidth_[i] = newW;\n      cellHeight_[i] = h;\n", V, ["W5"]),
 ],
 "C19": [
  ("rough-check-returns-early-without-steps", "src/parameters.cpp", "  if (lineReoptSize < 1 || diagReoptSize < 1 || squareReoptSize < 1) {", "  if (nbSteps == 0) {\n    return;\n  }\n  if (lineReoptSize < 1 || diagReoptSize < 1 || squareReoptSize < 1) {", V, ["ER"]),
  ("square-size-bounded-through-a-product", "src/parameters.cpp", "  if (lineReoptSize > 64 || diagReoptSize > 64 || squareReoptSize > 8) {", "  if (lineReoptSize > 64 || diagReoptSize > 64 || squareReoptSize * squareReoptSize > 64) {", V, ["VP"]),
  ("benign-bounds-through-named-constants", "src/parameters.cpp", "  if (lineReoptSize > 64 || diagReoptSize > 64 || squareReoptSize > 8) {", "  const int maxNbBins = 64;\n  const int maxSide = 8;\n  if (lineReoptSize > maxNbBins || diagReoptSize > maxNbBins || squareReoptSize > maxSide) {", H, []),
  ("benign-orientation-names-by-table", "src/parameters.cpp", "std::string toString(CellOrientation o) {\n  switch (o) {\n    case CellOrientation::N:\n      return \"N\";\n    case CellOrientation::S:\n      return \"S\";\n    case CellOrientation::E:\n      return \"E\";\n    case CellOrientation::W:\n      return \"W\";\n    case CellOrientation::FN:\n      return \"FN\";\n    case CellOrientation::FS:\n      return \"FS\";\n    case CellOrientation::FE:\n      return \"FE\";\n    case CellOrientation::FW:\n      return \"FW\";\n    case CellOrientation::INVALID:\n      return \"INVALID\";\n    default:\n      return \"UnknownCellOrientation\";\n  }\n}", "std::string toString(CellOrientation o) {\n  static const char *const names[] = {\"N\", \"S\", \"W\", \"E\", \"FN\", \"FS\", \"FW\", \"FE\", \"INVALID\"};\n  int ind = static_cast<int>(o);\n  if (ind < 0 || ind > static_cast<int>(CellOrientation::INVALID)) {\n    return \"UnknownCellOrientation\";\n  }\n  return names[ind];\n}", H, []),
  ("penalty-ctor-unchecked", "src/parameters.cpp", "PenaltyParameters::PenaltyParameters(int effort) {\n  checkEffort(effort);\n", "PenaltyParameters::PenaltyParameters(int effort) {\n", V, ["B1"]),
  ("setCellX-length-unchecked", "src/coloquinte.cpp", "void Circuit::setCellX(const std::vector<int> &x) {\n  if ((int)x.size() != nbCells()) {\n    throw std::runtime_error(\n        \"Number of elements is not the same as the number of cells of the \"\n        \"circuit\");\n  }\n", "void Circuit::setCellX(const std::vector<int> &x) {\n", V, ["G17"]),
  ("addNet-upper-bound-only", "src/coloquinte.cpp", "    if (c < 0 || c >= nbCells()) {\n      throw std::runtime_error(\"Net pin refers to a cell that does not exist\");\n    }\n  }\n  checkNotInUse();\n  if (cells.empty()) {", "    if (c >= nbCells()) {\n      throw std::runtime_error(\"Net pin refers to a cell that does not exist\");\n    }\n  }\n  checkNotInUse();\n  if (cells.empty()) {", V, ["G18"]),
  ("effort-window-too-wide", "src/parameters.cpp", "  if (effort < 1 || effort > 9) {\n    throw std::runtime_error(\"Placement effort must be between 1 and 9\");\n  }\n}\n\ndouble interpolateEffort", "  if (effort < 0 || effort > 9) {\n    throw std::runtime_error(\"Placement effort must be between 1 and 9\");\n  }\n}\n\ndouble interpolateEffort", V, ["B1"]),
  ("effort-9-default-on-float-bound", "src/parameters.cpp", "  targetBlending = 0.0;\n  int squareSizeArray", "  targetBlending = interpolateEffort(0.0, 0.9, effort);\n  int squareSizeArray", V, ["T4"]),
  ("effort-1-too-few-passes", "src/parameters.cpp", "  shiftNbRows = 3;", "  shiftNbRows = std::round(interpolateEffort(0.0, 4.0, effort));", V, ["T4"]),
  ("benign-default-varies-within-bounds", "src/parameters.cpp", "  targetBlending = 0.0;\n  int squareSizeArray", "  targetBlending = interpolateEffort(0.0, 0.5, effort);\n  int squareSizeArray", H, []),
  ("benign-mirrored-length-test", "src/coloquinte.cpp", "void Circuit::setCellY(const std::vector<int> &y) {\n  if ((int)y.size() != nbCells()) {", "void Circuit::setCellY(const std::vector<int> &y) {\n  if (nbCells() != (int)y.size()) {", H, []),
 ],
 "C20": [
  ("aux-lists-the-export-path", "src/export.cpp", "  std::string name = filename.substr(filename.find_last_of(\"/\\\\\") + 1);", "  std::string name = filename;", V, ["XA"]),
  ("benign-aux-basename-by-rfind", "src/export.cpp", "  std::string name = filename.substr(filename.find_last_of(\"/\\\\\") + 1);", "  std::string name = filename.substr(filename.rfind('/') + 1);", H, []),
  ("scl-count-from-computed-rows", "src/export.cpp", "  f << \"NumRows : \" << circuit.nbRows() << \"\\n\\n\";\n  for (int i = 0; i < circuit.nbRows(); ++i) {", "  f << \"NumRows : \" << circuit.computeRows().size() << \"\\n\\n\";\n  for (int i = 0; i < circuit.nbRows(); ++i) {", V, ["XF"]),
  ("benign-scl-count-from-rows-vector", "src/export.cpp", "  f << \"NumRows : \" << circuit.nbRows() << \"\\n\\n\";\n  for (int i = 0; i < circuit.nbRows(); ++i) {", "  f << \"NumRows : \" << circuit.rows().size() << \"\\n\\n\";\n  for (int i = 0; i < circuit.nbRows(); ++i) {", H, []),
  ("orientation-names-table-in-case-order", "src/parameters.cpp", "std::string toString(CellOrientation o) {\n  switch (o) {\n    case CellOrientation::N:\n      return \"N\";\n    case CellOrientation::S:\n      return \"S\";\n    case CellOrientation::E:\n      return \"E\";\n    case CellOrientation::W:\n      return \"W\";\n    case CellOrientation::FN:\n      return \"FN\";\n    case CellOrientation::FS:\n      return \"FS\";\n    case CellOrientation::FE:\n      return \"FE\";\n    case CellOrientation::FW:\n      return \"FW\";\n    case CellOrientation::INVALID:\n      return \"INVALID\";\n    default:\n      return \"UnknownCellOrientation\";\n  }\n}", "std::string toString(CellOrientation o) {\n  static const char *const names[] = {\"N\", \"S\", \"E\", \"W\", \"FN\", \"FS\", \"FE\", \"FW\", \"INVALID\"};\n  int ind = static_cast<int>(o);\n  if (ind < 0 || ind > static_cast<int>(CellOrientation::INVALID)) {\n    return \"UnknownCellOrientation\";\n  }\n  return names[ind];\n}", V, ["N4"]),
  ("benign-orientation-names-by-table", "src/parameters.cpp", "std::string toString(CellOrientation o) {\n  switch (o) {\n    case CellOrientation::N:\n      return \"N\";\n    case CellOrientation::S:\n      return \"S\";\n    case CellOrientation::E:\n      return \"E\";\n    case CellOrientation::W:\n      return \"W\";\n    case CellOrientation::FN:\n      return \"FN\";\n    case CellOrientation::FS:\n      return \"FS\";\n    case CellOrientation::FE:\n      return \"FE\";\n    case CellOrientation::FW:\n      return \"FW\";\n    case CellOrientation::INVALID:\n      return \"INVALID\";\n    default:\n      return \"UnknownCellOrientation\";\n  }\n}", "std::string toString(CellOrientation o) {\n  static const char *const names[] = {\"N\", \"S\", \"W\", \"E\", \"FN\", \"FS\", \"FW\", \"FE\", \"INVALID\"};\n  int ind = static_cast<int>(o);\n  if (ind < 0 || ind > static_cast<int>(CellOrientation::INVALID)) {\n    return \"UnknownCellOrientation\";\n  }\n  return names[ind];\n}", H, []),
  ("FW-bound-to-FE", "pycoloquinte/module.cpp", ".value(\"FW\", CellOrientation::FW, \"Flipped + West\")", ".value(\"FW\", CellOrientation::FE, \"Flipped + West\")", V, ["N1"]),
  ("attribute-renamed", "pycoloquinte/module.cpp", ".def_readwrite(\"nb_passes\", &DetailedPlacerParameters::nbPasses)", ".def_readwrite(\"nb_pass\", &DetailedPlacerParameters::nbPasses)", V, ["N2"]),
  ("toString-swaps-E-W", "src/parameters.cpp", "    case CellOrientation::E:\n      return \"E\";", "    case CellOrientation::E:\n      return \"W\";", V, ["N4"]),
  ("nodes-write-placed-size", "src/export.cpp", "    f << \"\\to\" << i << \"\\t\" << circuit.cellWidth_[i] << \"\\t\"\n      << circuit.cellHeight_[i];", "    f << \"\\to\" << i << \"\\t\" << circuit.placedWidth(i) << \"\\t\"\n      << circuit.placedHeight(i);", V, ["XF"]),
  ("python-uses-unbound-attribute", "pycoloquinte/coloquinte.py", "        ret.cell_is_obstruction = cell_obstruction\n", "        ret.cell_is_obstruction = cell_obstruction\n        ret.cell_is_blockage = cell_obstruction\n", V, ["N3"]),
 ],
}


NV = "not-violation"
R = {
 "C09": [("rename-pin-locals", [{"file": "src/coloquinte.cpp", "regex": r"\bpx\b", "replace": "pinPosX"}, {"file": "src/coloquinte.cpp", "regex": r"\bpy\b", "replace": "pinPosY"}], H)],
 "C01": [("rename-movable-counter", [{"file": PD + "legalizer.cpp", "regex": r"\bj\b", "replace": "movable"}], H),
         ("rename-best-row", [{"file": PD + "abacus_legalizer.cpp", "regex": r"\bbestRow\b", "replace": "chosenRow"}], H)],
 "C04": [("rename-tetris-candidates", [{"file": PD + "tetris_legalizer.cpp", "regex": r"\bbestY\b", "replace": "chosenY"}, {"file": PD + "tetris_legalizer.cpp", "regex": r"\bfound\b", "replace": "have"}], H)],
 "C05": [("rename-found", [{"file": PD + "place_detailed.cpp", "regex": r"\bfound\b", "replace": "gotOne"}, {"file": PD + "place_detailed.cpp", "regex": r"\bbestValue\b", "replace": "reference"}], H)],
 "C02": [("rename-found", [{"file": PD + "place_detailed.cpp", "regex": r"\bfound\b", "replace": "gotOne"}], H)],
 "C18": [("rename-result-vector", [{"file": "src/coloquinte.cpp", "regex": r"\bexpansions\b", "replace": "factors"}], H),
         ("rename-expansion-locals", [{"file": "src/coloquinte.cpp", "regex": r"\bfracW\b", "replace": "wide"}, {"file": "src/coloquinte.cpp", "regex": r"\bnewW\b", "replace": "nw"}, {"file": "src/coloquinte.cpp", "regex": r"\bexpansionMap\b", "replace": "hot"}, {"file": "src/coloquinte.cpp", "regex": r"\bratio\b", "replace": "shrink"}], H)],
 "C16": [("rename-locals", [{"file": PG + "density_legalizer.cpp", "regex": r"\bcells\b", "replace": "cs"}, {"file": PG + "density_grid.cpp", "regex": r"\ballCells\b", "replace": "initial"}], H)],
 "C14": [("rename-locals", [{"file": PG + "density_legalizer.cpp", "regex": r"\bassignment\b", "replace": "where"}, {"file": PG + "density_legalizer.cpp", "regex": r"\bcells\b", "replace": "cs"}], H)],
 "C06": [("rename-spread-locals", [{"file": PG + "density_grid.cpp", "regex": r"\bdem\b", "replace": "acc"}, {"file": PG + "density_grid.cpp", "regex": r"\bcoords\b", "replace": "out"}], H)],
 "C03": [("rename-exporter", [{"file": PG + "place_global.cpp", "regex": r"\bexportPlacement\b", "replace": "writeBack"}, {"file": PG + "place_global.hpp", "regex": r"\bexportPlacement\b", "replace": "writeBack"}], NV)],
 "C15": [("rename-obstacle-list", [{"file": "src/coloquinte.cpp", "regex": r"\bobstacles\b", "replace": "blocked"}, {"file": "src/coloquinte.hpp", "regex": r"\bobstacles\b", "replace": "blocked"}], H)],
 "C12": [("correct-placement-cache", [
    {"file": PD + "row_legalizer.hpp", "regex": r"  std::priority_queue<Bound> bounds;\n\};", "replace": "  std::priority_queue<Bound> bounds;\n  mutable std::vector<int> placement_;\n  mutable bool placementValid_ = false;\n};"},
    {"file": PD + "row_legalizer.cpp", "regex": r"  if \(update\) \{\n    cumWidth_\.push_back", "replace": "  if (update) {\n    placementValid_ = false;\n    cumWidth_.push_back"},
    {"file": PD + "row_legalizer.cpp", "regex": r"  constrainingPos_\.clear\(\);\n\}", "replace": "  constrainingPos_.clear();\n  placementValid_ = false;\n}"},
    {"file": PD + "row_legalizer.cpp", "regex": r"std::vector<int> RowLegalizer::getPlacement\(\) const \{\n", "replace": "std::vector<int> RowLegalizer::getPlacement() const {\n  if (placementValid_) {\n    return placement_;\n  }\n"},
    {"file": PD + "row_legalizer.cpp", "regex": r"    assert\(finalAbsPos\[i\] \+ cumWidth_\[i \+ 1\] <= end_\);\n  \}\n  return ret;", "replace": "    assert(finalAbsPos[i] + cumWidth_[i + 1] <= end_);\n  }\n  placement_ = ret;\n  placementValid_ = true;\n  return ret;"},
  ], H),
         ("rename-save-list", [{"file": PD + "row_legalizer.cpp", "regex": r"\bpassed_bounds\b", "replace": "popped"}], H)],
 "C17": [("rename-local-weights", [{"file": PG + "net_model.cpp", "regex": r"\bdistW\b", "replace": "wd"}, {"file": PG + "net_model.cpp", "regex": r"\bstrength\b", "replace": "k"}], H)],
 "C07": [("rename-locals", [{"file": PG + "net_model.cpp", "regex": r"\bnb\b", "replace": "npins"}, {"file": PG + "density_legalizer.cpp", "regex": r"\bstrideX\b", "replace": "sx"}, {"file": PD + "place_detailed.cpp", "regex": r"\boverlap\b", "replace": "ovl"}], H)],
 "C19": [("rename-helper", [{"file": "src/parameters.cpp", "regex": r"\bcheckEffort\b", "replace": "requireValidEffort"}], H)],
 "C10": [("rename-guard-class", [{"file": "src/coloquinte.cpp", "regex": r"\bInUseGuard\b", "replace": "BusyScope"}], H)],
 "C08": [("rename-async-locals", [{"file": PG + "place_global.cpp", "regex": r"\bpenalty\b(?!\.)", "replace": "pen"}], NV)],
 "C20": [("rename-export-locals", [{"file": "src/export.cpp", "regex": r"\bpin\b", "replace": "k"}], H)],
}


def rjob(item):
    pid, (name, edits, expect) = item
    return pid, name, edits, expect, scratch.with_change("regex", edits, [pid])


def job(item):
    pid, (name, file, find, repl, expect, rules) = item
    r = scratch.with_change("edit", {"file": file, "find": find, "replace": repl}, [pid])
    return pid, name, file, find, repl, expect, rules, r


def main():
    only = sys.argv[1:]
    items = [(pid, m) for pid, ms in M.items() for m in ms if not only or pid in only]
    with ThreadPoolExecutor(max_workers=8) as ex:
        res = list(ex.map(job, items))
    good = {}
    for pid, name, file, find, repl, expect, rules, r in res:
        if "error" in r:
            print("ERROR  %s %-38s %s" % (pid, name, r["error"]))
            continue
        v = r[pid]
        ok = (expect == V and v["exit"] == 1 and all(x in v["rules"] for x in rules)) or (expect == H and v["exit"] == 0)
        print("%s %s %-38s expect=%s exit=%d rules=%s %s" % ("ok    " if ok else "UNEXP ", pid, name, expect, v["exit"], v["rules"], "" if ok else v["lines"][:2]))
        if ok:
            good.setdefault(pid, []).append({"name": name, "file": file, "find": find, "replace": repl, "expect": expect, "rules": rules})
    ritems = [(pid, m) for pid, ms in R.items() for m in ms if not only or pid in only]
    with ThreadPoolExecutor(max_workers=8) as ex:
        rres = list(ex.map(rjob, ritems))
    for pid, name, edits, expect, r in rres:
        if "error" in r:
            print("ERROR  %s %-38s %s" % (pid, name, r["error"]))
            continue
        v = r[pid]
        ok = (expect == H and v["exit"] == 0) or (expect == NV and v["exit"] in (0, 2))
        print("%s %s refactor %-30s expect=%s exit=%d %s" % ("ok    " if ok else "UNEXP ", pid, name, expect, v["exit"], "" if ok and v["exit"] == 0 else v["lines"][:2]))
        if ok:
            good.setdefault(pid, []).append({"name": name, "edits": edits, "expect": expect})
    for pid, lst in good.items():
        if only and pid not in only:
            continue
        json.dump(lst, open("/verif/selftest/mutants/%s.json" % pid, "w"), indent=1)


if __name__ == "__main__":
    main()
