#!/usr/bin/env python3
"""Run every seeded change against every check (in scratch copies, 16 in parallel) and print the detection matrix.
usage: seed_matrix.py [--own] [--record] [--only=substr,substr]    --own: only the check of the seed's own property; --record: store into meta.json"""
import json, os, sys
from concurrent.futures import ThreadPoolExecutor
import os; sys.path.insert(0, os.path.dirname(os.path.dirname(os.path.abspath(__file__))))
from cqverif import scratch
ALL = ["C01","C02","C03","C04","C05","C06","C07","C08","C09","C10","C12","C14","C15","C16","C17","C18","C19","C20"]
own = '--own' in sys.argv
record = '--record' in sys.argv
only = [a.split('=', 1)[1] for a in sys.argv if a.startswith('--only=')]
seeds = sorted(d for d in os.listdir('/verif/seeded') if os.path.exists('/verif/seeded/%s/patch.diff' % d)
               and (not only or any(o in d for o in only[0].split(','))))
def job(label):
    meta = json.load(open('/verif/seeded/%s/meta.json' % label))
    pids = [meta['property']] if own else ALL
    return label, meta, scratch.with_change('patch', '/verif/seeded/%s/patch.diff' % label, pids)
with ThreadPoolExecutor(max_workers=int(os.environ.get("CQV_JOBS", "8"))) as ex:
    res = list(ex.map(job, seeds))
for label, meta, r in res:
    if 'error' in r:
        print(label, 'PATCH ERROR', r['error']); continue
    prop = meta['property']
    cells = []
    for pid, v in sorted(r.items()):
        if v['exit'] != 0:
            cells.append('%s:%d%s' % (pid, v['exit'], v['rules']))
    print('%-18s own(%s)=%s  others: %s' % (label, prop, r.get(prop, {}).get('exit'), ' '.join(c for c in cells if not c.startswith(prop + ':')) or '-'))
    if record:
        det = {pid: {'exit': v['exit'], 'rules': v['rules']} for pid, v in r.items() if v['exit'] != 0 or pid == prop}
        if own:
            old_det = {k: v for k, v in (meta.get('detection') or {}).items() if k != prop}     # keep the cross results of the last full run
            old_det.update(det)
            det = old_det
        meta['detection'] = det
        json.dump(meta, open('/verif/seeded/%s/meta.json' % label, 'w'), indent=1)
