#!/usr/bin/env python3
"""usage: try_scratch.py <patch.diff> <ID> [<ID>...] -- run quick checks on a scratch copy of /repo with the patch applied
(never touches /repo)."""
import sys
import os; sys.path.insert(0, os.path.dirname(os.path.dirname(os.path.abspath(__file__))))
from cqverif import scratch
p, ids = sys.argv[1], sys.argv[2:]
r = scratch.with_change('patch', p, ids)
if 'error' in r:
    print('ERROR', r['error']); sys.exit(3)
for pid in ids:
    v = r[pid]
    for l in v['lines']:
        print('  ', l[:600])
    if v.get('tail'):
        print(v['tail'])
    print('== %s exit=%d rules=%s' % (pid, v['exit'], v['rules']))
