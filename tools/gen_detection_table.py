#!/usr/bin/env python3
"""Print the markdown table of DESIGN.md section 8 from /verif/seeded/*/meta.json."""
import json, glob, os, re
rows = []
for d in sorted(glob.glob('/verif/seeded/*/meta.json')):
    m = json.load(open(d))
    lab = os.path.basename(os.path.dirname(d))
    prop = m['property']
    det = m.get('detection', {})
    own = det.get(prop, {})
    others = sorted(k for k, v in det.items() if k != prop and v.get('exit') == 1)
    needs = re.sub(r'\s+', ' ', (m.get('needs_to_manifest') or '').replace('|', '/').replace('*', ''))[:150]
    if lab.startswith('orig-'):
        needs = 'reverse of fix commit %s (original defect of the pinned tree)' % lab.split('-')[-1]
    caught = ('yes: ' + ','.join(own.get('rules', []))) if own.get('exit') == 1 else 'no'
    rows.append('| %s | %s | %s | %s | %s |' % (lab, caught, ' '.join(others) or '', needs, (m.get('not_detected_reason') or '').replace('|', '/')))
print('| change | caught by own check (rules) | also reported by | needs / kind | if not caught |')
print('|---|---|---|---|---|')
print('\n'.join(rows))
n = len(rows); c = sum(1 for r in rows if '| yes:' in r)
print('\n%d changes, %d caught by the check of their own property.' % (n, c))
