#!/usr/bin/env python3
"""keep_seed.py <seed src dir> <label e.g. C03-1> <needs text> [confirm log]
Copies a confirmed seeded change into /verif/seeded/<label>/ with meta.json."""
import json, os, shutil, sys, re
src, label, needs = sys.argv[1], sys.argv[2], sys.argv[3]
log = sys.argv[4] if len(sys.argv) > 4 else None
dst = os.path.join('/verif/seeded', label)
os.makedirs(dst, exist_ok=True)
for f in os.listdir(src):
    p = os.path.join(src, f)
    if os.path.isfile(p) and os.path.getsize(p) < 400000 and not f.endswith('.log') and f not in ('demo',):
        if os.access(p, os.X_OK) and not f.endswith('.sh') and not f.endswith('.py'):
            continue  # compiled binary
        shutil.copy(p, os.path.join(dst, f))
# shared helper files one level up (e.g. check_common.hpp)
up = os.path.dirname(src.rstrip('/'))
for f in os.listdir(up):
    p = os.path.join(up, f)
    if os.path.isfile(p) and f.endswith(('.hpp', '.h')):
        shutil.copy(p, os.path.join(dst, f))
result = None
if log and os.path.exists(log):
    for l in open(log):
        if l.startswith('RESULT ' + label + ' '):
            result = l.strip()
meta = {
    "label": label,
    "property": label.split('-')[0],
    "breaks": "see NOTES.md",
    "needs_to_manifest": needs,
    "confirmed_by": "tools/confirm_seed.sh in a scratch worktree of /repo: patch applies to the pinned tree, library+tests build, "
                    "full ctest suite passes with the patch, demo exits non-zero with the patch and 0 on the pristine tree",
    "confirm_result": result,
    "origin": "independent sub-agent given only the property text and its own worktree",
}
json.dump(meta, open(os.path.join(dst, 'meta.json'), 'w'), indent=1)
print('kept', label, sorted(os.listdir(dst)))
