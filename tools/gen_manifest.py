#!/usr/bin/env python3
"""Regenerate /verif/MANIFEST.json from the table below (keeps it schema-valid)."""
import json
import os

VERIF = os.path.dirname(os.path.dirname(os.path.abspath(__file__)))

# property id -> (technique, level text, level note, design ref)
CHECKS = {
    "C03": ("who-may-write + edge-dominance guard analysis + call-graph reachability over the clang-resolved AST",
            "Frame condition decided structurally for every input: per Circuit member the set of writer functions is inside a frozen allow-list; "
            "every coordinate/orientation write is edge-dominated by a fixedness test on the same index; no structural mutator is reachable from a stage.",
            "Trusted: clang 14 front end; classification tables for std calls in cqverif/effects.py; allow-lists in rules/c03.json. "
            "Not decided: values written for movable cells; user callbacks.",
            "DESIGN.md 2/C03"),
    "C10": ("dominance / must-pass-through analysis of the busy-flag protocol, exception-exit coverage (RAII or catch-all), who-may-write",
            "Protocol decided structurally: every structural setter is dominated by the busy check on every write and every normal return; the busy flag is set while a placer runs and "
            "cleared on every normal and exceptional exit; parameter validation precedes all work; a failed legalization exports nothing.",
            "Trusted: clang 14 front end; every call is treated as may-throw unless declared noexcept. Not decided: user callback behaviour.",
            "DESIGN.md 2/C10"),
    "C19": ("interval evaluation under dominating guards (bounded subscripts, assert-precondition discharge), dominance of length/index validation over member writes, finite-domain constant folding of the parameter constructors and checks (efforts 1..9); early-exit scan of the parameter checks",
            "Input validation decided structurally for all argument values: array subscripts and asserting helpers are reached only under throwing "
            "range guards; every vector length and pin index is validated by throw before any member is written; a PlacementSolution is read only after its size was checked; no validation reads an already overwritten member; params.check() comes first and bounds each overlap by the window size of its own family; the parameters constructed for each effort 1..9 reach no throw of their own check (binary32/binary64 kept apart).",
            "Trusted: clang 14 front end; interval evaluator in cqverif/intervals.py; constant folder in cqverif/consteval.py (libm semantics of round/exp/log as in Python's math). Not decided: exception type/message; row geometry validation.",
            "DESIGN.md 2/C19"),
    "C08": ("zero-instance rules with positive controls (static storage, const_cast, mutable members judged by the cache discipline, entropy sources, clock taint), async-launch discipline, unordered-iteration and read-back reachability analysis",
            "The structural conditions that make placement a pure function of (circuit, parameters, seed) and the two asynchronous solves race-free are decided for the whole library: "
            "no mutable static state, no const-bypass, mutable members only as caches that every writer of their inputs resets, one engine seeded from the parameters and consumed by its owner thread, async callees are const on immutable shared data with copied arguments and are joined, "
            "unordered iteration never reaches a result, and exported coordinates are never read back.",
            "Trusted: clang 14 front end; std call classification tables. Not decided: bitwise floating-point reproducibility across machines.",
            "DESIGN.md 2/C08"),
    "C17": ("qualifier typing: floating-point weight path + homogeneity-degree type system over the matrix builders (members and reassigned parameters included), scale-free comparisons and solver settings, guard dominance for the regulariser, argument provenance; degree typing of the weight accessors",
            "The scaling clause is decided by typing for every net list: every matrix coefficient and right-hand-side increment is homogeneous of degree 1 in (weights, penalties), "
            "no comparison mixes degrees and no solver setting depends on the weight scale, the only degree-0 term is confined to rows no weighted term mentions, weights are stored and forwarded as floats without truncation or defaulting; no penalty spring is dropped by a position test and no per-net weight uses the model-wide pin count.",
            "Trusted: clang 14 front end; degree seeds (netWeight()/penaltyStrength/weight parameters). Not decided: least-squares optimality (solver numerics).",
            "DESIGN.md 2/C17"),
    "C09": ("exhaustive table extraction (symbolic constant propagation over the orientation dispatch), structural loop-coverage / must-pass-through analysis, who-may-write; X<->Y twin agreement of the incremental topology builders",
            "The 'for every cell orientation' clause is decided exhaustively: the 8x5 orientation table computed from the AST equals the DEF transform table with symbolic sizes and offsets. "
            "hpwl covers every pin on its own axis; the incremental model recomputes every net of a moved cell and keeps bounds and value in step; per-net accumulators are reset per net, nets are dropped only for having fewer than two pins, running extrema start on the neutral side and emptiness is tested non-strictly, and the builders read placed geometry.",
            "Trusted: clang 14 front end; rules/orientation_spec.json (DEF semantics as documented in coloquinte.hpp). Not decided: equality over whole update histories; int overflow (C07).",
            "DESIGN.md 2/C09"),
    "C04": ("exhaustive table extraction of the polarity/orientation functions, edge-dominance analysis of admission predicates and commits, witness-variable provenance; exit discipline of getOrientation (only UNKNOWN keeps the incoming orientation)",
            "The orientation tables are decided exhaustively (50 cells) against the specification; every admission predicate of legalization and detailed placement "
            "admits a (cell,row) pair only under an orientation-compatibility test of that pair; commits use only admitted candidates; orientation stores come from the row the cell is placed on; cells without polarity keep their orientation; the circuit's polarities reach the models unchanged; orientations are written back for every placed cell, moved or not; the checker rejects INVALID.",
            "Trusted: clang 14 front end; rules/orientation_spec.json; the list of admission predicates in cqverif/rules/c04.py. Not decided: which admissible row is chosen.",
            "DESIGN.md 2/C04"),
    "C20": ("name-correspondence analysis of the clang-resolved binding table (module.cpp parsed against a pybind11 stub and the real header), Python ast receiver typing, writer/reader key and expression-shape agreement",
            "The binding clause is decided whole: each of the ~140 Python-visible names is bound to the resolved C++ entity of the same name and class. "
            "The round-trip clause is decided by its structural conditions: every file is written on every path, the writer emits every record, raw geometry that the reader inverts exactly, and orientations by name.",
            "Trusted: clang 14 front end; the pybind11 stub's fidelity to the call shapes module.cpp uses; Python's ast module. Not decided: stream formatting of values outside the property's domain.",
            "DESIGN.md 2/C20"),
    "C14": ("index-domain qualifier typing of the 1-D transportation preprocessing and its callers, guard dominance of the zero filter, accumulator-width rule",
            "The memory-safety clause of the rounding is decided for every instance: each subscript of the sorter's conversions uses an index of the vector's own domain "
            "(original vs sorted sources/sinks) and the returned assignment has one original sink per original source; zero supplies/demands never reach the solver; totals are folded in 64 bits; no sorted view of the problem survives a change of the demands.",
            "Trusted: clang 14 front end; the domain seeds in rules/c14.json. Not decided: optimality/validity of the plan; numeric scan bounds inside the solver.",
            "DESIGN.md 2/C14"),
    "C07": ("producer/consumer bit-width contradiction rules, implicit 64->32 narrowing and fold-accumulator width rules, triaged inventory of 32-bit products (rename-proof shape keys), may-be-minus-one taint to subscripts, interval proof of loop steps; positive controls; literal -1 sentinel taint to subscripts",
            "Structural no-overflow / no-crash clauses decided for the whole library: no int product is widened after the fact, no 64-bit cost, area or demand is implicitly narrowed, folds accumulate at element width, every 32-bit product of two variables carries a bound argument, "
            "last-element indices cannot reach a subscript for an empty container, computed loop steps are non-zero, no assertion excludes a sentinel both sides may hold, no cell dimension (possibly zero) reaches an integer divisor untested, memoised members are re-derived by every writer of their inputs, window sizes and overlaps are paired within one family, parameter fields are forwarded to their namesakes, and the global placer's vectors are assigned before a step reads them.",
            "Trusted: clang 14 front end; the triage tables in rules/c07.json. Declined: general out-of-bounds freedom, assertion unreachability, division by zero other than by a cell dimension, termination of numeric iterations.",
            "DESIGN.md 2/C07"),
    "C15": ("edge-dominance analysis of the obstacle filter, qualifier typing (geometry frame, axis, min/max argument roles), soundness check of obstacle skips, slicing-direction agreement, row provenance; exhaustive evaluation of placedWidth / placedHeight over the 8 orientations",
            "Decides which cells count as obstacles (fixed AND obstruction, placed footprint, extras kept), that every row is reduced by every obstacle and only full-height segments with the row's orientation are emitted, "
            "that geometry helpers never mix frames or axes, that the obstacle list is never pruned by the bounds of one particular row and obstacles are enlarged to the row's extent only when they really overlap it, that the per-cell vectors it reads are length-checked by their setters, and that every algorithm builder consumes the obstruction-free rows.",
            "Trusted: clang 14 front end; name-based axis seeds (min/max, X/Y, width/height). Declined: the set equality itself (semantics of boost::polygon's set difference).",
            "DESIGN.md 2/C15"),
    "C18": ("who-may-write + edge-dominance guard analysis; path counting in the per-cell loop; inequality proving from dominating guards (order prover) for the non-narrowing clause; container-use classification; derived-state analysis; sibling-caller argument agreement for the row-area helper (margin convention)",
            "Frame and non-narrowing clauses: expansion functions write nothing but cellWidth_ and only under the movable test on the same index; the stored width is proved >= the old width (or the factor >= 1) from the dominating guards; "
            "computeCellExpansion is pure, gives each cell one factor, 1 for fixed cells and a running maximum from 1 over a region list that is never pruned and whose scan is bounded only by a sound binary search; the width cap comes from the widest row; no stale cache on the expansion path.",
            "Trusted: clang 14 front end; the positive-orthant domain of cqverif/order.py (sizes, areas, densities and factors are non-negative); the caller's factors are >= 1 (the property's domain). Declined: utilisation cap and rounding-carry arithmetic.",
            "DESIGN.md 2/C18"),
    "C01": ("must-pass-through / dominance analysis of the legalization skeleton, witness-variable provenance of commits, who-may-write, row provenance, derived-state (cache) invalidation analysis",
            "Decides the 'fails loudly / nothing partial / only free, admitted space is consumed' skeleton for every circuit: completeness check last, export after a successful run, commits only of admitted (cell,row) candidates with a space test, "
            "rows taken from the obstruction-free computation, Tetris space bookkeeping under a two-sided overlap test, index bookkeeping in step, no stale cached free space, every strip of a multi-row cell marked, and the width/height exchange of turned cells consistent with the frame (placed vs raw) of the sizes the legalizer was given, row sweeps that reach every row, and interval intersections emitted only when proved non-empty.",
            "Trusted: clang 14 front end. Declined: geometric legality of the Abacus/Tetris arithmetic; 'never fails when trivial'.",
            "DESIGN.md 2/C01"),
    "C02": ("who-may-write, edge-dominance of mutations by feasibility predicates, witness provenance of moves, geometry-frame typing of the model builders, obstacle-list filter analysis",
            "Decides that the row lists are only mutated through validated primitives, only for candidates evaluated feasible (including row polarity), that the model is built from placed geometry and never treats fixed cells as extra obstacles, "
            "that exposed states are exported before the user callback, that positions found in a sorted copy of the rows never index the original, and that the reordering tests a region's capacity with the candidate included.",
            "Trusted: clang 14 front end. Declined: LP semantics of the shift pass; arithmetic of the centring formulas over all move sequences.",
            "DESIGN.md 2/C02"),
    "C05": ("witness provenance + direction of acceptance comparisons, probe-restore pairing (post-dominance), model/placement synchronisation pairing, loop-coverage of the shift model, derived-state freshness (call-graph reachability)",
            "Decides that moves are committed only when their evaluated value improved on the value at entry, that probes are undone, that every committed change re-synchronises the incremental models, that reordering evaluates and keeps candidates on up-to-date models, "
            "that the shift model covers every pin, that probes evaluate exactly the positions the commit will use and committed positions are computed in the probed state, that no pass reads coordinates back from the Circuit and the incremental models are built in the placed frame. Reports the stale-pin-offset defect of the pinned tree as a known finding.",
            "Trusted: clang 14 front end. Declined: that the shift LP optimum never worsens the value; numeric equality with Circuit::hpwl() (C09).",
            "DESIGN.md 2/C05"),
    "C06": ("polynomial normal-form comparison of the blend / export / spreading formulas, guard analysis of shortcuts, argument provenance, axis typing, X/Y twin agreement, cell-conservation analysis of the bin hierarchy (effect summaries of conditions, clear-to-refill reachability)",
            "Decides the 'exports the documented blend, per axis, centre to corner' clause for all weights accepted by the parameter check, the convex-combination form of the spreading inside a bin, "
            "same-axis clamping of fixed pins, regularisation before solving, conservation of cells when the bin hierarchy is rebuilt or bins are emptied, no bin returning its cells' raw targets unspread, and axis consistency of the global placer (326 functions) including X/Y twin agreement.",
            "Trusted: clang 14 front end; name-based axis seeds. Declined: containment and finiteness of solver output; absence of errors (floating-point behaviour).",
            "DESIGN.md 2/C06"),
    "C12": ("edge-dominance of state mutations by the update flag, reachability analysis of save/restore of popped bounds, sign-region consistency of the tie selector, inequality proving of bound positions (order prover), derived-state analysis",
            "Decided for every call: a cost prediction (getCost) leaves bounds, constrainingPos_ and cumWidth_ unchanged; the final-position choice is consistent with the loop's descent test (ties stay at the last bound passed); "
            "every new bound is pushed at a position >= begin_ and none is left right of the position committed for the cell; a cached placement is reset by every updating path; clear() restores the constructor's values.",
            "Trusted: clang 14 front end; asserts of the function are used as stated invariants. Declined: order, overlap, containment, optimality and cost exactness beyond these necessary conditions (numerical).",
            "DESIGN.md 2/C12"),
    "C16": ("who-may-write, post-dominance pairing of the two allocation representations, reachability analysis of empty-then-refill, loop coverage, X/Y twin agreement, index-level discipline and index-origin taint; axis self-symmetry (X<->Y image) of the bin layout functions",
            "Decided structurally: the cell->bin maps and the bin->cells lists are always updated together and the redistribution paths (reoptimize, rebisect, refine, coarsen) can neither drop nor duplicate a cell; "
            "indices handed to the base grid are translated through the hierarchy limits; no bin index is derived from a coordinate division; capacities are accumulated region by region without carried scan state and row bounds are never offset in floating point.",
            "Trusted: clang 14 front end. Declined: capacity exactness/aggregation beyond the index-origin rule, coordinates inside the bin beyond the level discipline.",
            "DESIGN.md 2/C16"),
}

NOT_APPLICABLE = {
    "C11": "idempotence of legalization on legal input is an equality between numeric results of the Abacus cost search; no clause is visible in code shape beyond what C01 checks",
    "C13": "feasibility/optimality of the successive-shortest-path transportation solver over all cost matrices is an algorithmic invariant; no structural clause is a necessary condition",
}

PENDING_REASON = "static check for this property is not built yet (work in progress, see DESIGN.md section 7); not claimed until it is"


def main():
    props = [json.loads(l) for l in open(os.path.join(VERIF, "properties.jsonl"))]
    checks = []
    na = []
    for p in props:
        pid = p["id"]
        if pid in CHECKS:
            tech, text, note, ref = CHECKS[pid]
            checks.append({
                "property_id": pid,
                "quick_cmd": "python3 -m cqverif.check %s --tier quick" % pid,
                "thorough_cmd": "python3 -m cqverif.check %s --tier thorough" % pid,
                "evidence_file": "/verif/evidence/%s.json" % pid,
                "replay_cmd_template": "python3 -m cqverif.check %s --replay {path}" % pid,
                "engine": "cqverif",
                "level_claimed": {"category": "other", "text": text, "design_ref": ref},
                "level_note": note,
                "technique": "static analysis: " + tech,
            })
        elif pid in NOT_APPLICABLE:
            na.append({"property_id": pid, "reason": NOT_APPLICABLE[pid]})
        else:
            na.append({"property_id": pid, "reason": PENDING_REASON})
    m = {
        "version": 1,
        "setup_cmd": "python3 -m cqverif.setup",
        "hooks": {
            "guard": "COLOQUINTE_VERIF",
            "enable": "none needed: the analysis reads /repo's sources (clang -fsyntax-only); no instrumentation is compiled in",
            "baseline_off_cmd": "cmake --build /repo/_build && ctest --test-dir /repo/_build -j8 --timeout 900",
            "source_commits": [],
            "add_only": True,
        },
        "engines": [{
            "name": "cqverif",
            "path": "/verif/cqverif",
            "serves_properties": sorted(CHECKS),
            "kind_free_text": "custom static analyser: filtered clang-14 JSON ASTs of every built unit -> resolved program model, "
                              "CFG with branch-edge dominance, use classification (read/write/escape), call graph and effect summaries; "
                              "repository-specific rules in Python with frozen tables under /verif/rules",
        }],
        "checks": checks,
        "not_applicable": na,
        "notes": "Static analysis only. exit 0 holds / exit 1 VIOLATION / exit 2 analysis broken (never a pass). "
                 "Known findings: /verif/known_findings.json. Runtime replays under /verif/triage are triage aids, not checks.",
    }
    with open(os.path.join(VERIF, "MANIFEST.json"), "w") as fo:
        json.dump(m, fo, indent=1)
    print("MANIFEST.json: %d checks, %d not_applicable" % (len(checks), len(na)))


if __name__ == "__main__":
    main()
