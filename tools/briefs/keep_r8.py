import subprocess, sys
needs = {
"C01-1":"a multi-row macro on stacked rows with staggered free segments, each wide enough but their common range narrower than the cell (getPossibleIntervals returns free-space intervals filtered before the intersection; attemptPlacement clamps with lo > hi)",
"C01-2":"rows split into several segments per y by an obstruction and two multi-row macros (instanciateCell walks consecutive row indices, which are segments of the same y)",
"C02-1":"reordering enabled over two rows of different orientation and a cell with polarity SAME moved across rows (place() no longer sets the orientation; RowReordering::writeback not adapted)",
"C02-2":"two NW / SE cells of exactly equal width in rows of different orientation inside the swap window (equal-width fast path in canSwap placed before the row compatibility test)",
"C03-1":"placeGlobal with a callback and at least one fixed cell (static exportPlacement no longer skips fixed cells; callback() passes raw solver vectors)",
"C03-2":"two fixed cells at consecutive indices followed by a movable cell (Legalizer::exportPlacement steps over fixed cells with `if` instead of `while`)",
"C04-1":"two row segments at the same y with different orientations (importLegalization recomputes the orientation from closestRow(y), the left-most segment)",
"C04-2":"polarised cells entering legalization in orientation E / W / FE / FW (getOrientation returns the incoming orientation when the quarter-turn state differs; INVALID overwritten too)",
"C05-1":"a row group with more cells than shiftMaxNbCells, i.e. several overlapping shift windows (x model re-synchronised once per row group; fixed-offset pins read stale positions)",
"C05-2":"reordering enabled over two rows, a cell tried in another row and then in its own row (y model update skipped when the region's y equals the committed y)",
"C06-1":"placeGlobal with a callback (static exportPlacement takes lower-left corners now; callback() still passes centres: every exposed placement shifted by half a cell)",
"C06-2":"exportBlending outside [0, 1] but inside the accepted [-0.5, 1.5] (blend shortcuts widened to <= 0 and >= 1)",
"C07-1":"Tetris macros covering every row completely and a standard cell left over (closestRow returns -1 instead of throwing; AbacusLegalizer::placeCell indexes rows_[-1])",
"C07-2":"detailed.shiftNbRows = 2 (row stride (nbRows - 1) / 2 = 0: the shift loop never advances)",
"C08-1":"an observing callback and exportBlending != 1 (final blended export skipped when a callback is supplied)",
"C08-2":"global.nbInitialSteps >= 1 (approximationDistance_ read in runInitialLB before run() assigns it)",
"C09-1":"a model over a strict subset of the cells on a placement area with minY != 0 (fixed pins stored relative to the area origin; y pseudo-cell still pushed at 0)",
"C09-2":"a net with all its pins on one cell, or a subset model with a net entirely outside the subset (builder drops nets whose pins share one cell)",
"C10-1":"an infeasible legalization where a movable cell of lower index than the first unplaced cell was moved (completeness check moved from run() into the export loop: partial export before the throw)",
"C10-2":"addNet with an empty pin list from inside a callback (early return moved before checkNotInUse and validation)",
"C12-1":"push, getPlacement, clear, getPlacement before any new push (placement cache invalidated by push() but not by clear())",
"C12-2":"a segment whose origin is not 0 and cells forced against the right end (right-limit test rewritten with remainingSpace(), a length, compared with an absolute position)",
"C14-1":"a zero-supply source sorted last in an exactly balanced problem (zero supplies handed to the solver; computeAssignment runs past the end of D)",
"C14-2":"two positive-demand sinks at the same position left of the nearest sink (strict comparison in updateOptimalSink stops on equal costs)",
"C15-1":"Row::freespace called with an unsorted obstacle list, an obstacle at or beyond the row's right end before one that touches the row (early break relies on computeRows' new sort)",
"C15-2":"a fixed non-square obstruction in orientation FW or FE (placedWidth / placedHeight test R90 / R270 only)",
"C16-1":"a placement area with minY != 0 (computeSubdivisions returns offsets; only the x limits get the area origin added back)",
"C16-2":"a reoptimisation window of 3 or more bins with exactly two of positive capacity (shortcut calls rebisect after binCells_ of the candidates were cleared)",
"C17-1":"a largest net weight other than 1 together with a penalty (netWeight() returns the weight divided by the largest weight; penalties stay in the caller's unit)",
"C17-2":"Star / LightStar model, a non-unit weight and a two-pin net shorter than approximationDistance x weight (1 / max(eps, dist / weight))",
"C18-1":"a non-zero rowSideMargin and a binding cap in expandCellsByFactor (computeRowPlacementArea takes the total margin now; only expandCellsToDensity passes 2 x margin)",
"C18-2":"non-uniform expansion factors with a binding cap (e *= maxDensity / expandedDensity makes factor-1 cells narrower)",
"C19-1":"an invalid parameter set given to placeDetailed (params.check() moved from DetailedPlacer::legalize to Circuit::legalize; DetailedPlacer::place legalizes before its own check)",
"C19-2":"roughLegalization.nbSteps = 0 with quadraticPenalty or targetBlending out of range (early return in RoughLegalizationParameters::check)",
"C20-1":"a fixed cell that is not an obstruction (exporter writes terminal_NI; the reader's membership test for 'terminal' never sets fixed)",
"C20-2":"a turned orientation on a non-square cell with a pin (exportIspdNets centres the offsets with placedWidth / placedHeight)",
}
only = sys.argv[1:]
for k, v in needs.items():
    pid, n = k.split('-')
    if only and pid not in only: continue
    src = '/tmp/wt/r8_%s/_seed/%s' % (pid, n)
    lab = '%s-r8-%s' % (pid, n)
    print(subprocess.run(['python3', '/verif/tools/keep_seed.py', src, lab, v, '/tmp/confirm_r8.log'], capture_output=True, text=True).stdout.strip()[:60])
