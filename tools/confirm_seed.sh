#!/bin/bash
# usage: confirm_seed.sh <seed dir with patch.diff + run_demo.sh> <label>
# Confirms in a scratch worktree: patch applies, builds, full test suite passes with it, demo FAILS with it,
# demo PASSES without it. Prints one RESULT line. The worktree is reused between calls and removed by the caller.
set -u
seed=$(realpath "$1"); label=$2
WT=${CONFIRM_WT:-/tmp/confirm/wt}
if [ ! -d "$WT" ]; then
  mkdir -p "$(dirname "$WT")"
  git -C /repo worktree add --detach "$WT" HEAD >/dev/null 2>&1 || { echo "RESULT $label worktree-failed"; exit 1; }
fi
cd "$WT" && git checkout -q -- . 
build() { cmake -G Ninja -S "$WT" -B "$WT/_build" -DCMAKE_BUILD_TYPE=RelWithDebInfo -DCMAKE_CXX_FLAGS=-Wno-error >/dev/null 2>&1 && cmake --build "$WT/_build" -j16 >"$WT/_build.log" 2>&1; }
if ! git apply --check "$seed/patch.diff" 2>/dev/null; then echo "RESULT $label patch-does-not-apply"; exit 1; fi
git apply "$seed/patch.diff"
if ! build; then echo "RESULT $label build-failed-with-patch"; git checkout -q -- .; exit 1; fi
tests=$(ctest --test-dir "$WT/_build" -j8 --timeout 900 2>&1 | grep -E "tests passed|tests failed" | tail -1)
( cd "$seed" && WT="$WT" bash ./run_demo.sh "$WT" >"$WT/_demo_with.log" 2>&1 ); with=$?
git checkout -q -- .
if ! build; then echo "RESULT $label build-failed-pristine"; exit 1; fi
( cd "$seed" && WT="$WT" bash ./run_demo.sh "$WT" >"$WT/_demo_without.log" 2>&1 ); without=$?
echo "RESULT $label tests=[$tests] demo_with_patch_exit=$with demo_pristine_exit=$without"
tail -3 "$WT/_demo_with.log" | sed 's/^/   with: /'
tail -2 "$WT/_demo_without.log" | sed 's/^/   without: /'
