#!/bin/bash
# usage: try_patch.sh <patch.diff> <ID> [<ID>...]   -- run quick checks on a scratch copy of /repo with the patch applied
# (never modifies /repo: other checks may be reading it at the same time)
exec python3 "$(dirname "$0")/try_scratch.py" "$@"
