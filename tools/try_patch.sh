#!/bin/bash
# usage: try_patch.sh <patch.diff> <ID> [<ID>...]   -- apply to /repo, run quick checks, always revert
set -u
patch=$(realpath "$1"); shift
cd /repo || exit 3
if ! git -C /repo apply --check "$patch" 2>/dev/null; then echo "PATCH DOES NOT APPLY: $patch"; exit 3; fi
git -C /repo apply "$patch"
trap 'git -C /repo checkout -- . ' EXIT
cd /verif
rc=0
for id in "$@"; do
  python3 -m cqverif.check "$id" --tier quick | grep -E "breaks:|undecided:|VIOLATION|ANALYSIS BROKEN|KNOWN-FINDING|exit" ; r=${PIPESTATUS[0]}
  echo "== $id exit=$r"
done
# restore evidence of the unchanged tree
git -C /repo checkout -- . ; trap - EXIT
for id in "$@"; do python3 -m cqverif.check "$id" --tier quick >/dev/null; done
