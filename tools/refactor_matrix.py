#!/usr/bin/env python3
"""Run every check on every behaviour-preserving patch under the given directories (default /verif/refactors/*/patch.diff);
any exit code other than 0 is a false alarm (1) or a brittleness (2) to fix.
usage: refactor_matrix.py [dir-with-k/patch.diff ...]"""
import glob, json, os, sys
from concurrent.futures import ThreadPoolExecutor
import os; sys.path.insert(0, os.path.dirname(os.path.dirname(os.path.abspath(__file__))))
from cqverif import scratch
ALL = ["C01","C02","C03","C04","C05","C06","C07","C08","C09","C10","C12","C14","C15","C16","C17","C18","C19","C20"]
if os.environ.get("CQV_ONLY"):
    ALL = os.environ["CQV_ONLY"].split(",")
roots = sys.argv[1:] or ['/verif/refactors']
patches = []
for r in roots:
    patches += sorted(glob.glob(os.path.join(r, '*', 'patch.diff')))
def job(p):
    return p, scratch.with_change('patch', p, ALL)
bad = 0
with ThreadPoolExecutor(max_workers=int(os.environ.get("CQV_JOBS", "8"))) as ex:
    for p, r in ex.map(job, patches):
        lab = '/'.join(p.split('/')[-3:-1])
        if 'error' in r:
            print('%-24s PATCH ERROR %s' % (lab, r['error'][:100])); bad += 1; continue
        mp = os.path.join(os.path.dirname(p), 'meta.json')
        und = (json.load(open(mp)).get('undecided_ok') or {}) if os.path.exists(mp) else {}
        for pid in list(r):
            if r[pid]['exit'] == 2 and pid in und:
                r[pid]['exit'] = 0
                r[pid]['note'] = 'undecided (listed)'
        cells = ['%s:%d%s' % (pid, v['exit'], v['rules']) for pid, v in sorted(r.items()) if v['exit'] != 0]
        print('%-24s %s' % (lab, ' '.join(cells) or 'silent'))
        for pid, v in sorted(r.items()):
            if v['exit'] != 0:
                bad += 1
                for l in v['lines'][:2]:
                    print('      ', l[:260])
print('%d patches, %d alarms' % (len(patches), bad))
