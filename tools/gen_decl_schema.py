#!/usr/bin/env python3
"""Write /verif/rules/decl_schema.json: for every class of the library, its data members and methods in declaration order
with their types. Generated from the tree the rules were written for; used by cqverif/model.py to resolve pure renames."""
import json, os, sys
os.environ["CQVERIF_NO_ALIASES"] = "1"
sys.path.insert(0, '/verif')
from cqverif.model import Program
prog = Program()
out = {}
for q in sorted(prog.records):
    if not q.startswith("coloquinte::") and not q.startswith("Transportation1d"):
        continue
    if "(lambda" in q or "<anon>" in q:
        continue
    f, m = prog.class_layout(q)
    if f or m:
        out[q] = {"fields": f, "methods": m}
json.dump(out, open('/verif/rules/decl_schema.json', 'w'), indent=0)
print("%d classes, %d fields, %d methods" % (len(out), sum(len(v["fields"]) for v in out.values()), sum(len(v["methods"]) for v in out.values())))
