#!/bin/bash
# usage: build_replays.sh <repo root> <scratch dir>   -- ASan/UBSan library + design-time replay programs (triage aid, not a check)
set -e
R=$1; d=$2; mkdir -p $d; cd $d
ls $R/src/*.cpp $R/src/*/*.cpp | xargs -P16 -I{} sh -c "clang++ -std=gnu++17 -g -O1 -fsanitize=address,undefined -fno-sanitize-recover=undefined -fPIC -I$R/src -c {} -o \$(echo {} | tr / _).o"
clang++ -shared -fsanitize=address,undefined -o libcq_asan.so *.o -lpthread
for s in replay_findings replay_c02b_turned_cell replay_c05_stale_offsets; do
clang++ -std=gnu++17 -g -O1 -fsanitize=address,undefined -I$R/src /verif/triage/design_time/$s.cpp -o $s libcq_asan.so -lpthread
done
