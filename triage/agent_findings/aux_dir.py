import sys, os, types, importlib.util
repo, name = sys.argv[1], sys.argv[2]
sys.modules['coloquinte_pybind'] = types.ModuleType('coloquinte_pybind')   # the reader's path handling needs nothing from the extension
src = open(os.path.join(repo, 'pycoloquinte', 'coloquinte.py')).read()
ns = {}
start = src.index('def _read_aux'); end = src.index('\ndef ', start + 10)
exec('import os\n' + src[start:end], ns)
files = ns['_read_aux'](name + '.aux')
missing = [f for f in files if not os.path.exists(f)]
print('reader resolves', files[1:])
if missing:
    print('FAIL: the files named by the .aux do not exist where the reader looks for them:', missing); sys.exit(1)
print('PASS')
