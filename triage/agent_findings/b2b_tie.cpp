// Replay: BoundToBound model on a two-pin net whose two pins coincide at the linearisation point.
// Documented model for a two-pin net (all four models): one spring of weight w / max(eps, |d|).
#include <cstdio>
#include <cmath>
#include <limits>
#include <vector>
#include "place_global/net_model.hpp"
using namespace coloquinte;
int main() {
  const float inf = std::numeric_limits<float>::infinity();
  int bad = 0;
  for (int coincide = 0; coincide < 2; ++coincide) {
    // cell 0 movable; net A: cell 0 -- fixed pin at 10 (weight 1); net B: cell 0 -- fixed pin at 110 (weight 1)
    NetModel m(1);
    m.addNet({0}, {0.0f}, 10.0f, 10.0f, 1.0f);
    m.addNet({0}, {0.0f}, 110.0f, 110.0f, 1.0f);
    m.check();
    // linearisation point: on the pin of net A (coincide) or one unit away
    std::vector<float> pl = {coincide ? 10.0f : 11.0f};
    NetModel::Parameters p;
    p.approximationDistance = 1.0f;  // eps = 1: |d| <= 1 in both cases, so the documented spring of net A is w / 1 in both
    p.tolerance = 1e-7f; p.maxNbIterations = 1000;
    double kA = 1.0 / 1.0, kB = 1.0 / std::max(1.0, std::abs(110.0 - pl[0]));
    double expect = (kA * 10.0 + kB * 110.0) / (kA + kB);
    float res[4]; const char *names[4] = {"BoundToBound", "Star", "Clique", "LightStar"};
    NetModelOption opts[4] = {NetModelOption::BoundToBound, NetModelOption::Star, NetModelOption::Clique, NetModelOption::LightStar};
    for (int k = 0; k < 4; ++k) { p.netModel = opts[k]; res[k] = m.solve(pl, p)[0]; }
    printf("%s: documented optimum %.5f;", coincide ? "pins coincide" : "pins 1 apart ", expect);
    for (int k = 0; k < 4; ++k) printf(" %s %.5f", names[k], res[k]);
    printf("\n");
    for (int k = 0; k < 4; ++k) if (std::abs(res[k] - expect) > 1e-3) { ++bad; printf("  MISMATCH %s\n", names[k]); }
  }
  printf(bad ? "FAIL\n" : "PASS\n");
  return bad != 0;
}
