// Replay for finding F-C12: the costs reported by RowLegalizer::push do not sum to the displacement of the placement it returns.
// Exhaustive over the small domain of property C12: segment [0, L), L <= 7, widths 1..3, up to 4 cells, targets in -4..L+3.
#include <cstdio>
#include <cstdlib>
#include <vector>
#include "place_detailed/row_legalizer.hpp"
using namespace coloquinte;
int main() {
  long long total = 0, bad = 0, predbad = 0, notopt = 0, illegal = 0;
  bool shown = false;
  for (int L = 1; L <= 7; ++L) {
    std::vector<std::pair<int,int>> cells;
    // enumerate sequences by recursion (iterative stack)
    struct Fr { std::vector<std::pair<int,int>> c; };
    std::vector<Fr> st; st.push_back({});
    while (!st.empty()) {
      Fr fr = st.back(); st.pop_back();
      if (!fr.c.empty()) {
        int used = 0; for (auto &p : fr.c) used += p.first;
        if (used <= L) {
          RowLegalizer leg(0, L);
          long long sum = 0; bool predok = true;
          for (auto &p : fr.c) {
            long long pr = leg.getCost(p.first, p.second);
            long long c = leg.push(p.first, p.second);
            if (pr != c) predok = false;
            sum += c;
          }
          std::vector<int> pl = leg.getPlacement();
          long long disp = 0;
          for (size_t i = 0; i < pl.size(); ++i) disp += (long long)fr.c[i].first * std::llabs((long long)pl[i] - fr.c[i].second);
          ++total;
          if (!predok) ++predbad;
          // independent optimum: positions p_0 <= ... with p_i + w_i <= p_{i+1}, inside [0, L]
          {
            int n = fr.c.size();
            std::vector<std::vector<long long>> best(n + 1, std::vector<long long>(L + 2, -1));
            // best[i][x] = min cost of cells i.. with cell i starting at >= x
            std::vector<long long> nxt(L + 2, 0);
            for (int i = n - 1; i >= 0; --i) {
              std::vector<long long> cur(L + 2, (long long)1e18);
              for (int x = L; x >= 0; --x) {
                long long v = cur[x + 1];
                if (x + fr.c[i].first <= L && nxt[x + fr.c[i].first] < (long long)1e18) {
                  long long c = (long long)fr.c[i].first * std::llabs((long long)x - fr.c[i].second) + nxt[x + fr.c[i].first];
                  if (c < v) v = c;
                }
                cur[x] = v;
              }
              nxt = cur;
            }
            if (disp != nxt[0]) ++notopt;
            bool legal = true; int prev = 0;
            for (size_t i = 0; i < pl.size(); ++i) { if (pl[i] < prev || pl[i] + fr.c[i].first > L) legal = false; prev = pl[i] + fr.c[i].first; }
            if (!legal) ++illegal;
          }
          if (sum != disp) {
            ++bad;
            if (!shown) {
              shown = true;
              std::printf("first mismatch: segment [0,%d):", L);
              for (auto &p : fr.c) std::printf(" (w=%d,t=%d)", p.first, p.second);
              std::printf(" reported sum %lld, displacement of the returned placement %lld\n", sum, disp);
            }
          }
        } else continue;
      }
      if (fr.c.size() < 4) {
        for (int w = 1; w <= 3; ++w) for (int t = -4; t <= L + 3; ++t) { Fr n = fr; n.c.push_back({w, t}); st.push_back(n); }
      }
    }
  }
  std::printf("%lld instances, %lld with reported cost sum != displacement, %lld with prediction != performed, %lld not optimal, %lld illegal\n", total, bad, predbad, notopt, illegal);
  return (bad || predbad || notopt || illegal) ? 1 : 0;
}
