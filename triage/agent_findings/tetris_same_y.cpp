// Replay for finding F-C04b: two row segments at one y with different orientations; a two-row cell with polarity SAME
// lands in the right-hand segment but gets the orientation of the left-most segment at that y (TetrisLegalizer looks the
// row up by y alone: getOrientation(cell, closestRow(bestY))).
#include "coloquinte.hpp"
#include <iostream>
using namespace coloquinte;
int main() {
  Circuit c(2);
  c.setCellWidth({10, 4});
  c.setCellHeight({20, 10});
  c.setCellX({70, 5});
  c.setCellY({0, 0});
  std::vector<Row> rows;
  // y = 0: [0,50) is N, [50,100) is FS; y = 10: [0,50) is FS, [50,100) is N
  rows.emplace_back(0, 50, 0, 10, CellOrientation::N);
  rows.emplace_back(50, 100, 0, 10, CellOrientation::FS);
  rows.emplace_back(0, 50, 10, 20, CellOrientation::FS);
  rows.emplace_back(50, 100, 10, 20, CellOrientation::N);
  c.setRows(rows);
  c.setCellRowPolarity({CellRowPolarity::SAME, CellRowPolarity::ANY});
  ColoquinteParameters params(3);
  c.legalize(params);
  int x = c.cellX()[0], y = c.cellY()[0];
  CellOrientation o = c.cellOrientation()[0];
  CellOrientation want = CellOrientation::INVALID;
  for (const Row &r : rows) {
    if (r.minY == y && r.minX <= x && x + 10 <= r.maxX) want = cellOrientationInRow(CellRowPolarity::SAME, r.orientation);
  }
  std::cout << "cell 0 at (" << x << "," << y << ") orientation " << toString(o) << ", its row prescribes " << toString(want) << std::endl;
  if (o != want) { std::cout << "FAIL" << std::endl; return 1; }
  std::cout << "PASS" << std::endl;
  return 0;
}
