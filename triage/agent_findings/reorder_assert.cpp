// Replay: placeDetailed with reordering enabled on rows whose cells all fit in one reordering window.
#include "coloquinte.hpp"
#include <iostream>
using namespace coloquinte;
int main() {
  int n = 4;
  Circuit c(n);
  c.setCellWidth(std::vector<int>(n, 4));
  c.setCellHeight(std::vector<int>(n, 10));
  c.setCellX({0, 10, 20, 30});
  c.setCellY({0, 0, 10, 10});
  c.setupRows(Rectangle(0, 100, 0, 20), 10);
  c.addNet({0, 1, 2}, {0, 0, 0}, {0, 0, 0});
  c.addNet({1, 3}, {0, 0}, {0, 0});
  ColoquinteParameters p(3);
  p.detailed.reorderingMaxNbCells = 3;
  p.detailed.reorderingNbRows = 1;
  p.check();
  c.placeDetailed(p);
  std::cout << "returned normally" << std::endl;
  return 0;
}
