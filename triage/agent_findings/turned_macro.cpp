// Replay: legalization of movable multi-row cells in a turned orientation (no row polarity).
#include "coloquinte.hpp"
#include <iostream>
#include <random>
using namespace coloquinte;
static bool overlap(const Rectangle &a, const Rectangle &b) {
  return a.minX < b.maxX && b.minX < a.maxX && a.minY < b.maxY && b.minY < a.maxY;
}
int main() {
  int bad = 0, thrown = 0, runs = 300;
  for (int seed = 1; seed <= runs; ++seed) {
    std::mt19937 g(seed);
    auto U = [&](int a, int b) { return std::uniform_int_distribution<int>(a, b)(g); };
    int n = U(4, 14);
    Circuit c(n);
    std::vector<int> w(n), h(n), x(n), y(n);
    std::vector<CellOrientation> o(n, CellOrientation::N);
    for (int i = 0; i < n; ++i) { w[i] = U(2, 8); h[i] = 10; x[i] = U(0, 90); y[i] = U(0, 50); }
    // two movable macros stored as (wide x one row), turned so that they stand 2..3 rows high
    for (int k = 0; k < 2; ++k) { w[k] = 10 * U(2, 3); h[k] = U(4, 9); o[k] = (k == 0) ? CellOrientation::W : CellOrientation::FE; }
    c.setCellWidth(w); c.setCellHeight(h); c.setCellX(x); c.setCellY(y); c.setCellOrientation(o);
    c.setupRows(Rectangle(0, 100, 0, 60), 10);
    try {
      std::cout.setstate(std::ios::failbit);
      c.legalize(ColoquinteParameters(3));
      std::cout.clear();
    } catch (const std::exception &) { std::cout.clear(); ++thrown; continue; }
    bool ill = false;
    for (int i = 0; i < n && !ill; ++i) {
      Rectangle a = c.placement(i);
      if (a.minX < 0 || a.maxX > 100 || a.minY < 0 || a.maxY > 60 || a.minY % 10 != 0) ill = true;
      for (int j = i + 1; j < n && !ill; ++j) if (overlap(a, c.placement(j))) ill = true;
    }
    if (ill) ++bad;
  }
  std::cout << runs << " runs: " << bad << " illegal placements returned, " << thrown << " threw" << std::endl;
  return bad ? 1 : 0;
}
