#include <cstdio>
#include <cstdlib>
#include <random>
#include <vector>
#include "place_detailed/row_legalizer.hpp"
using namespace coloquinte;
int main() {
  std::mt19937 rng(12345);
  long long bad = 0, notopt = 0, pred = 0, total = 0;
  for (int it = 0; it < 200000; ++it) {
    int L = 5 + rng() % 60, n = 1 + rng() % 9, off = (rng() % 3 == 0) ? (1 << 22) - 100 : (int)(rng() % 50) - 25;
    std::vector<std::pair<int,int>> c; int used = 0;
    for (int i = 0; i < n; ++i) { int w = 1 + rng() % 6; if (used + w > L) break; used += w; c.push_back({w, off + (int)(rng() % (L + 30)) - 15}); }
    if (c.empty()) continue;
    RowLegalizer leg(off, off + L);
    long long sum = 0;
    for (auto &p : c) { long long a = leg.getCost(p.first, p.second), b = leg.push(p.first, p.second); if (a != b) ++pred; sum += b; }
    auto pl = leg.getPlacement();
    long long disp = 0; for (size_t i = 0; i < pl.size(); ++i) disp += (long long)c[i].first * std::llabs((long long)pl[i] - c[i].second);
    std::vector<long long> nxt(L + 2, 0);
    for (int i = (int)c.size() - 1; i >= 0; --i) {
      std::vector<long long> cur(L + 2, (long long)4e18);
      for (int x = L; x >= 0; --x) {
        long long v = cur[x + 1];
        if (x + c[i].first <= L && nxt[x + c[i].first] < (long long)4e18) {
          long long cc = (long long)c[i].first * std::llabs((long long)(off + x) - c[i].second) + nxt[x + c[i].first];
          if (cc < v) v = cc;
        }
        cur[x] = v;
      }
      nxt = cur;
    }
    ++total; if (sum != disp) ++bad; if (disp != nxt[0]) ++notopt;
  }
  std::printf("%lld random instances: %lld cost-sum mismatches, %lld not optimal, %lld prediction mismatches\n", total, bad, notopt, pred);
  return (bad || notopt || pred) ? 1 : 0;
}
