// Triage only: run the three stages on random small circuits with random accepted parameters, each in a forked child,
// against an assert-enabled build; report children killed by a signal (abort = failed assertion).
#include "coloquinte.hpp"
#include <sys/wait.h>
#include <unistd.h>
#include <csignal>
#include <cstdio>
#include <iostream>
#include <random>
#include <sstream>
using namespace coloquinte;
int main(int argc, char **argv) {
  int N = argc > 1 ? atoi(argv[1]) : 200;
  int bad = 0, thrown = 0, okc = 0;
  for (int seed = 1; seed <= N; ++seed) {
    pid_t pid = fork();
    if (pid == 0) {
      alarm(20);
      freopen("/dev/null", "w", stdout);
      std::mt19937 g(seed);
      auto U = [&](int a, int b) { return std::uniform_int_distribution<int>(a, b)(g); };
      int n = U(1, 40);
      int rh = U(4, 12);
      int nrows = U(1, 8);
      int W = U(20, 200);
      Circuit c(n);
      std::vector<int> w(n), h(n), x(n), y(n);
      std::vector<bool> fx(n);
      std::vector<CellRowPolarity> pol(n);
      for (int i = 0; i < n; ++i) {
        w[i] = U(1, 12);
        h[i] = rh * (U(0, 9) == 0 ? 2 : 1);
        x[i] = U(-10, W);
        y[i] = U(-5, nrows * rh);
        fx[i] = U(0, 7) == 0;
        pol[i] = (CellRowPolarity)U(0, 4);
      }
      fx[0] = false; h[0] = rh;
      c.setCellWidth(w); c.setCellHeight(h); c.setCellX(x); c.setCellY(y); c.setCellIsFixed(fx);
      c.setCellRowPolarity(pol);
      c.setupRows(Rectangle(0, W, 0, nrows * rh), rh);
      int nn = U(0, 30);
      for (int k = 0; k < nn; ++k) {
        int d = U(1, 5);
        std::vector<int> cs, xo, yo;
        for (int j = 0; j < d; ++j) { cs.push_back(U(0, n - 1)); xo.push_back(U(0, 3)); yo.push_back(U(0, 3)); }
        c.addNet(cs, xo, yo);
      }
      ColoquinteParameters p(U(1, 9));
      p.detailed.reorderingMaxNbCells = U(1, 5);
      p.detailed.reorderingNbRows = U(1, 3);
      p.detailed.shiftNbRows = U(1, 5);
      p.detailed.shiftMaxNbCells = U(0, 60);
      p.detailed.nbPasses = U(0, 3);
      p.detailed.localSearchNbNeighbours = U(0, 6);
      p.detailed.localSearchNbRows = U(0, 3);
      p.global.maxNbSteps = U(1, 12);
      p.global.roughLegalization.lineReoptSize = U(1, 4);
      p.global.roughLegalization.diagReoptSize = U(1, 4);
      p.global.roughLegalization.squareReoptSize = U(1, 3);
      p.global.roughLegalization.unidimensionalTransport = U(0, 1);
      p.global.roughLegalization.costModel = (LegalizationModel)U(0, 5);
      p.global.continuousModel.netModel = (NetModelOption)U(0, 1);
      try {
        p.check();
        int stage = U(0, 3);
        if (stage == 0) c.placeGlobal(p);
        else if (stage == 1) c.legalize(p);
        else if (stage == 2) c.placeDetailed(p);
        else { c.placeGlobal(p); c.legalize(p); c.placeDetailed(p); }
      } catch (const std::exception &e) {
        _exit(3);
      }
      _exit(0);
    }
    int st = 0;
    waitpid(pid, &st, 0);
    if (WIFSIGNALED(st)) {
      ++bad;
      fprintf(stderr, "seed %d killed by signal %d\n", seed, WTERMSIG(st));
    } else if (WEXITSTATUS(st) == 3) ++thrown; else ++okc;
  }
  fprintf(stderr, "%d runs: %d returned, %d threw, %d killed by a signal\n", N, okc, thrown, bad);
  return bad ? 1 : 0;
}
