#include "coloquinte.hpp"
#include <iostream>
using namespace coloquinte;
int main() {
  Circuit c(4);
  c.setCellWidth({10000, 10000, 10000, 10000});
  c.setCellHeight({6000, 6000, 6000, 6000});
  c.setCellX({0, 0, 0, 0});
  c.setCellY({0, 0, 0, 0});
  c.addNet({0, 1}, {0, 0}, {0, 0});
  c.addNet({2, 3}, {0, 0}, {0, 0});
  c.addNet({1, 2}, {0, 0}, {0, 0});
  std::vector<Row> rows;
  for (int i = 0; i < 10; ++i) rows.emplace_back(-4194304, 4194304, i * 6000, (i + 1) * 6000, CellOrientation::N);
  c.setRows(rows);
  try {
    ColoquinteParameters p(1, 1);
    p.global.maxNbSteps = 3;
    c.placeGlobal(p);
    std::cout << "returned" << std::endl;
  } catch (const std::exception &e) {
    std::cout << "threw: " << e.what() << std::endl;
  }
  return 0;
}
