#include "coloquinte.hpp"
#include <iostream>
using namespace coloquinte;
int main() {
  // 2 rows fully covered by one movable 2-row macro + one std cell: infeasible
  Circuit c(2);
  c.setCellWidth({100, 10});
  c.setCellHeight({20, 10});
  c.setCellX({0, 0});
  c.setCellY({0, 0});
  c.setRows({Row(0, 100, 0, 10, CellOrientation::N), Row(0, 100, 10, 20, CellOrientation::N)});
  try {
    c.legalize(ColoquinteParameters(3, 1));
    std::cout << "returned" << std::endl;
  } catch (const std::exception &e) {
    std::cout << "threw: " << e.what() << std::endl;
  }
  return 0;
}
