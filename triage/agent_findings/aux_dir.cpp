// Replay: exportIspd() with a relative name that has a directory component, read back by the package's own reader
// (pycoloquinte/coloquinte.py, function _read_aux, which resolves the names listed in the .aux against the .aux file's directory).
#include <cstdio>
#include <cstdlib>
#include <vector>
#include "coloquinte.hpp"
using namespace coloquinte;
int main(int argc, char **argv) {
  Circuit c(3);
  c.setCellWidth({4, 5, 6}); c.setCellHeight({10, 10, 10});
  c.setCellX({0, 10, 20}); c.setCellY({0, 0, 10});
  c.addNet({0, 1, 2}, {1, 2, 3}, {4, 5, 6});
  c.setRows({Row(0, 40, 0, 10, CellOrientation::N), Row(0, 40, 10, 20, CellOrientation::FS)});
  c.exportIspd(argv[1]);
  return 0;
}
