#include <iostream>
#include <random>
#include "coloquinte.hpp"
using namespace coloquinte;
int main() {
  std::cout.setstate(std::ios_base::failbit);
  std::mt19937 rg(1);
  int bad = 0;
  for (int it = 0; it < 300; ++it) {
    int n = 6 + rg() % 10;
    Circuit c(n);
    std::vector<int> w(n), h(n, 10), x(n), y(n);
    for (int i = 0; i < n; ++i) { w[i] = 2 + rg() % 5; x[i] = rg() % 40; y[i] = (rg() % 4) * 10; }
    c.setCellWidth(w); c.setCellHeight(h); c.setCellX(x); c.setCellY(y);
    c.setupRows(Rectangle(0, 40, 0, 40), 10);
    c.setCellRowPolarity(std::vector<CellRowPolarity>(n, CellRowPolarity::SAME));
    int nets = n;
    for (int k = 0; k < nets; ++k) {
      int a = rg() % n, b = rg() % n; if (a == b) continue;
      c.addNet({a, b}, {(int)(rg() % 3), (int)(rg() % 3)}, {(int)(rg() % 2) * 9, (int)(rg() % 2) * 9});
    }
    ColoquinteParameters pr(3);
    try {
      c.legalize(pr);
      long long h0 = c.hpwl();
      long long last = h0; bool inc = false;
      c.placeDetailed(pr, PlacementCallback([&](PlacementStep) { long long v = c.hpwl(); if (v > last) inc = true; last = v; }));
      long long h1 = c.hpwl();
      if (h1 > h0 || inc) { ++bad; if (bad <= 3) std::cerr << "it " << it << " hpwl " << h0 << " -> " << h1 << " inc=" << inc << "\n"; }
    } catch (std::exception &e) { std::cerr << "exc " << e.what() << "\n"; }
  }
  std::cerr << "bad=" << bad << "\n";
}
