#include <iostream>
#include <sstream>
#include <cstring>
#include "coloquinte.hpp"
#include "place_global/transportation_1d.hpp"
#include "place_global/net_model.hpp"
#include "place_detailed/row_legalizer.hpp"

using namespace coloquinte;

static Circuit smallCircuit(int n, int rows, int rowW, int rowH) {
  Circuit c(n);
  std::vector<int> w(n, 4), h(n, rowH), x(n), y(n);
  for (int i = 0; i < n; ++i) { x[i] = (i * 7) % rowW; y[i] = ((i * 3) % rows) * rowH; }
  c.setCellWidth(w); c.setCellHeight(h); c.setCellX(x); c.setCellY(y);
  c.setupRows(Rectangle(0, rowW, 0, rows * rowH), rowH);
  for (int i = 0; i + 1 < n; ++i) c.addNet({i, i + 1}, {1, 2}, {1, 3});
  return c;
}

int main(int argc, char **argv) {
  std::string p = argv[1];
  std::cout.setstate(std::ios_base::failbit);
  if (p == "c10") {
    Circuit c = smallCircuit(20, 8, 60, 10);
    try {
      c.placeGlobal(ColoquinteParameters(1), PlacementCallback([](PlacementStep) { throw std::runtime_error("cb"); }));
    } catch (std::exception &e) { std::cerr << "caught: " << e.what() << "\n"; }
    try { c.setRows(c.rows()); std::cerr << "setRows ok\n"; } catch (std::exception &e) { std::cerr << "DEFECT setRows after failed call: " << e.what() << "\n"; }
  } else if (p == "c19a") {
    try { ColoquinteParameters pr(0); } catch (std::exception &e) { std::cerr << "caught: " << e.what() << "\n"; }
  } else if (p == "c19b") {
    Circuit c = smallCircuit(5, 2, 60, 10);
    try { c.addNet({0, 99}, {0, 0}, {0, 0}); std::cerr << "DEFECT addNet accepted cell 99\n"; } catch (std::exception &e) { std::cerr << "caught: " << e.what() << "\n"; }
    std::cerr << c.hpwl() << "\n";
  } else if (p == "c14") {
    Transportation1d pb({1, 5, 7}, {2, 6}, {0, 0, 5}, {3, 3});
    auto a = pb.assign();
    std::cerr << "assign size " << a.size() << "\n";
  } else if (p == "c17") {
    NetModel m(2);
    m.addNet({0, 1}, {0.f, 0.f}, 0.0f, 10.0f, 0.5f);
    std::cerr << "netWeight(0)=" << m.netWeight(0) << "\n";
  } else if (p == "c07") {
    RowLegalizer leg(0, 1 << 22);
    long long c1 = leg.push(1 << 21, -(1 << 22));
    std::cerr << "cost " << c1 << " expected " << ((1LL << 21) * (1LL << 22)) << "\n";
  } else if (p == "c04") {
    // Single-row cells with NW polarity in alternating N/FS rows
    int n = 12;
    Circuit c(n);
    std::vector<int> w(n, 4), h(n, 10), x(n), y(n);
    for (int i = 0; i < n; ++i) { x[i] = (i * 5) % 40; y[i] = 0; }
    c.setCellWidth(w); c.setCellHeight(h); c.setCellX(x); c.setCellY(y);
    c.setupRows(Rectangle(0, 40, 0, 40), 10);
    std::vector<CellRowPolarity> pol(n, CellRowPolarity::ANY);
    pol[0] = CellRowPolarity::NW; pol[1] = CellRowPolarity::NW; pol[2] = CellRowPolarity::NW;
    c.setCellRowPolarity(pol);
    // nets pulling NW cells towards a fixed pin high up
    std::vector<bool> fixed(n, false); fixed[n - 1] = true; c.setCellIsFixed(fixed);
    x[n - 1] = 20; y[n - 1] = 15; w[n - 1] = 0; h[n - 1] = 0; c.setCellWidth(w); c.setCellHeight(h); c.setCellX(x); c.setCellY(y);
    for (int i = 0; i < 3; ++i) c.addNet({i, n - 1}, {2, 0}, {5, 0});
    for (int i = 3; i + 1 < n - 1; ++i) c.addNet({i, i + 1}, {2, 2}, {5, 5});
    ColoquinteParameters pr(3);
    c.legalize(pr);
    for (int i = 0; i < 3; ++i) std::cerr << "after legalize cell " << i << " y=" << c.cellY()[i] << " o=" << toString(c.cellOrientation()[i]) << "\n";
    c.placeDetailed(pr);
    for (int i = 0; i < 3; ++i) {
      std::cerr << "after detailed cell " << i << " y=" << c.cellY()[i] << " o=" << toString(c.cellOrientation()[i]) << "\n";
      if (c.cellOrientation()[i] == CellOrientation::INVALID) std::cerr << "DEFECT INVALID orientation\n";
    }
  } else if (p == "c02") {
    int n = 10;
    Circuit c(n);
    std::vector<int> w(n, 4), h(n, 10), x(n), y(n);
    for (int i = 0; i < n; ++i) { x[i] = (i * 3) % 40; y[i] = 0; }
    // last cell: fixed, NOT an obstruction, odd height, inside the rows
    w[n - 1] = 20; h[n - 1] = 15; x[n - 1] = 0; y[n - 1] = 0;
    c.setCellWidth(w); c.setCellHeight(h); c.setCellX(x); c.setCellY(y);
    std::vector<bool> fixed(n, false); fixed[n - 1] = true; c.setCellIsFixed(fixed);
    std::vector<bool> obs(n, true); obs[n - 1] = false; c.setCellIsObstruction(obs);
    c.setupRows(Rectangle(0, 40, 0, 20), 10);
    for (int i = 0; i + 2 < n; ++i) c.addNet({i, i + 1}, {2, 2}, {5, 5});
    ColoquinteParameters pr(3);
    Circuit c2 = c;
    c.legalize(pr);
    std::cerr << "legalize ok\n";
    try { c2.placeDetailed(pr); std::cerr << "placeDetailed ok\n"; } catch (std::exception &e) { std::cerr << "DEFECT placeDetailed failed: " << e.what() << "\n"; }
  }
  return 0;
}
