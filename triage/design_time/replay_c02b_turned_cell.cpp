#include <iostream>
#include "coloquinte.hpp"
using namespace coloquinte;
int main() {
  std::cout.setstate(std::ios_base::failbit);
  int n = 8;
  Circuit c(n);
  std::vector<int> w(n, 4), h(n, 10), x(n), y(n);
  for (int i = 0; i < n; ++i) { x[i] = (i * 5) % 40; y[i] = (i % 3) * 10; }
  // cell 0: raw 20 x 10, turned West -> placed 10 x 20 (two rows)
  w[0] = 20; h[0] = 10;
  std::vector<CellOrientation> o(n, CellOrientation::N); o[0] = CellOrientation::W;
  c.setCellWidth(w); c.setCellHeight(h); c.setCellX(x); c.setCellY(y); c.setCellOrientation(o);
  c.setupRows(Rectangle(0, 40, 0, 40), 10);
  for (int i = 0; i + 1 < n; ++i) c.addNet({i, i + 1}, {2, 2}, {5, 5});
  ColoquinteParameters pr(3);
  Circuit c2 = c;
  c.legalize(pr);
  std::cerr << "legalize ok; cell0 at " << c.cellX()[0] << "," << c.cellY()[0] << " placed " << c.placedWidth(0) << "x" << c.placedHeight(0) << "\n";
  try { c2.placeDetailed(pr); std::cerr << "placeDetailed ok\n";
    auto pl = c2.cellPlacement();
    for (int i = 0; i < n; ++i) for (int j = i+1; j < n; ++j) if (pl[i].intersects(pl[j])) std::cerr << "DEFECT overlap " << i << " " << j << "\n";
  } catch (std::exception &e) { std::cerr << "DEFECT placeDetailed failed: " << e.what() << "\n"; }
}
