// Minimal stand-in for pybind11, used ONLY so that clang can parse and type-check
// pycoloquinte/module.cpp against the real coloquinte.hpp (the pybind11 submodule is
// absent from the sandbox). It declares the entry points module.cpp uses as permissive
// templates; every C++ entity named in a binding (&Class::member, Enum::value) is still
// resolved by clang against the real header, which is what the C20 rules inspect.
#pragma once
#include <functional>
#include <optional>
#include <string>
#include <utility>
#include <vector>

namespace pybind11 {
struct module_ {
  struct doc_proxy {
    template <class T> doc_proxy &operator=(T &&) { return *this; }
  };
  doc_proxy doc() { return {}; }
};
using module = module_;

struct arg {
  explicit arg(const char *) {}
  template <class T> arg &operator=(T &&) { return *this; }
};
template <class... A> struct init {};
struct gil_scoped_release {};
struct gil_scoped_acquire {};

template <class E> struct enum_ {
  template <class... X> enum_(module_ &, const char *, X &&...) {}
  template <class... X> enum_ &value(const char *, E, X &&...) { return *this; }
  enum_ &export_values() { return *this; }
};

template <class C, class... Bases> struct class_ {
  template <class... X> class_(module_ &, const char *, X &&...) {}
  template <class... A, class... X> class_ &def(init<A...>, X &&...) { return *this; }
  template <class F, class... X> class_ &def(const char *, F &&, X &&...) { return *this; }
  template <class F, class... X> class_ &def_static(const char *, F &&, X &&...) { return *this; }
  template <class B, class D, class... X> class_ &def_readwrite(const char *, D B::*, X &&...) { return *this; }
  template <class B, class D, class... X> class_ &def_readonly(const char *, D B::*, X &&...) { return *this; }
  template <class G, class... X> class_ &def_property_readonly(const char *, G &&, X &&...) { return *this; }
  template <class G, class S, class... X> class_ &def_property(const char *, G &&, S &&, X &&...) { return *this; }
};
}  // namespace pybind11

#define PYBIND11_MODULE(name, variable) \
  static void pybind11_init_##name(::pybind11::module_ &variable)
