#pragma once
#include "pybind11.h"
