// Positive controls for the zero-instance rules of C08: every construct below MUST be reported
// by the rule named in its comment on every run (a rule that stops matching here is analysis-broken).
#include <chrono>
#include <cstdlib>
#include <future>
#include <random>
#include <unordered_set>
#include <vector>
namespace coloquinte {
namespace selftest {
static int counter = 0;                       // Z1: namespace-scope mutable static
struct Cache {
  mutable int hits;                           // Z2: mutable member
  static int shared;                          // Z1: mutable static data member
  int get() const {
    static std::vector<int> memo;             // Z1: function-local static
    ++hits;
    return const_cast<Cache *>(this)->hits;   // Z2: const_cast
  }
};
inline int entropy() {
  std::random_device rd;                      // Z3: random_device
  return rd() + std::rand();                  // Z3: rand
}
inline bool late(std::chrono::steady_clock::time_point t0) {
  auto now = std::chrono::steady_clock::now();
  return (now - t0).count() > 1000;           // Z3: clock value reaches a result
}
inline int iterate(const std::unordered_set<int> &s) {
  int last = 0;
  for (int v : s) last = v;                   // D2: iteration order of an unordered container reaches a result
  return last;
}
struct Worker {
  int state;
  void bump() { ++state; }
  int run() {
    auto f = std::async(std::launch::async, [this]() { bump(); return state; });   // A1: lambda capturing this
    return f.get();
  }
};
}  // namespace selftest
}  // namespace coloquinte
