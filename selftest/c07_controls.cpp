// Positive controls for the C07 rules whose expected count on the library is zero.
#include <algorithm>
#include <cassert>
#include <vector>
namespace coloquinte {
namespace selftest7 {
struct Costs {
  long long total;
  std::vector<int> rows;
  long long cost(int w, int d) const { return (long long)w * d; }
  // M1: product evaluated in int, widened afterwards
  void add(int dist, int width) { total += dist * width; }
  // M2: 64-bit cost stored in an int
  int narrow(int w, int d) const { int c = cost(w, d); return c; }
  // E1: last-element index of a possibly empty container used as a subscript
  int lastRow() const { return (int)rows.size() - 1; }
  int useLast() const { return rows[lastRow()]; }
  // E1: unsigned wrap of size() - 1 used as a loop bound
  int sum() const {
    int s = 0;
    const unsigned long n = rows.size() - 1;
    for (unsigned long i = 0; i < n; ++i) s += rows[i];
    return s;
  }
  // AS: the assertion excludes pred == next == -1 although -1 is the accepted "no neighbour" value of each
  int between(int pred, int next) const {
    assert(pred != next);
    assert(pred == -1 || pred < (int)rows.size());
    assert(next == -1 || next < (int)rows.size());
    return (next == -1 ? (int)rows.size() : next) - (pred == -1 ? 0 : pred);
  }
  // VB: the consistency test reads `rows` after the new value was installed (compares the vector with itself)
  void replaceRows(const std::vector<int> &r) {
    rows = r;
    for (unsigned long i = 0; i < rows.size(); ++i) {
      if ((rows[i] == 0) != (r[i] == 0)) throw 1;
    }
  }
  // DZ: a dimension that may be zero becomes a divisor (directly, and through a call argument after a minimum)
  std::vector<int> dims;
  int perUnit(int i, int total) const { return total / dims[i]; }
  int split(int total, int size) const { return total / size; }
  int smallest(int total) const {
    int m = 1 << 30;
    for (int d : dims) m = std::min(m, d);
    return split(total, 3 * m);
  }
  // not DZ: the minimum is taken over positive dimensions only
  int smallestPositive(int total) const {
    int m = 1 << 30;
    for (int d : dims) {
      if (d > 0) m = std::min(m, d);
    }
    return total / m;
  }
  // DE: `rowSum` memoises sumRows(); setRows() re-derives it, appendRow() does not, and consistent() reads both
  long long rowSum = 0;
  long long sumRows() const { long long r = 0; for (int v : rows) r += v; return r; }
  void setRows(const std::vector<int> &r) { rows = r; rowSum = sumRows(); }
  void appendRow(int v) { rows.push_back(v); }
  bool consistent() const { return rowSum == sumRows(); }
  // SW: the two float members reach each other's parameter
  struct Knobs { float binSize; float sideMargin; };
  static int grid(int n, float binSize, float sideMargin) { return (int)(n * binSize + sideMargin); }
  int build(const Knobs &k) const { return grid((int)rows.size(), k.sideMargin, k.binSize); }
  // not SW: same call with the members in their own slots
  int buildOk(const Knobs &k) const { return grid((int)rows.size(), k.binSize, k.sideMargin); }
  // E2: loop step that can be zero
  int stride(int nb) const {
    int s = 0;
    for (int r = 0; r < 100; r += nb / 2) s += r;
    return s;
  }
};
}  // namespace selftest7
}  // namespace coloquinte
