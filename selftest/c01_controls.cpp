// Positive control for rule DS (derived state kept by a const query without complete invalidation).
#include <vector>
namespace coloquinte {
namespace selftest1 {
class Store {
 public:
  int total() const {
    if (!valid_) {
      cache_ = 0;
      for (int v : values_) cache_ += v * scale_;
      valid_ = true;
    }
    return cache_;
  }
  void setValues(const std::vector<int> &v) { values_ = v; valid_ = false; }   // invalidates
  void setScale(int s) { scale_ = s; }                                          // DS: forgets to invalidate
 private:
  std::vector<int> values_;
  int scale_ = 1;
  mutable int cache_ = 0;
  mutable bool valid_ = false;
};
}  // namespace selftest1
}  // namespace coloquinte
