// Positive / negative controls for C16 rule FC (expected count on the library: 0).
#include <vector>
namespace coloquinte {
namespace selftest16 {
struct Rectangle {
  int minX, maxX, minY, maxY;
  Rectangle(int a, int b, int c, int d) : minX(a), maxX(b), minY(c), maxY(d) {}
};
struct Clipper {
  // FC: the row bound is offset by a float and truncated back: asymmetric rounding, inexact above 2^24
  Rectangle clipFloat(Rectangle row, float sideMargin, int cellHeight) const {
    float margin = sideMargin * cellHeight;
    Rectangle r{0, 0, row.minY, row.maxY};
    r.minX = row.minX + margin;
    r.maxX = row.maxX - margin;
    return r;
  }
  // FC: the same through a forwarding emplace_back (the conversion happens inside the template)
  void clipInto(std::vector<Rectangle> &out, Rectangle row, float margin) const {
    out.emplace_back(row.minX + margin, row.maxX - margin, row.minY, row.maxY);
  }
  // not FC: the margin is rounded once, the bounds are offset in integers
  Rectangle clipInt(Rectangle row, float sideMargin, int cellHeight) const {
    int margin = sideMargin * cellHeight;
    Rectangle r{row.minX + margin, row.maxX - margin, row.minY, row.maxY};
    return r;
  }
};
}  // namespace selftest16
}  // namespace coloquinte
