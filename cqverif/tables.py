"""Exhaustive finite-domain evaluation of pure enum-dispatch functions over the AST.

This is constant propagation on a finite lattice (what a compiler does when it folds
a switch), not a run of the library: the evaluator walks the resolved AST of a function
for given enum arguments over a fixed statement/expression fragment. Integers that are not
known stay *symbolic* (linear forms over named symbols such as w, h, px, py). Anything outside
the fragment raises OutsideFragment -> the rule reports analysis-broken, never a pass.
"""
from .model import inner, qt, walk
from .expr import children, strip, callee_info, ref_decl, member_decl, TRANSPARENT, EXPLICIT_CASTS
from .frontend import AnalysisBroken


class OutsideFragment(Exception):
    pass


class Abort(Exception):
    """Evaluation reached a noreturn call (abort / assert failure)."""


class Return(Exception):
    def __init__(self, v):
        self.v = v


class Break(Exception):
    pass


class EnumVal:
    __slots__ = ("type", "value")

    def __init__(self, t, v):
        self.type = t
        self.value = int(v)

    def __eq__(self, o):
        return isinstance(o, EnumVal) and o.type == self.type and o.value == self.value

    def __hash__(self):
        return hash((self.type, self.value))

    def __repr__(self):
        return "%s#%d" % (self.type, self.value)


class Lin:
    """Linear form: const + sum coef*symbol."""
    __slots__ = ("c", "t")

    def __init__(self, c=0, t=None):
        self.c = c
        self.t = {k: v for k, v in (t or {}).items() if v != 0}

    @staticmethod
    def sym(name):
        return Lin(0, {name: 1})

    def __add__(self, o):
        o = lin(o)
        t = dict(self.t)
        for k, v in o.t.items():
            t[k] = t.get(k, 0) + v
        return Lin(self.c + o.c, t)

    def __neg__(self):
        return Lin(-self.c, {k: -v for k, v in self.t.items()})

    def __sub__(self, o):
        return self + (-lin(o))

    def __eq__(self, o):
        o = lin(o)
        return self.c == o.c and self.t == o.t

    def __hash__(self):
        return hash((self.c, tuple(sorted(self.t.items()))))

    def is_const(self):
        return not self.t

    def __repr__(self):
        parts = []
        for k in sorted(self.t):
            v = self.t[k]
            parts.append(("%s" % k) if v == 1 else ("-%s" % k if v == -1 else "%s*%s" % (v, k)))
        if self.c or not parts:
            parts.append(str(self.c))
        return " + ".join(parts).replace("+ -", "- ")


def lin(x):
    if isinstance(x, Lin):
        return x
    if isinstance(x, bool):
        return Lin(int(x))
    if isinstance(x, (int, float)):
        return Lin(x)
    raise OutsideFragment("not an arithmetic value: %r" % (x,))


INTEGER_TYPES = ("int", "unsigned int", "long", "unsigned long", "long long", "unsigned long long", "short", "unsigned short", "char",
                 "unsigned char", "size_t", "std::size_t")


class Evaluator:
    def __init__(self, prog, hooks=None, max_depth=12):
        self.prog = prog
        self.hooks = hooks or {}     # qualified callee name -> python function(evaluator, args, call_node) -> value
        self.max_depth = max_depth
        self.enum_values = {}        # enum type -> {value: first name}
        self._collect_enums()

    def _collect_enums(self):
        for u in self.prog.units:
            for d in u.by_id.values():
                if d.get("kind") == "EnumConstantDecl":
                    t = d.get("_ctx") or qt(d)
                    t = qt(d)
                    v = self._enum_const_value(d)
                    if v is None:
                        continue
                    self.enum_values.setdefault(t, {}).setdefault(v, d.get("name"))

    def _enum_const_value(self, d):
        for x in walk(d):
            if x.get("kind") == "ConstantExpr" and "value" in x:
                return int(x["value"])
        # implicit value: position in the enum
        p = d.get("_p")
        if p is not None:
            v = -1
            for c in inner(p):
                if c.get("kind") == "EnumConstantDecl":
                    cv = None
                    for x in walk(c):
                        if x.get("kind") == "ConstantExpr" and "value" in x:
                            cv = int(x["value"])
                    v = cv if cv is not None else v + 1
                    if c is d:
                        return v
        return None

    def enum_name(self, ev):
        return self.enum_values.get(ev.type, {}).get(ev.value, "?%d" % ev.value)

    def enumerators(self, etype):
        """[(name, EnumVal)] distinct values of an enum type, first name of each."""
        return [(n, EnumVal(etype, v)) for v, n in sorted(self.enum_values.get(etype, {}).items())]

    # ---- functions ---------------------------------------------------------
    def call(self, func, args, depth=0, this_env=None):
        if depth > self.max_depth:
            raise OutsideFragment("evaluation too deep")
        env = {}
        for p, a in zip(func.params, args):
            env[p.get("id")] = a
        if this_env:
            env.update(this_env)
        try:
            self.stmt(func.body, env, depth)
        except Return as r:
            return r.v
        return None

    def stmt(self, s, env, depth):
        k = s.get("kind")
        ch = [c for c in inner(s)]
        if k == "CompoundStmt":
            for c in ch:
                self.stmt(c, env, depth)
            return
        if k == "ReturnStmt":
            raise Return(self.expr(ch[0], env, depth) if ch and ch[0].get("kind") else None)
        if k == "IfStmt":
            i = 0
            if s.get("hasInit"):
                self.stmt(ch[i], env, depth)
                i += 1
            c = self.expr(ch[i], env, depth)
            if not isinstance(c, bool):
                raise OutsideFragment("branch on a symbolic condition at line %s" % _line(s))
            if c:
                self.stmt(ch[i + 1], env, depth)
            elif len(ch) > i + 2:
                self.stmt(ch[i + 2], env, depth)
            return
        if k == "SwitchStmt":
            cond = self.expr(ch[-2] if len(ch) >= 2 else ch[0], env, depth)
            body = ch[-1]
            self.switch(cond, body, env, depth)
            return
        if k == "DeclStmt":
            for d in ch:
                if d.get("kind") == "VarDecl":
                    init = children(d)
                    env[d.get("id")] = self.expr(init[-1], env, depth) if init else None
            return
        if k == "NullStmt":
            return
        if k == "BreakStmt":
            raise Break()
        if k in ("ForStmt", "WhileStmt", "DoStmt", "CXXForRangeStmt", "CXXTryStmt", "GotoStmt", "ContinueStmt"):
            raise OutsideFragment("%s at line %s" % (k, _line(s)))
        # expression statement
        self.expr(s, env, depth)

    def switch(self, cond, body, env, depth):
        stmts = list(inner(body)) if body.get("kind") == "CompoundStmt" else [body]
        # flatten case labels: find the entry statement index
        active = False
        default_at = None
        flat = []
        for st in stmts:
            cur = st
            labels = []
            while cur.get("kind") in ("CaseStmt", "DefaultStmt"):
                cch = list(inner(cur))
                if cur.get("kind") == "CaseStmt":
                    labels.append(("case", cch[0]))
                else:
                    labels.append(("default", None))
                cur = cch[-1]
            flat.append((labels, cur))
        start = None
        for i, (labels, _st) in enumerate(flat):
            for kind_, val in labels:
                if kind_ == "case":
                    v = self.expr(val, env, depth)
                    if v == cond or (isinstance(v, Lin) and isinstance(cond, Lin) and v == cond):
                        start = i
                elif default_at is None:
                    default_at = i
            if start is not None:
                break
        if start is None:
            start = default_at
        if start is None:
            return
        try:
            for labels, st in flat[start:]:
                self.stmt(st, env, depth)
        except Break:
            return

    # ---- expressions ---------------------------------------------------------
    def expr(self, e, env, depth):
        k = e.get("kind")
        if k in TRANSPARENT or k in EXPLICIT_CASTS:
            ch = children(e)
            if k == "ConstantExpr" and "value" in e and not ch:
                return Lin(int(e["value"]))
            v = self.expr(ch[-1] if k in EXPLICIT_CASTS else ch[0], env, depth)
            if k == "ImplicitCastExpr" and e.get("castKind") == "IntegralToBoolean" and isinstance(v, Lin) and v.is_const():
                return v.c != 0
            if k in EXPLICIT_CASTS or (k == "ImplicitCastExpr" and e.get("castKind") == "IntegralCast"):
                # enum <-> integer conversions (`static_cast<int>(o)` indexing a lookup table, and back)
                tt = ((e.get("type") or {}).get("desugaredQualType") or qt(e)).replace("const ", "").strip()
                if isinstance(v, EnumVal) and tt in INTEGER_TYPES:
                    return Lin(v.value)
                if isinstance(v, Lin) and v.is_const() and tt in self.enum_values and float(v.c).is_integer():
                    return EnumVal(tt, int(v.c))
            return v
        ch = children(e)
        if k == "DeclRefExpr":
            d = ref_decl(e) or {}
            if d.get("kind") == "EnumConstantDecl":
                v = self._enum_const_value(d) if "_p" in d else None
                if v is None:
                    raise OutsideFragment("enumerator value unknown: %s" % d.get("name"))
                return EnumVal(qt(e), v)
            if d.get("id") in env:
                return env[d.get("id")]
            if d.get("kind") == "VarDecl" and "_p" in d and (d.get("constexpr") or qt(d).startswith("const ") or " const" in qt(d)) and \
                    (d.get("_p") or {}).get("kind") in ("NamespaceDecl", "TranslationUnitDecl", "CXXRecordDecl", "DeclStmt"):
                # a named constant / constant lookup table: its initialiser is its value
                init = children(d)
                if init:
                    memo = self.__dict__.setdefault("_const_memo", {})
                    if d.get("id") not in memo:
                        memo[d.get("id")] = self.expr(init[-1], {}, depth + 1)
                    return memo[d.get("id")]
            raise OutsideFragment("free variable %s at line %s" % (d.get("name"), _line(e)))
        if k == "IntegerLiteral":
            return Lin(int(e.get("value")))
        if k == "CXXBoolLiteralExpr":
            return bool(e.get("value"))
        if k == "StringLiteral":
            return ("str", e.get("value", "").strip('"'))
        if k == "FloatingLiteral":
            return Lin(float(e.get("value")))
        if k == "UnaryOperator":
            op = e.get("opcode")
            v = self.expr(ch[0], env, depth)
            if op == "!":
                if not isinstance(v, bool):
                    raise OutsideFragment("! on non-boolean")
                return not v
            if op == "-":
                return -lin(v)
            if op == "+":
                return lin(v)
            raise OutsideFragment("unary %s" % op)
        if k == "BinaryOperator":
            op = e.get("opcode")
            if op == "&&":
                a = self.expr(ch[0], env, depth)
                if a is False:
                    return False
                b = self.expr(ch[1], env, depth)
                if isinstance(a, bool) and isinstance(b, bool):
                    return a and b
                raise OutsideFragment("&& on symbolic operands")
            if op == "||":
                a = self.expr(ch[0], env, depth)
                if a is True:
                    return True
                b = self.expr(ch[1], env, depth)
                if isinstance(a, bool) and isinstance(b, bool):
                    return a or b
                raise OutsideFragment("|| on symbolic operands")
            a = self.expr(ch[0], env, depth)
            b = self.expr(ch[1], env, depth)
            if op in ("==", "!="):
                if isinstance(a, EnumVal) and isinstance(b, EnumVal):
                    r = a == b
                elif isinstance(a, bool) and isinstance(b, bool):
                    r = a == b
                elif isinstance(a, Lin) and isinstance(b, Lin) and a.is_const() and b.is_const():
                    r = a.c == b.c
                else:
                    raise OutsideFragment("comparison of symbolic values at line %s" % _line(e))
                return r if op == "==" else not r
            if op == "+":
                return lin(a) + lin(b)
            if op == "-":
                return lin(a) - lin(b)
            if op in ("<", "<=", ">", ">="):
                la, lb = lin(a), lin(b)
                if la.is_const() and lb.is_const():
                    return {"<": la.c < lb.c, "<=": la.c <= lb.c, ">": la.c > lb.c, ">=": la.c >= lb.c}[op]
                raise OutsideFragment("ordering of symbolic values")
            if op == "=":
                # assignment to a local
                l = strip(ch[0])
                if l.get("kind") == "DeclRefExpr":
                    d = ref_decl(l) or {}
                    env[d.get("id")] = b
                    return b
            raise OutsideFragment("binary %s" % op)
        if k == "ConditionalOperator":
            c = self.expr(ch[0], env, depth)
            if not isinstance(c, bool):
                raise OutsideFragment("?: on a symbolic condition at line %s" % _line(e))
            return self.expr(ch[1] if c else ch[2], env, depth)
        if k in ("CallExpr", "CXXMemberCallExpr", "CXXOperatorCallExpr"):
            ci = callee_info(e)
            if ci["name"] in ("abort", "__assert_fail", "exit", "terminate"):
                raise Abort()
            q = ci["qname"]
            if q in self.hooks:
                args = [self.expr(a, env, depth) for a in ci["args"]]
                return self.hooks[q](self, args, e, env)
            if ci.get("operator") and ci["name"] == "operator[]" and "subscript" in self.hooks:
                return self.hooks["subscript"](self, ci, e, env, depth)
            d = ci.get("decl")
            fs = []
            if d is not None:
                mn = d.get("mangledName")
                if mn and mn in self.prog.funcs:
                    fs = [self.prog.funcs[mn]]
                else:
                    fs = [f for f in self.prog.funcs_by_q.get(d.get("_q", ""), []) if f.type == qt(d)]
            if len(fs) == 1:
                args = [self.expr(a, env, depth) for a in ci["args"]]
                return self.call(fs[0], args, depth + 1, this_env={k_: v for k_, v in env.items() if isinstance(k_, str)})
            raise OutsideFragment("call to %s at line %s" % (q, _line(e)))
        if k in ("CXXConstructExpr", "CXXTemporaryObjectExpr"):
            real = [c for c in ch if c.get("kind") != "CXXDefaultArgExpr"]
            if len(real) == 1:
                return self.expr(real[0], env, depth)
            raise OutsideFragment("constructor call")
        if k == "ArraySubscriptExpr" and "subscript" in self.hooks:
            return self.hooks["subscript"](self, {"obj": ch[0], "args": [ch[1]]}, e, env, depth)
        if k == "InitListExpr":
            return ["initlist"] + [self.expr(c, env, depth) for c in ch]
        if k == "ArraySubscriptExpr":
            base = self.expr(ch[0], env, depth)
            idx = self.expr(ch[1], env, depth)
            if isinstance(base, list) and base and base[0] == "initlist" and isinstance(idx, Lin) and idx.is_const() and float(idx.c).is_integer():
                i = int(idx.c)
                if 0 <= i < len(base) - 1:
                    return base[i + 1]
                raise OutsideFragment("constant table read out of range at line %s" % _line(e))
            raise OutsideFragment("subscript of a non-constant table at line %s" % _line(e))
        if k == "MemberExpr" and "member" in self.hooks:
            return self.hooks["member"](self, e, env, depth)
        raise OutsideFragment("%s at line %s" % (k, _line(e)))


def _line(n):
    from .model import loc_of
    return loc_of(n)[1]
