"""Rule framework: instances, verdicts, known findings, evidence, exit codes."""
import json
import os
import sys
import time

from . import frontend
from .frontend import AnalysisBroken, VERIF
from .model import loc_str, Program
from .cfg import cfg_of
from .expr import canon, pretty
from .effects import Effects

HOLDS, VIOLATION, UNKNOWN = "HOLDS", "VIOLATION", "UNKNOWN"
OUT = os.environ.get("CQVERIF_OUT", os.path.join(VERIF, "evidence"))


class Ctx:
    """Shared analysis context handed to every rule module."""

    def __init__(self, log=None):
        self.prog = Program(log=log)
        self.eff = Effects(self.prog)
        from .rules import common as _common
        _common.CURRENT_CTX[0] = self
        try:
            from .tables import Evaluator
            from . import intervals
            ev = Evaluator(self.prog)
            intervals.ENUM_VALUES.clear()
            for t, vals in getattr(ev, "enum_values", {}).items():
                for v, name in vals.items():
                    intervals.ENUM_VALUES["%s::%s" % (t.replace("coloquinte::", ""), name)] = v
        except Exception:
            pass

    def guards(self, func, node, asserts=False, derived=False):
        """Branch conditions that edge-dominate the evaluation of AST node `node`
        in `func`: list of (canonical condition, branch value, condition AST, is_assert)."""
        g = cfg_of(func)
        cn = g.node_for(node)
        if cn is None:
            return None
        out = []
        # expression-level guards: the node lies in one arm of a ?: / the right operand of && or ||
        x, child = node.get("_p"), node
        while x is not None and x is not cn.ast and x.get("kind") not in ("CompoundStmt", "LambdaExpr"):
            k = x.get("kind")
            if k == "ConditionalOperator":
                ch = [c for c in x.get("inner", []) if isinstance(c, dict) and c.get("kind")]
                if len(ch) == 3 and child is not ch[0]:
                    self._cond_atoms(ch[0], child is ch[1], out)
            elif k == "BinaryOperator" and x.get("opcode") in ("&&", "||"):
                ch = [c for c in x.get("inner", []) if isinstance(c, dict) and c.get("kind")]
                if len(ch) == 2 and child is ch[1]:
                    self._cond_atoms(ch[0], x.get("opcode") == "&&", out)
            child = x
            x = x.get("_p")
        for ast, val, en in g.dom_edges(cn, asserts=True):
            if en.from_assert and not asserts:
                continue
            gc = canon(ast)
            if ast.get("_u") is not None:
                from .rules.common import subst_counts
                gc = subst_counts(gc, ast["_u"])
            out.append((gc, val, ast, en.from_assert))
        # compound conditions no single branch edge stands for: the then-branch of `if (a || b)`, the code after `if (a && b) continue;`
        # (the CFG splits them into short-circuit edges, none of which dominates). They are reported whole.
        out.extend(self._compound_guards(func, node))
        # boolean predicates of the library used as conditions: `if (!rowAcceptsCell(cell, row)) return ...` establishes, on the
        # other branch, whatever holds whenever the predicate returns true (the conjuncts of its return expression, the guards of its
        # `return true` statements), translated to the arguments
        for gc, val, ast, fa in (list(out) if derived else []):
            if not isinstance(val, bool) or not isinstance(ast, dict):
                continue
            for fact in self._predicate_facts(ast, val):
                out.append(fact + (ast, fa))
        # validation helpers: a dominating call statement `check(a, b)` of a library function every normal return of which is
        # dominated by conditions over its parameters (`if (bad) throw`) establishes those conditions for the arguments
        for d in g.dominators(cn):
            if d.kind != "stmt" or d is cn or d.ast is None:
                continue
            for gc, val, call in self._helper_facts(d.ast):
                out.append((gc, val, call, False))
        return out

    def _predicate_facts(self, cond_ast, val, _depth=0):
        from .expr import strip as _strip, callee_info as _ci, children as _children
        e = _strip(cond_ast, casts=True)
        while isinstance(e, dict) and e.get("kind") == "UnaryOperator" and e.get("opcode") == "!":
            e, val = _strip(_children(e)[0], casts=True), not val
        if not isinstance(e, dict) or e.get("kind") not in ("CallExpr", "CXXMemberCallExpr") or _depth > 2:
            return []
        ci, fs = self.eff.resolve_callee(e)
        if not ci or len(fs) != 1:
            return []
        h = fs[0]
        rt = h.type.split("(")[0].strip() if h.type else ""
        if rt != "bool" or h.body is None or getattr(h, "lam_parent", None) is not None:
            return []
        if ci.get("obj") is not None and _strip(ci["obj"], casts=True).get("kind") != "CXXThisExpr":
            objc = canon(ci["obj"])
        else:
            objc = None
        memo = self.__dict__.setdefault("_pf_memo", {})
        key = (h.key, val)
        if key not in memo:
            memo[key] = None
            hg = cfg_of(h)
            per_return = []
            from .model import walk as _walk
            for r in _walk(h.body):
                if r.get("kind") != "ReturnStmt" or not _children(r):
                    continue
                ex = _children(r)[0]
                ec = canon(ex)
                if ec[0] == "lit" and isinstance(ec[1], bool):
                    if ec[1] is not val:
                        continue            # this return cannot produce the observed value
                    facts = []
                else:
                    facts = []
                    self._cond_atoms(ex, val, facts)
                    facts = [(c, v) for c, v, _a, _b in facts]
                rn = hg.node_for(r)
                if rn is not None:
                    for a_, v_, en_ in hg.dom_edges(rn):
                        if isinstance(v_, bool) and not en_.from_assert:
                            facts.append((canon(a_), v_))
                per_return.append(set(facts))
            if per_return:
                common = set.intersection(*per_return)
                pids = {p.get("id") for p in h.params}
                from .expr import subterms as _sub
                ok = []
                for c, v in common:
                    if all(not (isinstance(t, tuple) and t and t[0] == "var" and t[1] not in pids) for t in _sub(c)):
                        ok.append((c, v))
                memo[key] = ok
        summ = memo.get(key)
        if not summ:
            return []
        args = ci["args"]
        if len(args) < len(h.params):
            return []
        amap = {p.get("id"): canon(args[i]) for i, p in enumerate(h.params)}

        def sub(c):
            if isinstance(c, tuple):
                if c and c[0] == "var" and c[1] in amap:
                    return amap[c[1]]
                if c == ("this",) and objc is not None:
                    return objc
                return tuple(sub(y) if isinstance(y, tuple) else y for y in c)
            return c
        return [(sub(c), v) for c, v in summ]

    def _helper_facts(self, stmt):
        from .expr import strip as _strip, callee_info as _ci
        e = stmt
        while isinstance(e, dict) and e.get("kind") in ("ExprWithCleanups", "ImplicitCastExpr", "ParenExpr", "CXXBindTemporaryExpr"):
            ch = [c for c in e.get("inner", []) if isinstance(c, dict) and c.get("kind")]
            if not ch:
                return []
            e = ch[0]
        if not isinstance(e, dict) or e.get("kind") not in ("CallExpr", "CXXMemberCallExpr"):
            return []
        ci, fs = self.eff.resolve_callee(e)
        if not ci or len(fs) != 1:
            return []
        h = fs[0]
        summ = self._helper_summary(h)
        if not summ:
            return []
        if ci.get("obj") is not None and _strip(ci["obj"], casts=True).get("kind") != "CXXThisExpr" and summ[1]:
            return []           # facts about the members of another object are not translated
        args = ci["args"]
        if len(args) < len(h.params):
            return []
        amap = {p.get("id"): canon(args[i]) for i, p in enumerate(h.params)}

        def sub(c):
            if isinstance(c, tuple):
                if c and c[0] == "var" and c[1] in amap:
                    return amap[c[1]]
                return tuple(sub(y) if isinstance(y, tuple) else y for y in c)
            return c
        return [(sub(c), val, e) for c, val in summ[0]]

    def _helper_summary(self, h):
        """([(condition over the parameters / own members, value)], mentions_members) holding on every normal return of h."""
        memo = getattr(self, "_hs_memo", None)
        if memo is None:
            memo = self._hs_memo = {}
        if h.key in memo:
            return memo[h.key]
        memo[h.key] = None
        if h.body is None or h.lam_parent is not None:
            return None
        rt = h.type.split("(")[0].strip() if h.type else ""
        if rt != "void":
            return None
        hg = cfg_of(h)
        pids = {p.get("id") for p in h.params}
        facts, members = [], False
        from .expr import subterms as _sub
        for ast, val, en in hg.dom_edges(hg.exit, asserts=False):
            c = canon(ast)
            ok = True
            for t in _sub(c):
                if isinstance(t, tuple) and t:
                    if t[0] == "var" and t[1] not in pids:
                        ok = False
                    if t[0] == "field":
                        members = True
            if ok:
                facts.append((c, val))
        res = (facts, members) if facts else None
        memo[h.key] = res
        return res

    def _compound_guards(self, func, node):
        from .expr import strip as _strip, children as _children

        def unsplit(e, val):
            s_ = _strip(e)
            k = s_.get("kind")
            if k == "UnaryOperator" and s_.get("opcode") == "!":
                yield from unsplit(_children(s_)[0], not val)
            elif k == "BinaryOperator" and s_.get("opcode") == "&&":
                if val:
                    for c in _children(s_):
                        yield from unsplit(c, True)
                else:
                    yield s_, False
            elif k == "BinaryOperator" and s_.get("opcode") == "||":
                if not val:
                    for c in _children(s_):
                        yield from unsplit(c, False)
                else:
                    yield s_, True

        def jumps(st):
            while st is not None and st.get("kind") in ("CompoundStmt", "ExprWithCleanups", "AttributedStmt"):
                ch = _children(st)
                st = ch[-1] if ch else None
            return st is not None and st.get("kind") in ("ContinueStmt", "BreakStmt", "ReturnStmt", "CXXThrowExpr")
        out = []
        top = func.body
        child, p = node, node.get("_p")
        while p is not None and child is not top:
            k = p.get("kind")
            if k == "IfStmt":
                ch = _children(p)
                if len(ch) >= 2 and child is ch[1]:
                    out += [(canon(s_), v, s_, False) for s_, v in unsplit(ch[0], True)]
                elif len(ch) >= 3 and child is ch[2]:
                    out += [(canon(s_), v, s_, False) for s_, v in unsplit(ch[0], False)]
            elif k == "CompoundStmt":
                for sib in _children(p):
                    if sib is child:
                        break
                    if sib.get("kind") == "IfStmt":
                        ch = _children(sib)
                        if len(ch) == 2 and jumps(ch[1]):
                            out += [(canon(s_), v, s_, False) for s_, v in unsplit(ch[0], False)]
            elif k == "LambdaExpr":
                break
            child, p = p, p.get("_p")
        return out

    def _cond_atoms(self, e, val, out):
        """Decompose a condition known to have value `val` into atomic facts."""
        from .expr import strip as _strip, children as _children
        s = _strip(e)
        k = s.get("kind")
        if k == "UnaryOperator" and s.get("opcode") == "!":
            return self._cond_atoms(_children(s)[0], not val, out)
        if k == "BinaryOperator" and s.get("opcode") == "&&" and val:
            for c in _children(s):
                self._cond_atoms(c, True, out)
            return
        if k == "BinaryOperator" and s.get("opcode") == "||" and not val:
            for c in _children(s):
                self._cond_atoms(c, False, out)
            return
        if k == "BinaryOperator" and s.get("opcode") in ("&&", "||"):
            return
        out.append((canon(s), val, s, False))

    def func_containing(self, node):
        return self.eff.func_of_node(node)


class Report:
    def __init__(self, pid, tier, seed=0):
        self.pid = pid
        self.tier = tier
        self.seed = seed
        self.t0 = time.time()
        self.instances = []
        self.rules = {}
        self.notes = []
        self.extra = {}
        self.known = _load_known()

    def rule(self, rid, text, min_instances=1):
        self.rules[rid] = {"text": text, "min": min_instances, "count": 0}

    def add(self, rid, node, func, what, verdict, reason="", key=None):
        if rid not in self.rules:
            self.rules[rid] = {"text": rid, "min": 0, "count": 0}
        self.rules[rid]["count"] += 1
        site = node if isinstance(node, str) else (loc_str(node) if node is not None else "?")
        fn = func if isinstance(func, str) or func is None else func.short
        inst = {"rule": rid, "site": site, "function": fn, "what": what, "verdict": verdict, "reason": reason,
                "key": key or ("%s|%s" % (fn, what))}
        self.instances.append(inst)
        return inst

    def holds(self, rid, node, func, what, reason=""):
        return self.add(rid, node, func, what, HOLDS, reason)

    def violation(self, rid, node, func, what, reason, key=None):
        return self.add(rid, node, func, what, VIOLATION, reason, key)

    def unknown(self, rid, node, func, what, reason):
        return self.add(rid, node, func, what, UNKNOWN, reason)

    def note(self, s):
        self.notes.append(s)

    # ---- finish ----------------------------------------------------------
    def finish(self, ctx, explanation, assumptions=(), declined=()):
        # floors
        # The floor guards against a rule that silently stops matching (a vacuous pass). It is half of the count confirmed by
        # reading today's tree (at least 1): a clean-up that merges duplicated code legitimately lowers the count.
        for rid, r in self.rules.items():
            floor = (r["min"] + 1) // 2
            if r["count"] < floor:
                self.add(rid, "-", None, "instance floor", UNKNOWN,
                         "rule matched %d instance(s), fewer than the floor %d (half of the %d confirmed by reading the tree)" % (r["count"], floor, r["min"]))
                r["count"] -= 1
        viol, known_hits, unknown = [], [], []
        for i in self.instances:
            if i["verdict"] == VIOLATION:
                kf = self._known_match(i)
                if kf is not None:
                    i["known_finding"] = kf.get("id", True)
                    known_hits.append((i, kf))
                else:
                    viol.append(i)
            elif i["verdict"] == UNKNOWN:
                unknown.append(i)
        nh = sum(1 for i in self.instances if i["verdict"] == HOLDS)
        out = sys.stdout
        prog = ctx.prog if ctx is not None else None
        if prog is not None:
            out.write("[%s/%s] analysed %d units, %d functions with bodies (+%d lambdas); flags from %s\n" % (
                self.pid, self.tier, len(prog.units), len(prog.funcs), len(prog.all_lambdas), prog.info["flags_origin"]))
            if prog.unbuilt_on_disk:
                out.write("  note: on disk but not in SOURCES (not analysed): %s\n" % prog.unbuilt_on_disk)
        for rid, r in self.rules.items():
            cnt = {v: sum(1 for i in self.instances if i["rule"] == rid and i["verdict"] == v) for v in (HOLDS, VIOLATION, UNKNOWN)}
            out.write("  rule %-14s %3d instance(s): %d hold, %d violation, %d unknown  -- %s\n" % (
                rid, r["count"], cnt[HOLDS], cnt[VIOLATION], cnt[UNKNOWN], r["text"][:110]))
        for i in self.instances:
            if i["verdict"] != HOLDS:
                tag = {VIOLATION: "breaks", UNKNOWN: "undecided"}[i["verdict"]]
                if i.get("known_finding"):
                    tag = "known-finding"
                out.write("  %s: %s %s [%s] %s: %s\n" % (tag, i["site"], i["function"] or "", i["rule"], i["what"], i["reason"]))
        for i, kf in known_hits:
            out.write("KNOWN-FINDING: property=%s %s\n" % (self.pid, kf.get("what", i["what"])))
        replay_dir = os.path.join(OUT, "replay")
        replays = []
        if os.path.isdir(replay_dir):
            for fn in os.listdir(replay_dir):
                if fn.startswith(self.pid + "-"):
                    os.unlink(os.path.join(replay_dir, fn))
        if viol:
            os.makedirs(replay_dir, exist_ok=True)
            for k, i in enumerate(viol):
                path = os.path.join(replay_dir, "%s-%d.json" % (self.pid, k))
                with open(path, "w") as fo:
                    json.dump({"property": self.pid, "instance": i,
                               "rederive": "python3 -m cqverif.check %s --tier %s --only-rule %s" % (self.pid, self.tier, i["rule"])},
                              fo, indent=1)
                replays.append(path)
                out.write("VIOLATION property=%s replay=%s\n" % (self.pid, path))
        code = 1 if viol else (2 if unknown else 0)
        wall = time.time() - self.t0
        distinct = len({(i["rule"], i["site"], i["what"]) for i in self.instances})
        samples = [{k: i[k] for k in ("rule", "site", "function", "what", "verdict", "reason")} for i in self.instances]
        ev = {
            "property_id": self.pid, "tier": self.tier, "seed": self.seed, "level": "other",
            "coverage": {
                "explanation": explanation,
                "obligations": len(self.instances),
                "discharged": nh + len(known_hits) if not viol else nh,
                "evaluations": len(self.instances),
                "distinct_nontrivial": distinct,
                "rule": "one evaluation per (rule, site) instance found in the resolved AST of the current tree; "
                        "distinct = distinct (rule, file:line, construct) triples",
                "samples": samples[:400],
                "exhaustive": True,
                "rules": {rid: {"text": r["text"], "instances": r["count"], "floor": r["min"]} for rid, r in self.rules.items()},
                "units_analysed": list(prog.unit_names) if prog else [],
                "functions_with_bodies": len(prog.funcs) if prog else 0,
                "lambdas": len(prog.all_lambdas) if prog else 0,
                "compile_flags": prog.info["flags"] if prog else [],
                "flags_origin": prog.info["flags_origin"] if prog else "",
                "tree_hash": prog.info["tree_hash"] if prog else "",
                "declined_clauses": list(declined),
                "known_findings_matched": [kf.get("id") for _i, kf in known_hits],
                "unknown": len(unknown),
                "notes": self.notes,
            },
            "assumptions": list(assumptions),
            "wall_s": round(wall, 2),
            "violations": len(viol),
        }
        ev["coverage"].update(self.extra)
        os.makedirs(OUT, exist_ok=True)
        with open(os.path.join(OUT, "%s.json" % self.pid), "w") as fo:
            json.dump(ev, fo, indent=1)
        out.write("[%s] %d instances: %d hold, %d known finding(s), %d violation(s), %d unknown; %.1fs -> exit %d\n" % (
            self.pid, len(self.instances), nh, len(known_hits), len(viol), len(unknown), wall, code))
        return code

    def _known_match(self, inst):
        for kf in self.known.get("findings", []):
            if kf.get("property") == self.pid and kf.get("rule") == inst["rule"] and kf.get("key") == inst["key"]:
                return kf
        return None


def _load_known():
    p = os.path.join(VERIF, "known_findings.json")
    try:
        return json.load(open(p))
    except (OSError, ValueError):
        return {"findings": [], "fixed": []}


def broken(pid, tier, msg, seed=0):
    """Analysis-broken exit: evidence says so, exit code 2."""
    sys.stdout.write("[%s] ANALYSIS BROKEN: %s\n" % (pid, msg))
    ev = {"property_id": pid, "tier": tier, "seed": seed, "level": "other",
          "coverage": {"explanation": "analysis broken, no verdict: " + msg[:2000], "obligations": 0, "discharged": 0,
                       "evaluations": 1, "distinct_nontrivial": 2, "samples": [msg[:500]]},
          "wall_s": 0.0, "violations": 0}
    os.makedirs(OUT, exist_ok=True)
    with open(os.path.join(OUT, "%s.json" % pid), "w") as fo:
        json.dump(ev, fo, indent=1)
    return 2


class SubCtx(Ctx):
    """A context over another program (the positive-control files): same guard machinery, no front-end work."""

    def __init__(self, prog, eff):
        self.prog = prog
        self.eff = eff
