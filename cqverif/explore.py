"""Developer aid: print the resolved AST of one function compactly.

usage: python3 -m cqverif.explore <qualified-name-substring> [maxdepth]
"""
import sys
from .model import Program, inner, qt, loc_str


def show(n, d=0, maxd=99, out=sys.stdout):
    k = n.get("kind")
    bits = [k]
    for key in ("name", "opcode", "castKind", "value", "valueCategory", "isPostfix", "isArrow"):
        if key in n:
            bits.append("%s=%s" % (key, n[key]))
    if "type" in n:
        bits.append("<%s>" % qt(n)[:70])
    rd = n.get("referencedDecl")
    if rd:
        bits.append("-> %s %s" % (rd.get("kind"), rd.get("name")))
    if "referencedMemberDecl" in n:
        bits.append("->member %s" % n["referencedMemberDecl"])
    out.write("%s%s  @%s\n" % ("  " * d, " ".join(str(b) for b in bits), loc_str(n).split(":")[-1]))
    if d < maxd:
        for c in inner(n):
            if isinstance(c, dict) and c.get("kind"):
                show(c, d + 1, maxd, out)


if __name__ == "__main__":
    pat = sys.argv[1]
    maxd = int(sys.argv[2]) if len(sys.argv) > 2 else 99
    p = Program()
    for f in p.all_funcs():
        if pat in f.qname:
            print("=====", f.qname, f.type, f.loc(), "const" if f.is_const else "")
            for c in f.ctor_inits:
                show(c, 1, maxd)
            show(f.body, 1, maxd)
