"""A small inequality prover over canonical expressions (static, path-insensitive within the facts it is given).

Domain: the *positive orthant* - every atom (variable read, element, call result) denotes a non-negative quantity (sizes,
areas, densities, factors); differences are only known non-negative when an ordering fact says so.  Facts are the branch
conditions that edge-dominate the program point, with single-definition locals substituted by their initialisers.

prove_ge(a, b)  -> True when  a - b  normalises to a polynomial with non-negative coefficients over non-negative atoms
countermodel(a, b) -> an assignment of positive reals to the leaf atoms that satisfies every fact and hypothesis and
                      makes a < b; used to tell "genuinely unguarded" (violation) from "beyond this prover" (undecided)
"""
import random
from fractions import Fraction

from .expr import pretty

REL = {"<", "<=", ">", ">=", "==", "!="}
FLIP = {"<": ">", "<=": ">=", ">": "<", ">=": "<=", "==": "==", "!=": "!="}
NEG = {"<": ">=", "<=": ">", ">": "<=", ">=": "<", "==": "!=", "!=": "=="}


def lit_value(c):
    if c[0] != "lit":
        return None
    s = str(c[1]).rstrip("fFlLuU")
    try:
        return Fraction(s)
    except Exception:
        try:
            return Fraction(float(s)).limit_denominator(10 ** 9)
        except Exception:
            return None


def is_arith(c):
    return c[0] == "bin" and c[1] in ("+", "-", "*", "/")


def leaves(c, out=None):
    """Leaf atoms of an arithmetic term (everything that is not + - * / min max unary-minus or a literal)."""
    if out is None:
        out = []
    if c[0] == "lit":
        return out
    if is_arith(c):
        leaves(c[2], out)
        leaves(c[3], out)
    elif c[0] == "un" and c[1] == "-":
        leaves(c[2], out)
    elif c[0] == "call" and c[1] in ("max", "min") and len(c) >= 5:
        for a in c[3:]:
            leaves(a, out)
    elif c[0] == "cond":
        cond_leaves(c[1], out)
        leaves(c[2], out)
        leaves(c[3], out)
    elif c not in out:
        out.append(c)
    return out


def cond_leaves(c, out):
    if c[0] == "un" and c[1] == "!":
        cond_leaves(c[2], out)
    elif c[0] == "bin" and (c[1] in ("&&", "||")):
        cond_leaves(c[2], out)
        cond_leaves(c[3], out)
    elif c[0] == "bin" and c[1] in REL:
        leaves(c[2], out)
        leaves(c[3], out)
    elif c not in out:
        out.append(c)
    return out


def evaluate(c, env):
    if c[0] == "lit":
        v = lit_value(c)
        return float(v) if v is not None else None
    if is_arith(c):
        a, b = evaluate(c[2], env), evaluate(c[3], env)
        if a is None or b is None:
            return None
        if c[1] == "+":
            return a + b
        if c[1] == "-":
            return a - b
        if c[1] == "*":
            return a * b
        return a / b if b != 0 else None
    if c[0] == "un" and c[1] == "-":
        a = evaluate(c[2], env)
        return -a if a is not None else None
    if c[0] == "call" and c[1] in ("max", "min") and len(c) >= 5:
        vs = [evaluate(a, env) for a in c[3:]]
        if any(v is None for v in vs):
            return None
        return max(vs) if c[1] == "max" else min(vs)
    if c[0] == "cond":
        t = eval_cond(c[1], env)
        if t is None:
            return None
        return evaluate(c[2] if t else c[3], env)
    return env.get(c)


def eval_cond(c, env):
    if c[0] == "un" and c[1] == "!":
        t = eval_cond(c[2], env)
        return None if t is None else not t
    if c[0] == "bin" and c[1] in ("&&", "||"):
        a, b = eval_cond(c[2], env), eval_cond(c[3], env)
        if a is None or b is None:
            return None
        return (a and b) if c[1] == "&&" else (a or b)
    if c[0] == "bin" and c[1] in REL:
        a, b = evaluate(c[2], env), evaluate(c[3], env)
        if a is None or b is None:
            return None
        return holds(c[1], a, b)
    return None


def find_cond(c):
    """First ?: subterm inside an arithmetic term."""
    if not isinstance(c, tuple) or not c:
        return None
    if c[0] == "cond":
        return c
    if is_arith(c) or (c[0] == "un" and c[1] == "-") or (c[0] == "call" and c[1] in ("max", "min")):
        for x in c[2:]:
            if isinstance(x, tuple):
                r = find_cond(x)
                if r is not None:
                    return r
    return None


def substitute(c, old, new):
    if c == old:
        return new
    if not isinstance(c, tuple):
        return c
    return tuple(substitute(x, old, new) if isinstance(x, tuple) else x for x in c)


def holds(rel, a, b):
    return {"<": a < b, "<=": a <= b, ">": a > b, ">=": a >= b, "==": a == b, "!=": a != b}[rel]


class Facts:
    """Ordering facts (a rel b) between canonical terms."""

    def __init__(self):
        self.facts = []          # (a, rel, b)
        self.hyp_lb = {}         # atom -> Fraction lower bound (hypotheses / inductive assumptions)
        self.conds = []          # (condition, value): compound conditions that cannot be split into atomic facts (a true
                                 # disjunction, a false conjunction); not used for proofs, but every counter-model must satisfy them

    def add_cond(self, cond, val):
        """Record a branch condition known to have truth value `val`."""
        if cond[0] == "un" and cond[1] == "!":
            return self.add_cond(cond[2], not val)
        if cond[0] == "bin" and cond[1] == "&&" and val:
            self.add_cond(cond[2], True)
            self.add_cond(cond[3], True)
            return
        if cond[0] == "bin" and cond[1] == "||" and not val:
            self.add_cond(cond[2], False)
            self.add_cond(cond[3], False)
            return
        if cond[0] == "bin" and cond[1] in REL:
            rel = cond[1] if val else NEG[cond[1]]
            self.facts.append((cond[2], rel, cond[3]))
            return
        if cond[0] == "bin" and cond[1] in ("&&", "||"):
            self.conds.append((cond, val))

    def add(self, a, rel, b):
        self.facts.append((a, rel, b))

    # ---- ordering closure ----
    def _succ(self, x):
        """Terms y with x >= y (strict flag) from the facts."""
        out = []
        for a, rel, b in self.facts:
            if rel in (">", ">=") and a == x:
                out.append((b, rel == ">"))
            elif rel in ("<", "<=") and b == x:
                out.append((a, rel == "<"))
            elif rel == "==":
                if a == x:
                    out.append((b, False))
                elif b == x:
                    out.append((a, False))
        return out

    def derives(self, x, y, strict=False):
        """x >= y (or x > y when strict) follows from the facts by transitivity."""
        if x == y:
            return not strict
        seen = {(x, False)}
        stack = [(x, False)]
        while stack:
            t, st = stack.pop()
            for u, s2 in self._succ(t):
                st2 = st or s2
                if u == y and (st2 or not strict):
                    return True
                if (u, st2) not in seen:
                    seen.add((u, st2))
                    stack.append((u, st2))
        # literal bounds: x >= c1 and y is literal c2 <= c1
        vy = lit_value(y)
        if vy is not None:
            lb, st = self.const_lb(x)
            if lb is not None and (lb > vy or (lb == vy and (st or not strict))):
                return True
        return False

    def const_lb(self, x):
        """Best literal lower bound of atom x from the facts: (Fraction or None, strict)."""
        best, strict = None, False
        if x in self.hyp_lb:
            best, strict = Fraction(self.hyp_lb[x]), False
        seen = {x}
        stack = [(x, False)]
        while stack:
            t, st = stack.pop()
            for u, s2 in self._succ(t):
                v = lit_value(u)
                st2 = st or s2
                if v is not None:
                    if best is None or v > best or (v == best and st2 and not strict):
                        best, strict = v, st2
                elif u not in seen:
                    seen.add(u)
                    stack.append((u, st2))
        # x != 0 together with the non-negativity of the domain gives x > 0
        for a, rel, b in self.facts:
            if rel == "!=" and ((a == x and lit_value(b) == 0) or (b == x and lit_value(a) == 0)):
                if best is None or best < 0 or (best == 0 and not strict):
                    best, strict = Fraction(0), True
        return best, strict


class Prover:
    def __init__(self, facts, orthant=True):
        self.f = facts
        self.orthant = orthant      # False: atoms may be negative (positions); only ordering facts and min/max structure are used
        self.log = []

    # ---- polynomials: {tuple(sorted atom keys)} -> Fraction ----
    @staticmethod
    def _padd(p, q, k=1):
        r = dict(p)
        for m, c in q.items():
            r[m] = r.get(m, 0) + k * c
            if r[m] == 0:
                del r[m]
        return r

    @staticmethod
    def _pmul(p, q):
        r = {}
        for m1, c1 in p.items():
            for m2, c2 in q.items():
                m = tuple(sorted(m1 + m2, key=repr))
                r[m] = r.get(m, 0) + c1 * c2
                if r[m] == 0:
                    del r[m]
        return r

    def positive(self, c):
        """c > 0 provable."""
        v = lit_value(c)
        if v is not None:
            return v > 0
        if is_arith(c):
            if c[1] == "*" or c[1] == "/":
                return self.positive(c[2]) and self.positive(c[3])
            if c[1] == "+":
                return (self.positive(c[2]) and self.nonneg(c[3])) or (self.nonneg(c[2]) and self.positive(c[3]))
            if c[1] == "-":
                return self.f.derives(c[2], c[3], strict=True)
        if c[0] == "call" and c[1] == "max" and len(c) >= 5:
            return any(self.positive(a) for a in c[3:])
        if c[0] == "call" and c[1] == "min" and len(c) >= 5:
            return all(self.positive(a) for a in c[3:])
        lb, st = self.f.const_lb(c)
        return lb is not None and (lb > 0 or (lb == 0 and st))

    def nonneg(self, c):
        v = lit_value(c)
        if v is not None:
            return v >= 0
        if is_arith(c) and c[1] == "-":
            return self.f.derives(c[2], c[3]) or self.prove_ge(c[2], c[3])
        if is_arith(c):
            return self.nonneg(c[2]) and (self.nonneg(c[3]) if c[1] != "/" else self.positive(c[3]))
        if c[0] == "un" and c[1] == "-":
            return False
        return True       # positive-orthant domain

    def lower_const(self, c):
        """A literal lower bound (Fraction) of term c in the domain, 0 by default for atoms."""
        v = lit_value(c)
        if v is not None:
            return v
        if is_arith(c) and c[1] == "/":
            if self.positive(c[3]) and self.nonneg(c[2]):
                if self.f.derives(c[2], c[3]) or self.prove_ge(c[2], c[3]):
                    return Fraction(1)
                return Fraction(0)
            return None
        if c[0] == "call" and c[1] in ("max", "min") and len(c) >= 5:
            ls = [self.lower_const(a) for a in c[3:]]
            if c[1] == "max":
                ls = [l for l in ls if l is not None]
                return max(ls) if ls else None
            return None if any(l is None for l in ls) else min(ls)
        if is_arith(c):
            a, b = self.lower_const(c[2]), self.lower_const(c[3])
            if c[1] == "+" and a is not None and b is not None:
                return a + b
            if c[1] == "*" and a is not None and b is not None and a >= 0 and b >= 0:
                return a * b
            if c[1] == "-" and (self.f.derives(c[2], c[3])):
                return Fraction(0)
            return None
        lb, _st = self.f.const_lb(c)
        if lb is None or lb < 0:
            return Fraction(0)
        return lb

    def poly(self, c, depth=0):
        """Polynomial of term c over non-negative atoms, or None."""
        if depth > 40:
            return None
        v = lit_value(c)
        if v is not None:
            return {(): v} if v != 0 else {}
        if is_arith(c) and c[1] in ("+", "*"):
            a, b = self.poly(c[2], depth + 1), self.poly(c[3], depth + 1)
            if a is None or b is None:
                return None
            return self._padd(a, b) if c[1] == "+" else self._pmul(a, b)
        if is_arith(c) and c[1] == "-":
            if c[2] != c[3] and self.f.derives(c[2], c[3]) and lit_value(c[3]) is None:
                return {(("diff", c[2], c[3]),): Fraction(1)}
            a, b = self.poly(c[2], depth + 1), self.poly(c[3], depth + 1)
            if a is None or b is None:
                return None
            return self._padd(a, b, -1)
        if c[0] == "un" and c[1] == "-":
            a = self.poly(c[2], depth + 1)
            return None if a is None else self._padd({}, a, -1)
        if (is_arith(c) and c[1] == "/") or (c[0] == "call" and c[1] in ("max", "min") and len(c) >= 5):
            lb = self.lower_const(c)
            if lb is None:
                return None
            p = {(("slack", c),): Fraction(1)}
            return self._padd(p, {(): lb}) if lb != 0 else p
        lb, _st = self.f.const_lb(c)
        p = {(("slack", c),): Fraction(1)} if lb is not None and lb > 0 else {((c),): Fraction(1)}
        if lb is not None and lb > 0:
            p = self._padd(p, {(): lb})
        return p

    def prove_ge(self, a, b):
        if a == b:
            return True
        cd = find_cond(a) or find_cond(b)
        if cd is not None:
            # case split on the ?: condition
            for val, arm in ((True, cd[2]), (False, cd[3])):
                f2 = Facts()
                f2.facts = list(self.f.facts)
                f2.hyp_lb = dict(self.f.hyp_lb)
                f2.add_cond(cd[1], val)
                if not Prover(f2, self.orthant).prove_ge(substitute(a, cd, arm), substitute(b, cd, arm)):
                    return False
            return True
        # min / max structure
        if a[0] == "call" and a[1] == "min" and len(a) >= 5:
            return all(self.prove_ge(x, b) for x in a[3:])
        if b[0] == "call" and b[1] == "max" and len(b) >= 5:
            return all(self.prove_ge(a, y) for y in b[3:])
        if a[0] == "call" and a[1] == "max" and len(a) >= 5 and any(self.prove_ge(x, b) for x in a[3:]):
            return True
        if b[0] == "call" and b[1] == "min" and len(b) >= 5 and any(self.prove_ge(a, y) for y in b[3:]):
            return True
        if self.f.derives(a, b):
            return True
        if not self.orthant:
            return False
        pa, pb = self.poly(a), self.poly(b)
        if pa is None or pb is None:
            return False
        d = self._padd(pa, pb, -1)
        return all(c >= 0 for c in d.values())

    # ---- counter-models ----
    def countermodel(self, a, b, extra_terms=(), tries=40000, seed=12345):
        """Positive assignment to the leaf atoms satisfying all facts / hypotheses with a < b. Returns dict or None."""
        terms = [a, b] + list(extra_terms)
        for x, _r, y in self.f.facts:
            terms += [x, y]
        atoms = []
        for t in terms:
            leaves(t, atoms)
        for cnd, _v in self.f.conds:
            cond_leaves(cnd, atoms)
        rnd = random.Random(seed)
        for _ in range(tries):
            env = {}
            for at in atoms:
                lb = self.f.hyp_lb.get(at)
                mode = rnd.random()
                if mode < 0.3:
                    v = float(rnd.randint(0, 6))
                else:
                    v = 10 ** rnd.uniform(-2, 2)
                if not self.orthant and rnd.random() < 0.5:
                    v = -v
                if lb is not None:
                    v = float(lb) + (0.0 if rnd.random() < 0.4 else v)
                env[at] = v
            ok = True
            for x, rel, y in self.f.facts:
                vx, vy = evaluate(x, env), evaluate(y, env)
                if vx is None or vy is None or not holds(rel, vx, vy):
                    ok = False
                    break
            if ok:
                for cnd, val in self.f.conds:
                    if eval_cond(cnd, env) is not val:
                        ok = False          # violated, or not evaluable: the model does not describe a path that reaches the site
                        break
            if not ok:
                continue
            va, vb = evaluate(a, env), evaluate(b, env)
            if va is None or vb is None:
                continue
            if va < vb - 1e-9 * max(1.0, abs(vb)):
                return {pretty(k): round(v, 4) for k, v in env.items()}, va, vb
        return None
