"""Lightweight qualifier systems over canonical expressions: geometry frame (RAW vs PLACED) and axis (X vs Y)."""
import re

from .model import walk, qt, loc_str
from .expr import canon, pretty, children, strip, callee_info, member_decl, subterms

CQC = "coloquinte::Circuit::"
RAW_FIELDS = {"cellWidth_", "cellHeight_", "pinXOffsets_", "pinYOffsets_"}
RAW_CALLS = {"cellWidth", "cellHeight"}
PLACED_FIELDS = {"cellX_", "cellY_"}
PLACED_CALLS = {"placedWidth", "placedHeight", "pinXOffset", "pinYOffset", "placement", "x", "y", "cellX", "cellY",
                "cellPlacement", "solution"}
FRAME_CONVERSIONS = {"Circuit::placedWidth": "defines placed width from raw sizes and the orientation",
                     "Circuit::placedHeight": "defines placed height from raw sizes and the orientation",
                     "Circuit::pinXOffset": "defines the placed pin offset from raw offsets, placed width and the orientation",
                     "Circuit::pinYOffset": "defines the placed pin offset from raw offsets, placed height and the orientation",
                     "Circuit::Circuit": "constructor sizes every per-cell vector",
                     "Circuit::check": "compares vector lengths only"}


def frame_uses(func):
    """(raw uses, placed uses) of Circuit geometry inside func: lists of (name, node)."""
    raw, placed = [], []
    for x in walk(func.body):
        if x.get("kind") != "MemberExpr":
            continue
        d = member_decl(x)
        if d is None:
            continue
        q = d.get("_q", "")
        if not q.startswith(CQC):
            continue
        n = q[len(CQC):]
        if d.get("kind") == "FieldDecl":
            if n in RAW_FIELDS:
                raw.append((n, x))
            elif n in PLACED_FIELDS:
                placed.append((n, x))
        else:
            if n in RAW_CALLS:
                raw.append((n + "()", x))
            elif n in PLACED_CALLS:
                placed.append((n + "()", x))
    return raw, placed


def check_frame(ctx, rep, rid, funcs, why_scope):
    """No function in `funcs` combines raw (unrotated) cell geometry with placed geometry, except the
    conversion functions that define the mapping."""
    n = 0
    for f in funcs:
        raw, placed = frame_uses(f)
        if not raw and not placed:
            continue
        n += 1
        if f.short in FRAME_CONVERSIONS:
            rep.holds(rid, f.decl, f, "%s uses both frames" % f.short, "listed: " + FRAME_CONVERSIONS[f.short])
            continue
        if raw and placed:
            node = raw[0][1]
            rep.violation(rid, node, f, "%s combines raw %s with placed %s" % (f.short, sorted({r for r, _ in raw}), sorted({p for p, _ in placed})),
                          "raw sizes/offsets are those of the unrotated cell; placed coordinates/sizes include the orientation: a turned or "
                          "mirrored cell gets the wrong footprint or pin position (%s)" % why_scope,
                          key="%s|mixes raw and placed geometry" % f.short)
        else:
            rep.holds(rid, f.decl, f, "%s uses only %s geometry" % (f.short, "raw" if raw else "placed"))
    return n


# ---- axis -------------------------------------------------------------------------------

_X = re.compile(r"(^x$|^x[A-Z_0-9]|X$|X_$|X[A-Z_]|[wW]idth|^w$|^[a-z]*X\d*$)")
_Y = re.compile(r"(^y$|^y[A-Z_0-9]|Y$|Y_$|Y[A-Z_]|[hH]eight|^h$|^[a-z]*Y\d*$)")
AXIS_FREE_CALLS = {"size", "norm", "area", "abs", "sqrt", "round", "nbBins", "toString"}


def name_axis(name):
    if not name:
        return None
    n = name.split("::")[-1]
    if n in ("xy", "max", "min", "index", "next", "proxy", "fixed", "box"):
        return None
    x, y = bool(_X.search(n)), bool(_Y.search(n))
    if x and not y:
        return "X"
    if y and not x:
        return "Y"
    return None


def axis_of(c):
    t = c[0]
    if t == "field":
        a = name_axis(c[1])
        return a
    if t == "var":
        return name_axis(c[2])
    if t == "index":
        return axis_of(c[1])
    if t == "elem":
        return None
    if t == "call":
        nm = c[1].split("::")[-1]
        if nm in AXIS_FREE_CALLS:
            if nm in ("abs", "round") and len(c) > 3:
                return axis_of(c[3])
            return None
        if nm in ("min", "max", "clamp"):
            axes = {axis_of(a) for a in c[3:]} - {None}
            return axes.pop() if len(axes) == 1 else None
        return name_axis(nm)
    if t == "bin":
        if c[1] in ("+", "-"):
            a, b = axis_of(c[2]), axis_of(c[3])
            if a == b:
                return a
            if a is None:
                return b
            if b is None:
                return a
            return None
        return None
    if t == "un":
        return axis_of(c[2])
    if t == "cond":
        a, b = axis_of(c[2]), axis_of(c[3])
        return a if a == b else None
    return None


def axis_conflicts(func):
    """Expressions in func that combine an X-typed and a Y-typed quantity where the geometry forbids it:
    subtraction, ordering/equality comparison, assignment, min/max/clamp."""
    out = []
    seen = set()
    for x in walk(func.body):
        k = x.get("kind")
        if k in ("BinaryOperator", "CompoundAssignOperator"):
            op = x.get("opcode")
            if op in ("-", "<", ">", "<=", ">=", "==", "!=", "=", "+=", "-="):
                l, r = children(x)
                a, b = axis_of(canon(l)), axis_of(canon(r))
                if a and b and a != b:
                    key = loc_str(x) + pretty(canon(x))[:40]
                    if key not in seen:
                        seen.add(key)
                        out.append((x, "%s %s %s" % (pretty(canon(l)), op, pretty(canon(r))), a, b))
        elif k == "CallExpr":
            ci = callee_info(x)
            if ci["name"] in ("min", "max", "clamp") and ci["external"]:
                axes = [(axis_of(canon(a)), a) for a in ci["args"]]
                have = {a for a, _n in axes if a}
                if len(have) > 1:
                    key = loc_str(x) + "mm"
                    if key not in seen:
                        seen.add(key)
                        out.append((x, pretty(canon(x)), "X", "Y"))
        elif k == "VarDecl" and children(x):
            a = name_axis(x.get("name"))
            b = axis_of(canon(children(x)[-1]))
            if a and b and a != b and qt(x) in ("int", "float", "double", "long long", "const int", "const float"):
                key = loc_str(x) + "vd"
                if key not in seen:
                    seen.add(key)
                    out.append((x, "%s = %s" % (x.get("name"), pretty(canon(children(x)[-1]))), a, b))
    return out
