"""MANIFEST.setup_cmd: validate the tool chain (nothing is fetched or built)."""
import shutil
import subprocess
import sys


def main():
    ok = True
    cl = shutil.which("clang++")
    if not cl:
        print("setup: clang++ not found")
        return 1
    v = subprocess.run([cl, "--version"], capture_output=True, text=True).stdout.splitlines()[0]
    print("setup:", v)
    src = "namespace coloquinte { struct A { int x; void f() { x = 1; } }; }\n"
    r = subprocess.run([cl, "-fsyntax-only", "-std=gnu++17", "-x", "c++", "-", "-Xclang", "-ast-dump=json",
                        "-Xclang", "-ast-dump-filter=coloquinte"], input=src, capture_output=True, text=True)
    if r.returncode != 0 or '"kind": "NamespaceDecl"' not in r.stdout:
        print("setup: filtered JSON AST dump does not work:", r.stderr[:500])
        ok = False
    else:
        print("setup: filtered JSON AST dump works")
    print("setup: python", sys.version.split()[0])
    return 0 if ok else 1


if __name__ == "__main__":
    sys.exit(main())
