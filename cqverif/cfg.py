"""Structured control-flow graph with branch edges as first-class nodes,
dominators and post-dominators (iterative algorithm)."""
from .model import inner, kind, loc_str, walk
from .expr import strip, children, is_noreturn_call, TRANSPARENT


class CNode:
    __slots__ = ("idx", "kind", "ast", "val", "succ", "pred", "from_assert", "note")

    def __init__(self, idx, kind_, ast=None, val=None):
        self.idx = idx
        self.kind = kind_      # entry exit raise abort stmt cond edge join
        self.ast = ast
        self.val = val
        self.succ = []
        self.pred = []
        self.from_assert = False
        self.note = None

    def __repr__(self):
        return "<%d %s %s %s>" % (self.idx, self.kind, (self.ast or {}).get("kind"), self.val)


class CFG:
    def __init__(self, func):
        self.func = func
        self.nodes = []
        self.ast2node = {}
        self.entry = self._new("entry")
        self.exit = self._new("exit")       # normal return
        self.raise_ = self._new("raise")    # throw
        self.abort = self._new("abort")     # noreturn call
        self._brk = []
        self._cont = []
        outs = [self.entry]
        for ci in getattr(func, "ctor_inits", []):
            n = self._new("stmt", ci)
            self._register(ci, n)
            self._link(outs, n)
            outs = [n]
        outs = self._stmt(func.body, outs)
        self._link(outs, self.exit)
        self._dom = None
        self._pdom = None

    # ---- construction -------------------------------------------------
    def _new(self, kind_, ast=None, val=None):
        n = CNode(len(self.nodes), kind_, ast, val)
        self.nodes.append(n)
        return n

    def _link(self, preds, n):
        for p in preds:
            if n not in p.succ:
                p.succ.append(n)
                n.pred.append(p)

    def _register(self, ast, node):
        self.ast2node[id(ast)] = node

    def _simple(self, ast, preds, kind_="stmt"):
        n = self._new(kind_, ast)
        self._register(ast, n)
        self._link(preds, n)
        return n

    def _cond(self, e, preds):
        """Build the evaluation of a condition. Returns (true_outs, false_outs)."""
        s = e
        while isinstance(s, dict) and s.get("kind") in TRANSPARENT and children(s):
            s = children(s)[0]
        k = s.get("kind")
        if k == "BinaryOperator" and s.get("opcode") in ("&&", "||"):
            l, r = children(s)
            t1, f1 = self._cond(l, preds)
            if s["opcode"] == "&&":
                t2, f2 = self._cond(r, t1)
                return t2, f1 + f2
            t2, f2 = self._cond(r, f1)
            return t1 + t2, f2
        if k == "UnaryOperator" and s.get("opcode") == "!":
            t, f = self._cond(children(s)[0], preds)
            return f, t
        n = self._simple(e, preds, "cond")
        if s is not e:
            self._register(s, n)
        et = self._new("edge", s, True)
        ef = self._new("edge", s, False)
        self._link([n], et)
        self._link([n], ef)
        return [et], [ef]

    def _expr_stmt(self, e, preds):
        """An expression evaluated as a statement (handles assert-style ?: and
        noreturn calls)."""
        s = strip(e)
        if kind(s) == "ConditionalOperator":
            c, a, b = children(s)
            t, f = self._cond(c, preds)
            is_assert = is_noreturn_call(b) or is_noreturn_call(a)
            if is_assert:
                for x in t + f:
                    x.from_assert = True
            oa = self._expr_stmt(a, t)
            ob = self._expr_stmt(b, f)
            return oa + ob
        n = self._simple(e, preds)
        if kind(s) == "CXXThrowExpr":
            self._link([n], self.raise_)
            return []
        if is_noreturn_call(s):
            self._link([n], self.abort)
            return []
        return [n]

    def _stmt(self, s, preds):
        if not isinstance(s, dict) or not s.get("kind"):
            return preds
        k = s.get("kind")
        ch = list(inner(s))
        if k == "CompoundStmt":
            for c in ch:
                preds = self._stmt(c, preds)
            return preds
        if k == "IfStmt":
            i = 0
            if s.get("hasInit"):
                preds = self._stmt(ch[i], preds)
                i += 1
            if s.get("hasVar"):
                preds = self._stmt(ch[i], preds)
                i += 1
            cond = ch[i]
            then = ch[i + 1] if len(ch) > i + 1 else None
            els = ch[i + 2] if len(ch) > i + 2 else None
            t, f = self._cond(cond, preds)
            ot = self._stmt(then, t)
            of = self._stmt(els, f) if els else f
            return ot + of
        if k == "WhileStmt":
            cond = ch[-2]
            body = ch[-1]
            head = self._new("join", s)
            self._link(preds, head)
            t, f = self._cond(cond, [head])
            self._brk.append([])
            self._cont.append([])
            ob = self._stmt(body, t)
            self._link(ob + self._cont.pop(), head)
            return f + self._brk.pop()
        if k == "DoStmt":
            body, cond = ch[0], ch[1]
            head = self._new("join", s)
            self._link(preds, head)
            self._brk.append([])
            self._cont.append([])
            ob = self._stmt(body, [head])
            t, f = self._cond(cond, ob + self._cont.pop())
            self._link(t, head)
            return f + self._brk.pop()
        if k == "ForStmt":
            init, condvar, cond, inc, body = (ch + [None] * 5)[:5]
            preds = self._stmt(init, preds)
            head = self._new("join", s)
            self._link(preds, head)
            if cond and cond.get("kind"):
                t, f = self._cond(cond, [head])
            else:
                t, f = [head], []
            self._brk.append([])
            self._cont.append([])
            ob = self._stmt(body, t)
            ob = ob + self._cont.pop()
            if inc and inc.get("kind"):
                ob = self._expr_stmt(inc, ob)
            self._link(ob, head)
            return f + self._brk.pop()
        if k == "CXXForRangeStmt":
            init, rng, beg, end, cond, inc, var, body = (ch + [None] * 8)[:8]
            preds = self._stmt(init, preds)
            rn = self._simple(s, preds, "stmt")      # evaluation of the range expression
            for d in (rng, beg, end):
                if d:
                    self._register(d, rn)
            head = self._new("join", s)
            self._link([rn], head)
            cn = self._new("cond", cond or s)
            if cond:
                self._register(cond, cn)
            self._link([head], cn)
            et = self._new("edge", s, "iter")
            ef = self._new("edge", s, "done")
            self._link([cn], et)
            self._link([cn], ef)
            vn = self._simple(var, [et]) if var else et
            self._brk.append([])
            self._cont.append([])
            ob = self._stmt(body, [vn])
            ob = ob + self._cont.pop()
            if inc:
                incn = self._simple(inc, ob)
                ob = [incn]
            self._link(ob, head)
            return [ef] + self._brk.pop()
        if k == "SwitchStmt":
            i = 0
            if s.get("hasInit"):
                preds = self._stmt(ch[i], preds)
                i += 1
            if s.get("hasVar"):
                preds = self._stmt(ch[i], preds)
                i += 1
            cond, body = ch[i], ch[i + 1]
            cn = self._simple(cond, preds, "cond")
            self._brk.append([])
            self._sw = getattr(self, "_sw", [])
            self._sw.append({"cond": cn, "default": False, "ast": strip(cond)})
            outs = self._stmt(body, [])
            sw = self._sw.pop()
            if not sw["default"]:
                e = self._new("edge", sw["ast"], ("nodefault",))
                self._link([cn], e)
                outs = outs + [e]
            return outs + self._brk.pop()
        if k in ("CaseStmt", "DefaultStmt"):
            sw = self._sw[-1]
            if k == "CaseStmt":
                val = ch[0]
                sub = ch[-1]
                e = self._new("edge", sw["ast"], ("case", val))
            else:
                sub = ch[-1]
                sw["default"] = True
                e = self._new("edge", sw["ast"], ("default",))
            self._link([sw["cond"]], e)
            j = self._new("join", s)
            self._link(preds + [e], j)
            return self._stmt(sub, [j])
        if k == "BreakStmt":
            n = self._simple(s, preds)
            self._brk[-1].append(n)
            return []
        if k == "ContinueStmt":
            n = self._simple(s, preds)
            self._cont[-1].append(n)
            return []
        if k == "ReturnStmt":
            n = self._simple(s, preds)
            self._link([n], self.exit)
            return []
        if k == "CXXTryStmt":
            first = len(self.nodes)
            outs = self._stmt(ch[0], preds)
            body_nodes = self.nodes[first:]
            for h in ch[1:]:
                hn = self._simple(h, preds + [n for n in body_nodes if n.kind in ("stmt", "cond")], "stmt")
                hn.note = "catch"
                hb = [c for c in inner(h) if kind(c) == "CompoundStmt"]
                outs = outs + self._stmt(hb[0] if hb else None, [hn])
            return outs
        if k == "DeclStmt":
            n = self._simple(s, preds)
            return [n]
        if k == "NullStmt":
            return preds
        if k in ("LabelStmt", "AttributedStmt"):
            return self._stmt(ch[-1], preds)
        if k == "GotoStmt":
            raise ValueError("goto is not modelled")
        # expression statement
        return self._expr_stmt(s, preds)

    # ---- queries ------------------------------------------------------
    def node_for(self, ast):
        """CFG node that evaluates the given AST node (nearest registered ancestor)."""
        x = ast
        while x is not None:
            n = self.ast2node.get(id(x))
            if n is not None:
                return n
            if x is self.func.body or x is self.func.decl:
                return None
            x = x.get("_p")
        return None

    def _compute_dom(self, entry, succ_attr, pred_attr):
        # reverse postorder from entry
        order, seen = [], set()
        stack = [(entry, iter(getattr(entry, succ_attr)))]
        seen.add(entry.idx)
        while stack:
            n, it = stack[-1]
            adv = False
            for m in it:
                if m.idx not in seen:
                    seen.add(m.idx)
                    stack.append((m, iter(getattr(m, succ_attr))))
                    adv = True
                    break
            if not adv:
                order.append(n)
                stack.pop()
        order.reverse()
        rpo = {n.idx: i for i, n in enumerate(order)}
        idom = {entry.idx: entry.idx}
        changed = True

        def intersect(a, b):
            while a != b:
                while rpo[a] > rpo[b]:
                    a = idom[a]
                while rpo[b] > rpo[a]:
                    b = idom[b]
            return a

        while changed:
            changed = False
            for n in order[1:]:
                new = None
                for p in getattr(n, pred_attr):
                    if p.idx in idom:
                        new = p.idx if new is None else intersect(p.idx, new)
                if new is not None and idom.get(n.idx) != new:
                    idom[n.idx] = new
                    changed = True
        return idom

    @property
    def dom(self):
        if self._dom is None:
            self._dom = self._compute_dom(self.entry, "succ", "pred")
        return self._dom

    @property
    def pdom(self):
        """Post-dominators with respect to the *normal* exit."""
        if self._pdom is None:
            self._pdom = self._compute_dom(self.exit, "pred", "succ")
        return self._pdom

    def dominators(self, n):
        """Strict dominators of n, nearest first."""
        out = []
        d = self.dom
        i = n.idx
        if i not in d:
            return out
        while d[i] != i:
            i = d[i]
            out.append(self.nodes[i])
        return out

    def dominates(self, a, b):
        return a is b or a in self.dominators(b)

    def postdominators(self, n):
        out = []
        d = self.pdom
        i = n.idx
        if i not in d:
            return None   # cannot reach the normal exit
        while d[i] != i:
            i = d[i]
            out.append(self.nodes[i])
        return out

    def postdominates(self, a, b):
        """a post-dominates b on paths to the normal exit (vacuously true when b
        cannot reach the normal exit)."""
        pd = self.postdominators(b)
        if pd is None:
            return True
        return a is b or a in pd

    def dom_edges(self, n, asserts=False):
        """Branch edges that dominate node n: list of (cond_ast, value, edge_node)."""
        out = []
        for d in ([n] if n.kind == "edge" else []) + self.dominators(n):
            if d.kind == "edge" and (asserts or not d.from_assert):
                out.append((d.ast, d.val, d))
        return out

    def reachable_from(self, srcs, avoid=()):
        avoid = {a.idx for a in avoid}
        seen = set()
        stack = [s for s in srcs if s.idx not in avoid]
        for s in stack:
            seen.add(s.idx)
        while stack:
            n = stack.pop()
            for m in n.succ:
                if m.idx not in seen and m.idx not in avoid:
                    seen.add(m.idx)
                    stack.append(m)
        return seen

    def can_reach(self, a, b, avoid=()):
        if a is b:
            return True
        return b.idx in self.reachable_from(a.succ, avoid)

    def stmt_nodes(self):
        return [n for n in self.nodes if n.kind in ("stmt", "cond")]


def cfg_of(func):
    if func._cfg is None:
        func._cfg = CFG(func)
    return func._cfg
