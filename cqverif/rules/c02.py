"""C02 — detailed placement keeps the placement legal at every exposed state (structural clauses).

W2   who may write the row-list state of DetailedPlacement
G3   place / insert / swap mutate only after their feasibility predicate said yes (throwing guard)
G4   only non-ignored cells that passed the three row-bound checks enter a row list
MV   optimiser moves are issued only for candidates whose evaluation reported feasibility
R1   the state shown to the user callback is exported first, and the export writes back every cell
SH   cells are optimised as single-row cells exactly when their placed height equals the row height
QF   the detailed-placement model is built from placed geometry only (no raw sizes next to placed coordinates)
SO   obstacle lists given to computeRows never contain a fixed cell (fixed obstructions are already removed; fixed
     non-obstructions must not be removed)
SA   admission predicates honour row polarity (shared with C04)
"""
from ..frontend import AnalysisBroken
from ..model import qt, loc_str, walk, inner
from ..expr import canon, pretty, children, strip, callee_info, subterms
from ..cfg import cfg_of
from ..qual import check_frame
from .common import CQ, short, is_fixed_test, field_writes, calls_to, binding_source, expand_locals
from . import c04

EXPLANATION = (
    "Static check on the clang-resolved AST of the detailed placer. W2: cellPred_/cellNext_/cellRow_/rowFirstCell_/rowLastCell_/"
    "cellY_ are written only by the constructor, place and unplace (cellX_ additionally by DetailedPlacer::runShiftsOnCells, the "
    "LP write-back). G3: every member write of place() is dominated by canPlace(...) == true, the unplace/place pair of insert() "
    "by canInsert, that of swap() by canSwap. G4: the push of a cell into a row list in the constructor is dominated by "
    "!isIgnored(i) and by the three row-bound checks that throw. MV: doSwap/doInsert are called only from the best* searches, under "
    "a witness set only when valueOnSwap/valueOnInsert reported feasible. R1: in DetailedPlacer::callback exportPlacement "
    "dominates the invocation of the user callback. QF/SO: both fromIspdCircuit builders use placed geometry only and never add a "
    "fixed cell to the obstacle list. SA: see C04.")

DECLINED = ["that the min-cost-flow dual of runShiftsOnCells yields non-overlapping positions (LP semantics)",
            "legality over exhaustive move sequences (arithmetic of positionsOnSwap / positionOnInsert)"]

LIST_FIELDS = ["cellPred_", "cellNext_", "cellRow_", "rowFirstCell_", "rowLastCell_", "cellY_", "cellX_", "cellOrientation_"]
BASE_WRITERS = {"DetailedPlacement::DetailedPlacement": "constructor", "DetailedPlacement::place": "validated primitive",
                "DetailedPlacement::unplace": "validated primitive"}
EXTRA_WRITERS = {"cellX_": {"DetailedPlacer::runShiftsOnCells": "write-back of the shift LP's dual values (positions inside the fixed order)"},
                 "cellOrientation_": {}, "cellY_": {}}


def check_export_before_callback(ctx, rep, rid, classes):
    """Every invocation of the user's placement callback (operator() on the std::function held in an optional) inside the given
    placer classes is dominated, in its function, by a call that exports the current placement to the circuit (a function named
    exportPlacement): the state a callback observes is the state the placer has reached."""
    prog = ctx.prog
    n = 0
    for f in prog.all_funcs(with_lambdas=False):
        if f.body is None or f.cls not in classes:
            continue
        g = cfg_of(f)
        user = [x for x in walk(f.body) if x.get("kind") == "CXXOperatorCallExpr" and callee_info(x)["name"] == "operator()" and
                "PlacementStep" in " ".join(qt(a) for a in callee_info(x)["args"])]
        if not user:
            continue
        exps = [x for x in walk(f.body) if x.get("kind") in ("CXXMemberCallExpr", "CallExpr") and callee_info(x)["name"] == "exportPlacement"]
        for u in user:
            n += 1
            un = g.node_for(u)
            if exps and any(g.dominates(g.node_for(e), un) and g.node_for(e) is not un for e in exps if g.node_for(e) is not None):
                rep.holds(rid, u, f, "%s: the placement is exported before the user callback runs" % f.short)
            else:
                rep.violation(rid, u, f, "%s: user callback runs before / without exporting the current placement" % f.short,
                              "the callback would observe the circuit as it was before this step", key="%s|no export before callback" % f.short)
    if n == 0:
        rep.unknown(rid, None, None, "user callback invocations", "none found in %s (shape changed)" % ", ".join(short(c) for c in classes))


def check_region_capacity(ctx, rep):
    """RW. In RowReordering::runRegionChoice the recursive evaluation of a candidate region is edge-dominated by the capacity test
    allocatedWidth(i) <= regions_[i].width() (or its mirrored / negated form), and the candidate cell has been pushed into the
    region's list *before* that test is evaluated - otherwise the test speaks about the region without the cell."""
    prog = ctx.prog
    f = prog.func1(CQ + "RowReordering::runRegionChoice")
    g = cfg_of(f)
    recs = [x for x in walk(f.body) if x.get("kind") == "CXXMemberCallExpr" and callee_info(x)["qname"] == f.qname]
    if not recs:
        rep.unknown("RW", f.decl, f, "region choice", "recursive evaluation not found (shape changed)")
        return
    pushes = [x for x in walk(f.body) if x.get("kind") == "CXXMemberCallExpr" and callee_info(x)["name"] in ("push_back", "emplace_back")
              and callee_info(x)["obj"] is not None and canon(callee_info(x)["obj"])[0] == "index" and canon(callee_info(x)["obj"])[1][0] == "field"]
    for x in recs:
        n = g.node_for(x)
        verdict = None
        for ast, val, en in g.dom_edges(n):
            if not isinstance(val, bool):
                continue
            c = expand_locals(ctx, f, canon(ast))
            if c[0] != "bin" or c[1] not in ("<=", "<", ">", ">="):
                continue
            sides = (c[2], c[3])
            aw = [t for t in sides if t[0] == "call" and str(t[1]).endswith("RowReordering::allocatedWidth")]
            rw = [t for t in sides if any(u[0] == "call" and str(u[1]).endswith("::width") for u in subterms(t))]
            if not aw or not rw:
                continue
            used_le_cap = (c[2] is aw[0] and ((c[1] == "<=" and val is True) or (c[1] == ">" and val is False))) or \
                          (c[3] is aw[0] and ((c[1] == ">=" and val is True) or (c[1] == "<" and val is False)))
            cn = g.node_for(ast)
            region_idx = aw[0][3] if len(aw[0]) > 3 else None
            pushed_before = any(g.dominates(g.node_for(p), cn) and g.node_for(p) is not cn and
                                (region_idx is None or canon(callee_info(p)["obj"])[2] == region_idx) for p in pushes if g.node_for(p) is not None and cn is not None)
            if used_le_cap and pushed_before:
                verdict = ("holds", "allocatedWidth(region) <= width(region) tested after the candidate was pushed into the region")
            elif used_le_cap:
                verdict = verdict or ("bad", "the capacity test is evaluated before the candidate is added to the region: it admits a region that the candidate overfills")
            else:
                verdict = verdict or ("bad", "the dominating capacity test is %s [%s]: it does not establish allocatedWidth <= width" % (pretty(c)[:70], val))
        if verdict is None:
            rep.violation("RW", x, f, "candidate region evaluated without a capacity test", "no dominating comparison of allocatedWidth(i) with the region's width",
                          key="RowReordering::runRegionChoice|no capacity test")
        elif verdict[0] == "holds":
            rep.holds("RW", x, f, "candidate region evaluated only when it has room", verdict[1])
        else:
            rep.violation("RW", x, f, "capacity test of the candidate region", verdict[1], key="RowReordering::runRegionChoice|capacity test before the push")


def _decl_type(fn, vid):
    d = fn.unit.by_id.get(vid)
    return qt(d) if d is not None else ""


def run(ctx, rep, tier):
    prog, eff = ctx.prog, ctx.eff
    rep.rule("W2", "who may write DetailedPlacement's row-list state", len(LIST_FIELDS))
    rep.rule("G3", "place/insert/swap mutate only after canPlace/canInsert/canSwap (throwing guard)", 3)
    rep.rule("G4", "constructor admits a cell to a row list only if not ignored and inside the row", 1)
    rep.rule("MV", "doSwap/doInsert only for candidates reported feasible", 3)
    rep.rule("R1", "exported state precedes the user callback and is complete", 2)
    rep.rule("SH", "single-row classification is an exact equality of placed height and row height", 2)
    rep.rule("QF", "detailed-placement model built from placed geometry only", 2)
    rep.rule("SO", "no fixed cell in the obstacle lists of the builders", 2)
    rep.rule("SC", "a position found in the sorted copy of the rows never subscripts the unsorted original", 1)
    rep.rule("RP", "reordering: every candidate ordering is packed from the start of its region", 1)
    rep.rule("LW", "the shift pass writes every solved position back", 1)
    rep.rule("BU", "backtracking searches of the detailed placer undo their state changes under the conditions they made them", 1)
    rep.rule("RW", "reordering: region capacity tested with the candidate included", 1)
    rep.rule("SA", "admission predicates honour row polarity", 5)
    # ---- W2 ----
    for fld in LIST_FIELDS:
        q = CQ + "DetailedPlacement::" + fld
        ok = dict(BASE_WRITERS)
        ok.update(EXTRA_WRITERS.get(fld, {}))
        from .common import check_writers
        check_writers(ctx, rep, "W2", q, ok, "DetailedPlacement::%s" % fld)
    # ---- G3 ----
    pl = prog.func1(CQ + "DetailedPlacement::place")
    s = eff.summary(pl)
    g = cfg_of(pl)
    bad = []
    n = 0
    for qf, lst in s["writes"].items():
        if not qf.startswith(CQ + "DetailedPlacement::"):
            continue
        for x, u in lst:
            n += 1
            guards = ctx.guards(pl, u.node) or []
            if not any(gc[0] == "call" and gc[1] == CQ + "DetailedPlacement::canPlace" and val is True for gc, val, _a, _b in guards):
                bad.append(u.node)
    if bad:
        rep.violation("G3", bad[0], pl, "place() mutates before / without canPlace", "%d of %d member writes not dominated by canPlace(...) == true" % (len(bad), n),
                      key="DetailedPlacement::place|write not under canPlace")
    else:
        rep.holds("G3", pl.decl, pl, "all %d member writes of place() dominated by canPlace(...) == true" % n)
    for q, pred in (("DetailedPlacement::insert", "canInsert"), ("DetailedPlacement::swap", "canSwap")):
        f = prog.func1(CQ + q)
        muts = calls_to(f, CQ + "DetailedPlacement::place") + calls_to(f, CQ + "DetailedPlacement::unplace")
        bad = []
        for x in muts:
            guards = ctx.guards(f, x) or []
            if not any(gc[0] == "call" and gc[1] == CQ + "DetailedPlacement::" + pred and val is True for gc, val, _a, _b in guards):
                bad.append(x)
        if not muts:
            rep.unknown("G3", f.decl, f, q, "no place/unplace call found")
        elif bad:
            rep.violation("G3", bad[0], f, "%s mutates without %s" % (q, pred), "", key="%s|mutation not under %s" % (f.short, pred))
        else:
            rep.holds("G3", f.decl, f, "%d place/unplace call(s) of %s dominated by %s(...) == true" % (len(muts), q.split("::")[-1], pred))
    # ---- G4 ----
    ctor = [f for f in prog.func(CQ + "DetailedPlacement::DetailedPlacement") if len(f.params) >= 6]
    if len(ctor) != 1:
        raise AnalysisBroken("DetailedPlacement constructor not found")
    ctor = ctor[0]
    # the per-row lists are local vectors of vectors of int, filled by push_back(cell) under the admission checks; the filling may
    # sit in the constructor or in a private helper it calls
    scope = [ctor] + [h for _c, h in ctx.eff.callees(ctor) if h.cls == ctor.cls and h.body is not None and h.key != ctor.key]
    pushes = []
    for fn in scope:
        for x in walk(fn.body):
            if x.get("kind") == "CXXMemberCallExpr" and callee_info(x)["name"] in ("push_back", "emplace_back"):
                oc_ = canon(callee_info(x)["obj"])
                if oc_[0] == "index" and oc_[1][0] == "var" and "vector<std::vector<int" in qt(callee_info(x)["obj"].get("_p") or {}) + " " + _decl_type(fn, oc_[1][1]):
                    pushes.append((fn, x))
    if not pushes:
        rep.unknown("G4", ctor.decl, ctor, "row list construction", "push into the per-row cell lists not found")
    for owner, x in pushes:
        ctor_, ctor = ctor, owner
        guards = ctx.guards(ctor, x) or []
        txt = [(pretty(gc), val) for gc, val, _a, _b in guards]
        # the row index may come from a helper that returns only after the same throwing checks: add the guards that dominate
        # every return of that helper
        oc = canon(callee_info(x)["obj"])
        if oc[0] == "index" and oc[2][0] == "var":
            d = ctor.unit.by_id.get(oc[2][1])
            init = children(d) if d is not None and d.get("kind") == "VarDecl" else []
            if init and strip(init[-1]).get("kind") in ("CXXMemberCallExpr", "CallExpr"):
                _c, hs = ctx.eff.resolve_callee(strip(init[-1]))
                for h in hs:
                    if h.body is None:
                        continue
                    from ..model import walk_no_lambda
                    rets = [y for y in walk_no_lambda(h.body) if y.get("kind") == "ReturnStmt"]
                    common = None
                    for r in rets:
                        gs = {(pretty(gc), val) for gc, val, _a, _b in (ctx.guards(h, r) or [])}
                        common = gs if common is None else (common & gs)
                    txt += sorted(common or [])
        ign = any("isIgnored" in t and v is False for t, v in txt)
        bounds = sum(1 for t, v in txt if v is False and ("minY" in t or "minX" in t or "maxX" in t))
        first = any("begin" in t and v is False for t, v in txt)
        if ign and bounds >= 3 and first:
            rep.holds("G4", x, ctor, "cell enters a row list only if not ignored and inside the row found for it")
        else:
            rep.violation("G4", x, ctor, "cell admitted to a row list without all checks",
                          "not-ignored: %s, row found: %s, bound checks: %d/3" % (ign, first, bounds), key="DetailedPlacement::DetailedPlacement|row admission")
        ctor = ctor_
    # ---- SC: positions found in the sorted copy of the rows are not used on the unsorted argument
    from .common import check_sorted_copy_index
    nsc = check_sorted_copy_index(ctx, rep, "SC", [f_ for f_ in prog.funcs.values() if f_.cls in (CQ + "DetailedPlacement", CQ + "LegalizerBase")])
    if nsc == 0:
        rep.unknown("SC", None, None, "sorted copies of the row list", "none found in DetailedPlacement / LegalizerBase (shape changed)")
    # ---- RW: the capacity of a reordering region is tested with the candidate already in it
    _sh = prog.func(CQ + "DetailedPlacer::runShiftsOnCells", required=False) or []
    _n_lw = 0
    for f_ in _sh:
        if f_.body is None or not f_.params:
            continue
        pc_ = ("var", f_.params[0].get("id"), f_.params[0].get("name"))
        for l_ in [y_ for y_ in walk(f_.body) if y_.get("kind") == "CXXForRangeStmt"]:
            ch_ = [c_ for c_ in inner(l_) if isinstance(c_, dict)]
            var_ = inner(ch_[6])[0] if len(ch_) > 6 and inner(ch_[6]) else None
            if var_ is None or var_.get("_rangevar") is None or canon(var_["_rangevar"]) != pc_:
                continue
            body_ = ch_[-1]
            writes_ = [y_ for y_ in walk(body_) if y_.get("kind") == "BinaryOperator" and y_.get("opcode") == "=" and
                       canon(children(y_)[0])[0] == "index" and str(canon(children(y_)[0])[1][1] if canon(children(y_)[0])[1][0] == "field" else "").endswith("::cellX_")]
            if not writes_:
                continue
            _n_lw += 1
            skip_ = next((y_ for y_ in walk(body_) if y_.get("kind") in ("ContinueStmt", "BreakStmt", "IfStmt", "ConditionalOperator")), None)
            if skip_ is None:
                rep.holds("LW", l_, f_, "runShiftsOnCells writes the solved position of every cell of the sub-problem back (no skip)")
            else:
                rep.violation("LW", skip_, f_, "runShiftsOnCells writes the solved positions back under a condition (%s)" % skip_.get("kind"),
                              "the positions are one solution of one linear program: a cell that keeps its old position while its neighbours take the new ones "
                              "can end up overlapping them or out of order", key="DetailedPlacer::runShiftsOnCells|partial write-back")
    if _n_lw == 0:
        rep.unknown("LW", None, None, "DetailedPlacer::runShiftsOnCells", "write-back loop over the cells not found (shape changed)")
    from .common import check_balanced_undo
    fs_ = [f_ for f_ in prog.funcs.values() if f_.body is not None and f_.unit.name.endswith("place_detailed.cpp")]
    if check_balanced_undo(ctx, rep, "BU", fs_) == 0:
        rep.unknown("BU", None, None, "recursive searches in place_detailed.cpp", "no do/undo pair found (shape changed)")
    check_region_capacity(ctx, rep)
    from .common import check_restart_per_iteration
    if check_restart_per_iteration(ctx, rep, "RP", [f_ for f_ in prog.funcs.values() if f_.cls == CQ + "RowReordering"]) == 0:
        rep.unknown("RP", None, None, "packing position of RowReordering", "no running position advanced and used by an inner loop was found (shape changed)")
    # ---- MV ----
    for q, cal, val_q in (("DetailedPlacer::doSwap", "valueOnSwap", CQ + "DetailedPlacer::valueOnSwap"),
                          ("DetailedPlacer::doInsert", "valueOnInsert", CQ + "DetailedPlacer::valueOnInsert")):
        sites = []
        for f in prog.funcs.values():
            for x in calls_to(f, CQ + q):
                sites.append((f, x))
        allowed = {"DetailedPlacer::bestSwap", "DetailedPlacer::bestInsert", "DetailedPlacer::bestSwapUpdate"}
        for f, x in sites:
            if f.short not in allowed:
                rep.violation("MV", x, f, "%s called from %s" % (q, f.short), "moves must come from the evaluated searches %s" % sorted(allowed),
                              key="%s|calls %s" % (f.short, q.split("::")[-1]))
                continue
            ok, why = move_under_feasible_witness(ctx, f, x, val_q)
            if ok:
                rep.holds("MV", x, f, "%s in %s" % (q.split("::")[-1], f.short), why)
            elif ok is None:
                rep.unknown("MV", x, f, "%s in %s" % (q.split("::")[-1], f.short), why)
            else:
                rep.violation("MV", x, f, "%s in %s" % (q.split("::")[-1], f.short), why, key="%s|move without feasibility witness" % f.short)
    # ---- R1 ----
    check_export_before_callback(ctx, rep, "R1", (CQ + "DetailedPlacer",))
    # ---- R1b: the exported state is complete ----
    from .common import for_loop_info, loop_has_early_exit
    for f in prog.funcs.values():
        if f.cls not in (CQ + "DetailedPlacer", CQ + "DetailedPlacement"):
            continue
        ws = eff.summary(f)["writes"].get(CQ + "Circuit::cellX_", [])
        for x, u in ws:
            lp = u.node
            while lp is not None and lp.get("kind") not in ("ForStmt", "CXXForRangeStmt", "WhileStmt", "DoStmt"):
                lp = lp.get("_p")
            li = for_loop_info(lp) if lp is not None and lp.get("kind") == "ForStmt" else None
            full = li is not None and li["lo"] == ("lit", "0") and li["step"] == 1 and li["hi"] is not None and li["hi"][0] == "call" and \
                li["hi"][1].endswith("::nbCells") and loop_has_early_exit(li["body"]) is None
            if full:
                rep.holds("R1", u.node, f, "%s writes back every cell of the model (full-range loop)" % f.short)
            else:
                rep.violation("R1", u.node, f, "%s does not write back every cell" % f.short,
                              "the state exposed to the callback / returned can mix stale and current positions (overlaps, though the internal state is legal)",
                              key="%s|partial export" % f.short)
    # ---- SH: single-row classification is an exact height equality ----
    for f in list(prog.func(CQ + "DetailedPlacement::fromIspdCircuit")):
        pushes = [x for x in walk(f.body) if x.get("kind") == "CXXMemberCallExpr" and callee_info(x)["name"] in ("push_back", "emplace_back")
                  and "Rectangle" in qt(callee_info(x)["obj"])]
        decided = None
        for x in pushes:
            for gc, val, ast, _b in (ctx.guards(f, x) or []):
                ge = expand_locals(ctx, f, gc)
                t = pretty(ge)
                if "placedHeight" not in t and "cellHeight" not in t:
                    continue
                if ge[0] == "bin" and ge[1] in ("!=", "==") and {ge[2][0], ge[3][0]} <= {"call", "var", "field", "index"} and "/" not in t:
                    if decided is None:
                        decided = ("ok", x, t)
                else:
                    decided = ("bad", x, t)
        if decided is None:
            rep.unknown("SH", f.decl, f, "multi-row classification", "no height test guards the obstacle list")
        elif decided[0] == "ok":
            rep.holds("SH", decided[1], f, "cells are ignored (and turned into obstacles) exactly when placedHeight != rowHeight (%s)" % decided[2][:50])
        else:
            rep.violation("SH", decided[1], f, "multi-row cells classified by `%s`" % decided[2][:70],
                          "the legalizer treats a cell as single-row only when its height equals the row height; any other test (e.g. a truncating "
                          "division) lets a taller cell into the row lists", key="%s|height classification" % f.short)
    # ---- QF / SO ----
    builders = list(prog.func(CQ + "DetailedPlacement::fromIspdCircuit"))
    check_frame(ctx, rep, "QF", builders, "the row lists would be built for the wrong footprint and placeDetailed rejects or corrupts a legal placement")
    for f in builders:
        pushes = [x for x in walk(f.body) if x.get("kind") == "CXXMemberCallExpr" and callee_info(x)["name"] in ("push_back", "emplace_back")
                  and canon(callee_info(x)["obj"])[0] == "var" and canon(callee_info(x)["obj"])[2] == "obstacles"]
        if not pushes:
            rep.unknown("SO", f.decl, f, "obstacle list", "no push into `obstacles`")
            continue
        bad = []
        for x in pushes:
            guards = ctx.guards(f, x) or []
            if not any(is_fixed_test(gc) and val is False for gc, val, _a, _b in guards):
                bad.append(x)
        if bad:
            rep.violation("SO", bad[0], f, "a fixed cell can be added to the obstacle list",
                          "fixed obstructions are already removed by computeRows; a fixed cell flagged as non-obstruction must not be removed: "
                          "placeDetailed would fail on a circuit legalization accepts", key="%s|fixed cell as obstacle" % f.short)
        else:
            rep.holds("SO", pushes[0], f, "%d obstacle push(es), all dominated by !isFixed(c)" % len(pushes))
    # ---- SA ----
    for q in ("DetailedPlacement::canPlace", "DetailedPlacement::canInsert", "DetailedPlacement::canSwap"):
        c04.check_predicate(ctx, _Relabel(rep, "SA"), prog.func1(CQ + q), c04.PREDICATES[q])
    c04.check_region_choice(ctx, _Relabel(rep, "SA"))


class _Relabel:
    """Report proxy that files another module's instances under this property's rule id."""

    def __init__(self, rep, rid):
        self.rep, self.rid = rep, rid

    def holds(self, rid, *a, **k):
        return self.rep.holds(self.rid, *a, **k)

    def violation(self, rid, *a, **k):
        return self.rep.violation(self.rid, *a, **k)

    def unknown(self, rid, *a, **k):
        return self.rep.unknown(self.rid, *a, **k)


def move_under_feasible_witness(ctx, f, call, val_q):
    """The move is dominated by `found` == true; `found = true` only under `feasible` (first binding of the value function)
    and the move's candidate argument is the candidate evaluated."""
    g = cfg_of(f)
    n = g.node_for(call)
    wit = None
    for ast, val, _e in g.dom_edges(n):
        c = canon(ast)
        if c[0] == "var" and val is True:
            wit = c
    if wit is None:
        # the witness may live in a small local object (`selection.found`), set by one of its member functions
        objw = None
        for ast, val, _e in g.dom_edges(n):
            c = canon(ast)
            if c[0] == "field" and c[2][0] == "var" and val is True:
                objw = c
        if objw is None:
            return False, "move not dominated by a 'found' witness"
        return _object_witness(ctx, f, objw, val_q)
    from .common import assignments_to
    sets = [(x, r) for x, r in assignments_to(f, wit[1]) if canon(r) == ("lit", True)]
    if not sets:
        return False, "witness %s is never set" % wit[2]
    for x, r in sets:
        nn = g.node_for(x)
        ok = False
        for ast, val, _e in g.dom_edges(nn):
            c = canon(ast)
            if c[0] == "var" and val is True:
                bs = binding_source(f, c[1])
                if bs and bs[0][0] == "call" and bs[0][1] == val_q and bs[1] == 0:
                    ok = True
        if not ok:
            return False, "witness set at %s without a dominating `feasible` from %s" % (loc_str(x), short(val_q))
    return True, "witness %s set only under feasible == true of %s" % (wit[2], short(val_q))


def _object_witness(ctx, f, objw, val_q):
    """Witness kept in a field of a local object: every `field = true` in a member function of the object's class is dominated
    by the `feasible` component (first binding) of a pair-valued parameter, and every call of that member function on the object
    passes the result of the value function for that parameter. Returns (True/None, why): never a refutation."""
    fq, obj = objw[1], objw[2]
    setters = []
    for h in ctx.prog.all_funcs(with_lambdas=False):
        if h.body is None:
            continue
        for x in walk(h.body):
            if x.get("kind") == "BinaryOperator" and x.get("opcode") == "=":
                l, r = children(x)
                if canon(l) == ("field", fq, ("this",)) and canon(r) == ("lit", True):
                    setters.append((h, x))
    if not setters:
        return None, "witness %s.%s is a field of a local object; no member function sets it to true" % (obj[2], fq.split("::")[-1])
    for h, x in setters:
        hg = cfg_of(h)
        pidx = None
        for ast, val, _e in hg.dom_edges(hg.node_for(x)):
            c = canon(ast)
            if c[0] == "var" and val is True:
                bs = binding_source(h, c[1])
                if bs and bs[1] == 0 and bs[0][0] == "var":
                    pidx = [i for i, p_ in enumerate(h.params) if p_.get("id") == bs[0][1]] or None
        if not pidx:
            return None, "witness %s set in %s, not under the feasibility component of a parameter" % (fq.split("::")[-1], h.short)
        calls = [y for y in walk(f.body) if y.get("kind") == "CXXMemberCallExpr" and ctx.eff.resolve_callee(y)[1] == [h]
                 and callee_info(y)["obj"] is not None and canon(callee_info(y)["obj"]) == obj]
        if not calls:
            return None, "%s is never called on %s" % (h.short, obj[2])
        for y in calls:
            a = canon(callee_info(y)["args"][pidx[0]])
            if not (a[0] == "call" and a[1] == val_q):
                return None, "%s receives %s, not the result of %s" % (h.short, pretty(a)[:40], short(val_q))
    return True, "witness %s.%s set only by %s under the feasible component of %s" % (obj[2], fq.split("::")[-1], setters[0][0].short, short(val_q))
