"""C10 — busy-circuit protocol and exception safety of placement calls.

G10  every non-const Circuit method that writes a structural member calls
     checkNotInUse() at a point that dominates all of its member writes
T10  checkNotInUse() returns normally only when isInUse_ is false
X2   no stage entry is reachable from inside a stage (the busy guard is not re-entrant)
X1   in placeGlobal/legalize/placeDetailed the busy flag is true while the placer
     runs and is false again on *every* exit, normal or exceptional
P2   params.check() comes first in GlobalPlacer::place, DetailedPlacer::legalize,
     DetailedPlacer::place
P1   a failed Legalizer::run writes nothing back
"""
import json
import os

from ..frontend import VERIF, AnalysisBroken
from ..model import qt, loc_str, walk, inner
from ..expr import canon, pretty, children, strip, callee_info, CALL_KINDS, member_decl
from ..cfg import cfg_of
from ..effects import WRITE, ESCAPE
from .common import CQ, short, calls_to, find_calls

EXPLANATION = (
    "Static protocol check on the clang-resolved AST. G10: for every non-const Circuit method whose body writes a structural "
    "member (netLimits_, pinCells_, pin offsets, rows_, fixed/obstruction flags, polarities), a call to checkNotInUse() dominates "
    "every member write of that method in the CFG, so a refused call changes nothing. T10: checkNotInUse's normal exit is "
    "edge-dominated by isInUse_ == false. X1: in each stage entry the busy flag is set before the placer is called and, for every "
    "exit of the function reachable while the flag is set -- the normal exit and the exceptional exit of every call in that "
    "region -- the flag is reset: either the flag is owned by a local RAII object whose constructor sets and whose destructor "
    "clears it, or the region lies in a try block whose catch-all handler clears it. P2: params.check() dominates every other "
    "library call and every Circuit member write (bookkeeping flags excepted) in the three algorithm entry points. "
    "P1: Legalizer::exportPlacement in DetailedPlacer::legalize is dominated by Legalizer::run with no handler in between, and "
    "checkAllPlaced() is the last call of Legalizer::run.")

DECLINED = ["what user callbacks do with the circuit beyond the structural setters (user code)",
            "internal consistency of algorithm objects after an exception (they are destroyed with the call)"]

STRUCTURAL = ["netLimits_", "pinCells_", "pinXOffsets_", "pinYOffsets_", "rows_", "cellIsFixed_",
              "cellIsObstruction_", "cellRowPolarity_"]
STAGES = ["Circuit::placeGlobal", "Circuit::legalize", "Circuit::placeDetailed"]
CHECK_FIRST = ["GlobalPlacer::place", "DetailedPlacer::legalize", "DetailedPlacer::place"]
BOOKKEEPING = {CQ + "Circuit::hasCellSizeUpdate_", CQ + "Circuit::hasNetUpdate_"}


def run(ctx, rep, tier):
    prog, eff = ctx.prog, ctx.eff
    rep.rule("G10", "structural Circuit mutators: checkNotInUse() dominates every member write", min_instances=7)
    rep.rule("T10", "checkNotInUse() returns normally only if isInUse_ is false", min_instances=1)
    rep.rule("X1", "busy flag set while the placer runs and cleared on every exit (normal and exceptional)", min_instances=3)
    rep.rule("X2", "no placement stage is re-entered from inside a stage (busy guard is not re-entrant)", min_instances=3)
    rep.rule("P2", "params.check() first in the algorithm entry points", min_instances=3)
    rep.rule("P1", "failed legalization writes nothing back", min_instances=2)
    rep.rule("FL", "the two structural-update flags of the circuit are cleared together", min_instances=2)
    _fl = {}
    for f_ in prog.all_funcs(with_lambdas=False):
        if f_.body is None:
            continue
        for y_ in walk(f_.body):
            if y_.get("kind") == "BinaryOperator" and y_.get("opcode") == "=":
                lc_ = canon(children(y_)[0])
                if lc_[0] == "field" and str(lc_[1]).split("::")[-1] in ("hasCellSizeUpdate_", "hasNetUpdate_") and canon(children(y_)[1]) == ("lit", False):
                    _fl.setdefault(f_.key, (f_, {}))[1].setdefault(str(lc_[1]).split("::")[-1], []).append(y_)
    for f_, d_ in _fl.values():
        if len(d_) == 2:
            rep.holds("FL", list(d_.values())[0][0], f_, "%s clears hasCellSizeUpdate_ and hasNetUpdate_" % f_.short)
        elif len(list(d_.values())[0]) < 2:
            rep.holds("FL", list(d_.values())[0][0], f_, "%s clears %s once (the update it has just handled)" % (f_.short, list(d_)[0]))
        elif any(w_.endswith("::" + ("hasNetUpdate_" if list(d_)[0] == "hasCellSizeUpdate_" else "hasCellSizeUpdate_"))
                 for w_ in eff.transitive().get(f_.key, {}).get("writes", ())):
            rep.holds("FL", list(d_.values())[0][0], f_, "%s clears %s itself and the other flag through a callee" % (f_.short, list(d_)[0]))
        else:
            have = list(d_)[0]
            other = "hasNetUpdate_" if have == "hasCellSizeUpdate_" else "hasCellSizeUpdate_"
            rep.violation("FL", d_[have][0], f_, "%s clears %s (%d time(s)) and never %s" % (f_.short, have, len(d_[have]), other),
                          "a change notified before the call stays pending: the next run with a callback refuses a circuit nobody touched",
                          key="%s|one update flag cleared without the other" % f_.short)
    if not _fl:
        rep.unknown("FL", None, None, "update flags", "no function clears them (shape changed)")
    rep.rule("CA", "the legalizer's compact cell numbering is the same when it is built and when it is written back (no throw half-way through the export)", min_instances=2)
    from .common import check_compaction
    check_compaction(ctx, rep, "CA", prog.func1(CQ + "Legalizer::fromIspdCircuit"), prog.func1(CQ + "Legalizer::exportPlacement"))

    # ---- T10 -------------------------------------------------------------
    cni = prog.func1(CQ + "Circuit::checkNotInUse")
    g = cfg_of(cni)
    edges = g.dom_edges(g.exit)
    ok = any(canon(a) == ("field", CQ + "Circuit::isInUse_", ("this",)) and v is False for a, v, _e in edges)
    if ok:
        rep.holds("T10", cni.decl, cni, "normal exit requires !isInUse_")
    else:
        rep.violation("T10", cni.decl, cni, "checkNotInUse can return while isInUse_ is set",
                      "normal exit is not edge-dominated by isInUse_ == false",
                      key="Circuit::checkNotInUse|returns while in use")

    # ---- G10 ---------------------------------------------------------------
    struct_q = {CQ + "Circuit::" + s for s in STRUCTURAL}
    n = 0
    for f in prog.funcs.values():
        if f.cls != CQ + "Circuit" or f.kind != "CXXMethodDecl" or f.is_const or f.is_static:
            continue
        s = eff.summary(f)
        written = set(s["writes"]) | set(s["escapes"])
        # writes through calls to other non-const Circuit methods on this
        call_writes = []
        for call, ci, fs in s["calls"]:
            for cal in fs:
                if cal.cls == CQ + "Circuit" and cal.kind == "CXXMethodDecl" and not cal.is_const and not cal.is_static:
                    # a helper setter that itself writes structural members (not the placement stages: what the
                    # placers may write is C03's frame condition, not the busy protocol)
                    sc = eff.summary(cal)
                    if (set(sc["writes"]) | set(sc["escapes"])) & struct_q:
                        call_writes.append((call, cal))
        if not (written & struct_q) and not call_writes:
            continue
        n += 1
        gg = cfg_of(f)
        checks = [c for c in calls_to(f, CQ + "Circuit::checkNotInUse")]
        check_nodes = [gg.node_for(c) for c in checks]
        check_nodes = [c for c in check_nodes if c is not None]
        sites = []
        for q in sorted(written):
            if not q.startswith(CQ + "Circuit::"):
                continue
            for x, u in s["writes"].get(q, []) + s["escapes"].get(q, []):
                sites.append((q, u.node))
        for call, cal in call_writes:
            sites.append((cal.short + "()", call))
        bad = []
        for q, node in sites:
            sn = gg.node_for(node)
            if sn is None or not any(gg.dominates(cn, sn) and cn is not sn for cn in check_nodes):
                bad.append((q, node))
        if not checks:
            rep.violation("G10", f.decl, f, "structural mutator without checkNotInUse()",
                          "writes %s" % sorted(short(w) for w in (written & struct_q)),
                          key="%s|no checkNotInUse" % f.short)
        elif bad:
            for q, node in bad:
                rep.violation("G10", node, f, "member write not dominated by checkNotInUse()",
                              "%s is modified on a path that has not passed the busy check" % short(q),
                              key="%s|write of %s before busy check" % (f.short, short(q)))
        elif not any(gg.dominates(cn, gg.exit) for cn in check_nodes):
            # a path that returns normally without having asked: the call is accepted while the circuit is busy (even if that
            # path happens to write nothing, the caller is told the modification went through)
            rep.violation("G10", f.decl, f, "%s can return normally without passing checkNotInUse()" % f.short,
                          "a structural setter called while a placement runs must be refused on every path, including the paths that find "
                          "nothing to do", key="%s|normal return before busy check" % f.short)
        else:
            rep.holds("G10", f.decl, f, "checkNotInUse() dominates %d member write(s) and every normal return" % len(sites),
                      "structural: %s" % sorted(short(w).split("::")[-1] for w in (written & struct_q)))

    # ---- X1 -----------------------------------------------------------------
    for sq in STAGES:
        fs = [f for f in prog.func(CQ + sq) if len(f.params) == 2]
        if len(fs) != 1:
            raise AnalysisBroken("stage entry %s(params, callback) not found exactly once" % sq)
        check_busy_flag(ctx, rep, fs[0])

    # ---- X2: stages are not re-entered (the busy guard is not re-entrant) -----------
    stage_funcs = {}
    for sq in STAGES:
        for f in prog.func(CQ + sq):
            stage_funcs[f.key] = f
    trans = eff.transitive()
    for k, f in stage_funcs.items():
        if len(f.params) != 2:
            continue
        inner_stage = [stage_funcs[c] for c in trans[k]["calls"] if c in stage_funcs]
        if inner_stage:
            from .c03 import call_chain
            g = inner_stage[0]
            rep.violation("X2", f.decl, f, "stage re-enters a stage: %s" % g.short,
                          "%s; the nested call's busy guard clears isInUse_ while the outer stage is still running" % " -> ".join(call_chain(ctx, f, g)),
                          key="%s|re-enters %s" % (f.short, g.short))
        else:
            rep.holds("X2", f.decl, f, "no stage entry reachable from inside %s" % f.short)

    # ---- P2 -------------------------------------------------------------------
    p2_set = {CQ + q for q in CHECK_FIRST}
    for q in CHECK_FIRST:
        f = prog.func1(CQ + q)
        check_params_first(ctx, rep, f, p2_set)

    # ---- P1 -------------------------------------------------------------------
    check_p1(ctx, rep)


def may_throw_calls(func):
    out = []
    for x in walk(func.body):
        if x.get("kind") in CALL_KINDS:
            ci = callee_info(x)
            t = ""
            ce = ci.get("callee_expr") if ci else None
            if ce is not None:
                t = qt(ce)
                if ce.get("kind") == "DeclRefExpr":
                    t = ((ce.get("referencedDecl") or {}).get("type") or {}).get("qualType", t)
            if "noexcept" in t:
                continue
            out.append(x)
    return out


def flag_writes(ctx, f, field_q):
    """Direct writes `flag = <bool literal>` in f: list of (node, value or None)."""
    out = []
    s = ctx.eff.summary(f)
    for x, u in s["writes"].get(field_q, []):
        val = None
        if u.node.get("kind") == "BinaryOperator" and u.node.get("opcode") == "=":
            rhs = canon(children(u.node)[1])
            if rhs[0] == "lit" and isinstance(rhs[1], bool):
                val = rhs[1]
        out.append((u.node, val))
    return out


def raii_guard_of(ctx, f, field_q):
    """A local variable of a library class whose constructor sets and whose destructor clears the
    flag it was given: returns (VarDecl, class qname) or None."""
    prog, eff = ctx.prog, ctx.eff
    for x in walk(f.body):
        if x.get("kind") != "VarDecl":
            continue
        t = qt(x).replace("const ", "").strip()
        recs = [q for q in prog.records if q == t or q.endswith("::" + t) or t.endswith(q)] or \
               [q for q in prog.records if q.startswith(CQ) and q.split("::")[-1] == t.split("::")[-1]]
        if not recs:
            continue
        cls = recs[0]
        # the initialiser must mention the flag (or *this)
        init = [c for c in children(x)]
        if not init:
            continue
        ic = canon(init[-1])
        mentions_flag = any(s_[0] == "field" and s_[1] == field_q for s_ in _sub(ic)) or any(s_ == ("this",) for s_ in _sub(ic))
        if not mentions_flag:
            continue
        cname = cls.split("::")[-1]
        ctors = prog.funcs_by_q.get(cls + "::" + cname, [])
        dtors = prog.funcs_by_q.get(cls + "::~" + cname, [])
        if not ctors or not dtors:
            continue
        sets = any(_writes_bool(ctx, c, True, field_q) for c in ctors)
        clears = all(_writes_bool(ctx, d, False, field_q) for d in dtors)
        if sets and clears:
            # a constructor that can throw after it has set the flag leaves the flag set (no destructor runs)
            for c in ctors:
                late = _may_throw_after_set(c)
                if late is not None:
                    x["_guard_problem"] = (late, c)
            return x, cls
    return None


def _sub(c):
    from ..expr import subterms
    return list(subterms(c))


def _writes_bool(ctx, func, value, field_q):
    """func assigns the literal `value` to a bool reference member / to the flag itself, unconditionally."""
    g = cfg_of(func)
    for x in walk(func.body):
        if x.get("kind") == "BinaryOperator" and x.get("opcode") == "=":
            l, r = children(x)
            rc = canon(r)
            if rc == ("lit", value):
                lc = canon(l)
                if lc[0] == "field":
                    n = g.node_for(x)
                    if n is not None and not g.dom_edges(n):
                        return True
    for ci in func.ctor_inits:
        pass
    return False


def _may_throw_after_set(ctor):
    """A call in the guard's constructor body that is reachable after the flag was set to true."""
    g = cfg_of(ctor)
    setn = None
    for x in walk(ctor.body):
        if x.get("kind") == "BinaryOperator" and x.get("opcode") == "=" and canon(children(x)[1]) == ("lit", True):
            setn = g.node_for(x)
    if setn is None:
        return None
    reach = g.reachable_from([setn])
    for x in may_throw_calls(ctor):
        n = g.node_for(x)
        if n is not None and (n.idx in reach or n is setn) :
            if n is setn and x.get("kind") != "CXXMemberCallExpr":
                continue
            return x
    return None


def check_busy_flag(ctx, rep, f):
    field_q = CQ + "Circuit::isInUse_"
    g = cfg_of(f)
    placer_calls = [x for x in may_throw_calls(f) if (callee_info(x) or {}).get("qname", "").startswith(CQ) and
                    (callee_info(x)["qname"].endswith("Placer::place") or callee_info(x)["qname"].endswith("Placer::legalize"))]
    if not placer_calls:
        rep.unknown("X1", f.decl, f, "stage body", "no call to GlobalPlacer/DetailedPlacer entry found (shape changed)")
        return
    fw = flag_writes(ctx, f, field_q)
    sets = [n for n, v in fw if v is True]
    resets = [n for n, v in fw if v is False]
    other = [n for n, v in fw if v is None]
    guard = raii_guard_of(ctx, f, field_q)
    if guard is not None and not sets:
        var, cls = guard
        vn = g.node_for(var)
        okdom = all(g.dominates(vn, g.node_for(pc)) for pc in placer_calls)
        if var.get("_guard_problem"):
            late, c = var["_guard_problem"]
            rep.violation("X1", late, c, "busy guard %s can throw after it has set the flag" % short(cls),
                          "an exception leaving the constructor (%s) means the destructor never runs: isInUse_ stays true after the call has ended" % (
                              callee_info(late)["qname"].replace(CQ, "") if callee_info(late) else "call"),
                          key="%s|guard constructor throws after set" % f.short)
        elif okdom:
            rep.holds("X1", var, f, "busy flag owned by RAII guard %s" % short(cls),
                      "constructor sets, destructor clears; declared before the placer call -> cleared on every exit")
        else:
            rep.violation("X1", var, f, "RAII busy guard does not dominate the placer call", "guard declared at %s" % loc_str(var),
                          key="%s|busy guard after placer call" % f.short)
        return
    if not sets:
        rep.violation("X1", f.decl, f, "busy flag is never set by the stage",
                      "no `isInUse_ = true` and no RAII guard before the placer runs: setters are not refused from callbacks",
                      key="%s|isInUse_ never set" % f.short)
        return
    if other:
        rep.unknown("X1", other[0], f, "busy flag written with a non-literal value", "cannot decide the protocol")
        return
    set_nodes = [g.node_for(n) for n in sets]
    reset_nodes = [g.node_for(n) for n in resets]
    # the placer call must be dominated by a set
    for pc in placer_calls:
        pn = g.node_for(pc)
        if not any(g.dominates(sn, pn) for sn in set_nodes):
            rep.violation("X1", pc, f, "placer called without the busy flag set", "no `isInUse_ = true` dominates the call",
                          key="%s|placer call not dominated by flag set" % f.short)
            return
    region = g.reachable_from(set_nodes, avoid=reset_nodes) | {s.idx for s in set_nodes}
    problems = []
    if g.exit.idx in region:
        problems.append((f.decl, "normal exit reachable with the flag still set"))
    for x in may_throw_calls(f):
        n = g.node_for(x)
        if n is None or n.idx not in region or n in set_nodes:
            continue
        if covered_by_handler(ctx, f, x, field_q):
            continue
        ci = callee_info(x)
        problems.append((x, "exception from %s() leaves isInUse_ == true (no RAII guard, no catch-all that resets)" % ci["qname"].replace(CQ, "")))
    if problems:
        node, why = problems[0]
        rep.violation("X1", node, f, "isInUse_ not reset on every exit", "; ".join(w for _n, w in problems[:3]),
                      key="%s|isInUse_ not reset on exceptional exit" % f.short)
    else:
        rep.holds("X1", f.decl, f, "busy flag cleared on every exit", "%d set, %d reset site(s)" % (len(sets), len(resets)))


def covered_by_handler(ctx, f, node, field_q):
    """node lies in a try block with a catch-all handler that assigns false to the flag."""
    x = node.get("_p")
    child = node
    while x is not None and x is not f.body:
        if x.get("kind") == "CXXTryStmt" and inner(x) and inner(x)[0] is child:
            for h in inner(x)[1:]:
                hc = inner(h)
                is_all = not any(c.get("kind") == "VarDecl" for c in hc)
                if not is_all:
                    continue
                for y in walk(h):
                    if y.get("kind") == "BinaryOperator" and y.get("opcode") == "=":
                        l, r = children(y)
                        if canon(l) == ("field", field_q, ("this",)) and canon(r) == ("lit", False):
                            return True
        child = x
        x = x.get("_p")
    return False


def check_params_first(ctx, rep, f, p2_set):
    prog, eff = ctx.prog, ctx.eff
    g = cfg_of(f)
    checks = [c for c in calls_to(f, CQ + "ColoquinteParameters::check")]
    checks = [c for c in checks if canon(callee_info(c)["obj"])[0] == "var"]
    if not checks:
        rep.violation("P2", f.decl, f, "no params.check() call", "parameters are never validated in this entry point",
                      key="%s|no params.check()" % f.short)
        return
    cn = [g.node_for(c) for c in checks]
    s = eff.summary(f)
    bad = []
    for call, ci, fs in s["calls"]:
        if call in checks:
            continue
        lib = bool(fs) or (ci.get("ctor_type", "") or "").startswith(CQ)
        if not lib:
            continue
        if any(validates_first(ctx, fx, p2_set) for fx in fs):
            continue   # callee validates first itself
        n = g.node_for(call)
        if n is None:
            continue
        if not any(g.dominates(c, n) and c is not n for c in cn):
            bad.append((call, "library call %s before params.check()" % ci["qname"].replace(CQ, "")))
    for q, lst in list(s["writes"].items()) + list(s["escapes"].items()):
        if not q.startswith(CQ + "Circuit::") or q in BOOKKEEPING:
            continue
        for x, u in lst:
            n = g.node_for(u.node)
            if n is None or not any(g.dominates(c, n) for c in cn):
                bad.append((u.node, "write to %s before params.check()" % short(q)))
    if bad:
        for node, why in bad:
            rep.violation("P2", node, f, "work before parameter validation", why,
                          key="%s|%s" % (f.short, why.split(" before")[0]))
    else:
        rep.holds("P2", checks[0], f, "params.check() dominates all library calls and Circuit writes",
                  "%d library calls examined" % len(s["calls"]))


def validates_first(ctx, f, p2_set, depth=0):
    """f is one of the check-first entry points, or a thin wrapper whose first library call (ignoring local RAII
    helpers of the anonymous namespace) is one."""
    if f.qname in p2_set:
        return True
    if depth > 3:
        return False
    g = cfg_of(f)
    calls = []
    for call, ci, fs in ctx.eff.summary(f)["calls"]:
        fs = [fx for fx in fs if "(anonymous namespace)" not in (fx.cls or "")]
        if fs and g.node_for(call) is not None:
            calls.append((call, fs))
    for call, fs in calls:
        n = g.node_for(call)
        if all(g.dominates(n, g.node_for(c2)) for c2, _f2 in calls):
            return all(validates_first(ctx, fx, p2_set, depth + 1) for fx in fs)
    return False


def check_p1(ctx, rep):
    prog = ctx.prog
    f = prog.func1(CQ + "DetailedPlacer::legalize")
    g = cfg_of(f)
    runs = calls_to(f, CQ + "Legalizer::run")
    exps = calls_to(f, CQ + "Legalizer::exportPlacement")
    if not runs or not exps:
        rep.unknown("P1", f.decl, f, "legalize body", "Legalizer::run / exportPlacement call not found (shape changed)")
    else:
        has_try = any(x.get("kind") == "CXXTryStmt" for x in walk(f.body))
        bad = [e for e in exps if not any(g.dominates(g.node_for(r), g.node_for(e)) for r in runs)]
        if bad:
            rep.violation("P1", bad[0], f, "legalization result exported without a successful run",
                          "exportPlacement is not dominated by Legalizer::run", key="DetailedPlacer::legalize|export not dominated by run")
        elif has_try:
            rep.unknown("P1", f.decl, f, "try block in DetailedPlacer::legalize", "handler could swallow a failed run; not modelled")
        else:
            rep.holds("P1", exps[0], f, "exportPlacement dominated by Legalizer::run, no handler")
    r = prog.func1(CQ + "Legalizer::run")
    gr = cfg_of(r)
    cap = calls_to(r, CQ + "LegalizerBase::checkAllPlaced")
    if not cap:
        rep.violation("P1", r.decl, r, "Legalizer::run does not verify that every cell was placed", "no checkAllPlaced() call",
                      key="Legalizer::run|no checkAllPlaced")
        return
    cnode = gr.node_for(cap[-1])
    if not gr.postdominates(cnode, gr.entry):
        rep.violation("P1", cap[-1], r, "a path through Legalizer::run skips checkAllPlaced()", "not a post-dominator of entry",
                      key="Legalizer::run|checkAllPlaced skipped on some path")
        return
    # nothing that can place cells after it
    after = gr.reachable_from([cnode]) - {cnode.idx}
    late = []
    for call, ci, fs in ctx.eff.summary(r)["calls"]:
        n = gr.node_for(call)
        if n is not None and n.idx in after and fs:
            tw = set()
            for fx in fs:
                tw |= ctx.eff.transitive().get(fx.key, {"writes": set()})["writes"]
            if any(w.startswith(CQ + "LegalizerBase::cell") for w in tw):
                late.append((call, ci))
    if late:
        rep.violation("P1", late[0][0], r, "placement state modified after checkAllPlaced()", late[0][1]["qname"],
                      key="Legalizer::run|state modified after checkAllPlaced")
    else:
        rep.holds("P1", cap[-1], r, "checkAllPlaced() post-dominates entry and is last to touch placement state")
