"""C01 — legalization returns a legal placement or fails loudly (structural skeleton).

P1   failure is loud and nothing partial is written back (shared with C10)
W1   who may set the 'placed' flag of the legalizers
AC   commits only of candidates the admission predicate accepted (shared with C04), candidates assigned together
SP   admission predicates admit only when the row has room (space test on the same row)
IMP  sub-legalizer results are imported only for cells the sub-legalizer placed, position+flag together
G2   the result is written to the Circuit only for placed cells
PV   rows offered to the legalizers are the obstruction-free rows; each pass runs on the rows left by the previous one
TB   the segment scans of Tetris stop early only when no later segment can matter
FS   the free row space offered to the legalizers is rows minus exactly the fixed obstructions (structure shared with C15)
TG   Tetris consumes row space only in row segments the cell's x-range really overlaps (two-sided overlap test)
JX   the parallel index of movable cells advances exactly once per movable cell in import/export
DS   free-space queries are pure: no stale derived state (cache) can be consulted
"""
from ..frontend import AnalysisBroken
from ..model import qt, loc_str, walk, inner
from ..expr import canon, pretty, children, strip, callee_info, subterms
from ..cfg import cfg_of
from ..qual import check_frame, axis_conflicts
from .common import (CQ, short, is_fixed_test, vars_in, field_writes, for_loop_info, loop_has_early_exit, expand_locals,
                     check_derived_state, calls_to)
from . import c10, c04

EXPLANATION = (
    "Static check of the legalization skeleton on the clang-resolved AST. P1: Legalizer::run ends with checkAllPlaced() on every "
    "path and DetailedPlacer::legalize exports only after run(). W1/AC/SP/IMP: the placed flag is written only by the two "
    "legalizers' placeCell, importLegalization and the constructor; a commit (row push / position store / flag) is dominated by a "
    "witness that is set only under the ok result of the admission predicate for that cell and row, and the admission predicates "
    "admit only under a free-space test on the same row; imports copy position and flag together under the sub-legalizer's flag. "
    "G2: Circuit writes in Legalizer::exportPlacement are dominated by isPlaced(j). PV: the Legalizer is built on computeRows(), "
    "Tetris and Abacus on remainingRows(), whose obstacles are exactly the cells already placed. TG: rowFreePos_[r] is advanced "
    "only under x < rows_[r].maxX and x + w > rows_[r].minX. JX: the movable-cell counter is incremented on every non-fixed path "
    "exactly once. DS: no const query keeps derived state that some writer of its inputs fails to invalidate.")

DECLINED = ["geometric legality of the Abacus / Tetris arithmetic (non-overlap inside a row, clamping)",
            "'never fails when success is trivial' (a statement about the search succeeding; runtime quantities)"]


def run(ctx, rep, tier):
    prog, eff = ctx.prog, ctx.eff
    rep.rule("P1", "failed legalization is loud and writes nothing back", 2)
    rep.rule("W1", "who may set LegalizerBase::cellIsPlaced_", 1)
    rep.rule("AC", "legalizer commits only admitted candidates (cell,row), candidate variables assigned together", 2)
    rep.rule("SP", "admission predicates test free space of the same row", 2)
    rep.rule("IMP", "importLegalization copies position and flag only for cells the sub-legalizer placed", 1)
    rep.rule("G2", "Circuit writes of Legalizer::exportPlacement dominated by isPlaced(j)", 3)
    rep.rule("PV", "rows: Legalizer on computeRows(); Tetris/Abacus on remainingRows(); remainingRows subtracts exactly the placed cells", 4)
    rep.rule("TG", "Tetris advances a segment's free position only when the cell's x-range overlaps that segment", 1)
    rep.rule("TB", "early exits of the Tetris segment scans are sound", 2)
    rep.rule("FS", "free-space computation: obstacle filter and subtraction structure (shared with C15)", 6)
    rep.rule("JX", "parallel movable-cell index advances exactly once per movable cell", 2)
    rep.rule("SK", "row lookups by binary search use the key the rows are sorted by", 2)
    rep.rule("DS", "free-space / geometry queries keep no stale derived state (with positive control)", 2)
    rep.rule("RS", "the row sweeps of the legalizers reach every row (upwards to the last row, downwards to row 0)", 4)
    rep.rule("IB", "the ends of the Tetris free intervals are admissible positions (end + width <= end of the row segment)", 1)
    rep.rule("IE", "Tetris only emits the intersection of two free intervals when it is non-empty", 1)
    rep.rule("TC", "Tetris marks every row strip a multi-row cell covers (recursion / strip loop reaches the topmost strip)", 1)
    rep.rule("OF", "orientation frame of the legalizer's cell sizes: producer (fromIspdCircuit) and consumers (width/height exchanges) agree", 2)
    c10.check_p1(ctx, rep)
    # W1
    q = CQ + "LegalizerBase::cellIsPlaced_"
    allowed = {"AbacusLegalizer::placeCell", "TetrisLegalizer::placeCell", "LegalizerBase::importLegalization", "LegalizerBase::LegalizerBase"}
    from .common import check_writers
    check_writers(ctx, rep, "W1", q, {a: "" for a in allowed}, "LegalizerBase::cellIsPlaced_")
    c04.check_commits(ctx, rep, "AC")
    check_space(ctx, rep)
    check_import(ctx, rep)
    check_g2(ctx, rep)
    check_pv(ctx, rep)
    check_tg(ctx, rep)
    check_tb(ctx, rep)
    check_orientation_frame(ctx, rep)
    check_strip_coverage(ctx, rep)
    check_interval_recursion(ctx, rep)
    check_row_sweeps(ctx, rep)
    check_interval_emission(ctx, rep)
    check_interval_bounds(ctx, rep)
    from . import c15
    c15.check_g12(ctx, c02_relabel(rep, "FS"))
    c15.check_g13(ctx, c02_relabel(rep, "FS"))
    check_jx(ctx, rep)
    from .common import check_sort_keys
    check_sort_keys(ctx, rep, "SK", [f_ for f_ in prog.funcs.values() if f_.cls in (CQ + "LegalizerBase", CQ + "DetailedPlacement")])
    n = check_derived_state(ctx, rep, "DS", prog)
    rep.holds("DS", "src/**", None, "const member functions examined for own-member writes", "%d const methods" % n)
    # positive control of the zero-instance rule
    import os
    from ..frontend import VERIF
    from ..model import Program
    from ..effects import Effects
    ctl = Program.from_files([os.path.join(VERIF, "selftest", "c01_controls.cpp")])

    class Sink:
        v = []

        def holds(self, *a, **k):
            pass

        def violation(self, rid, node, func, what, reason, key=None):
            Sink.v.append((rid, func.short if func is not None else "", reason))

    from ..core import SubCtx
    Sink.v = []
    check_derived_state(SubCtx(ctl, Effects(ctl)), Sink(), "DS", ctl)
    if any("setScale" in f for _r, f, _w in Sink.v) and not any("setValues" in f for _r, f, _w in Sink.v):
        rep.holds("DS", "selftest/c01_controls.cpp", None, "positive control: the missing invalidation in Store::setScale is reported")
    else:
        rep.unknown("DS", "selftest/c01_controls.cpp", None, "positive control", "rule DS no longer reports the seeded stale cache: %s" % Sink.v)


def c02_relabel(rep, rid):
    from .c02 import _Relabel
    return _Relabel(rep, rid)


def check_strip_coverage(ctx, rep):
    """TC. instanciateCell(x, y, w, h) must advance rowFreePos_ on every row strip y, y+H, ..., y+h-H of the cell (H = row height).
    Recursive form: the function calls itself with (y + H, h - H) unless h <= H. Loop form `for (s = y; C(s); s += H)`: C must hold
    for the topmost strip s = y + h - H (decided on the polynomial normal form, H > 0)."""
    from ..order import Facts, Prover
    from .common import specialise
    prog = ctx.prog
    f = prog.func1(CQ + "TetrisLegalizer::instanciateCell")
    if len(f.params) < 4:
        rep.unknown("TC", f.decl, f, "instanciateCell", "signature changed")
        return
    yv, hv = [("var", p.get("id"), p.get("name")) for p in (f.params[1], f.params[3])]
    H = ("call", CQ + "LegalizerBase::rowHeight", ("this",))
    g = cfg_of(f)
    rec = [x for x in walk(f.body) if x.get("kind") == "CXXMemberCallExpr" and callee_info(x)["qname"] == f.qname]
    done = False
    for x in rec:
        a = [expand_locals(ctx, f, canon(t)) for t in callee_info(x)["args"]]
        ok_args = len(a) >= 4 and a[1] == ("bin", "+", yv, H) and a[3] == ("bin", "-", hv, H)
        # the recursion is skipped only when h <= H
        gs = [(expand_locals(ctx, f, gc), val) for gc, val, _a, asr in (ctx.guards(f, x) or []) if not asr]
        extra = []
        for gc, val in gs:
            if gc[0] == "bin" and gc[2] == hv and gc[3] == H and ((gc[1] == "<=" and val is False) or (gc[1] == ">" and val is True)):
                continue
            if gc[0] == "bin" and gc[3][0] == "lit" and str(gc[3][1]) == "0" and gc[2] in (hv, ("var", f.params[2].get("id"), f.params[2].get("name"))):
                continue          # h <= 0 / w <= 0: empty cell
            if gc[0] == "bin" and gc[1] in ("||",):
                continue
            extra.append(pretty(gc))
        done = True
        if ok_args and not extra:
            rep.holds("TC", x, f, "instanciateCell recurses on (y + H, h - H) whenever h > H: every strip is marked")
        else:
            rep.violation("TC", x, f, "instanciateCell's recursion to the next strip", "arguments %s, extra conditions %s: a covered row can be left unmarked, "
                          "so a later multi-row cell may be placed on it" % ([pretty(t) for t in a[1:4:2]], extra), key="TetrisLegalizer::instanciateCell|strip recursion")
    loops = [x for x in walk(f.body) if x.get("kind") == "ForStmt"]
    for lp in loops:
        info = for_loop_info(lp)
        if not info or info["lo"] != yv:
            continue
        inc = canon(info["inc"])
        if not (inc[0] == "bin" and inc[1] == "+=" and expand_locals(ctx, f, inc[3]) == H):
            continue
        done = True
        cond = expand_locals(ctx, f, info["cond"])
        top = ("bin", "-", ("bin", "+", yv, hv), H)
        c2 = specialise(cond, {info["var"][1]: top})
        F = Facts()
        F.hyp_lb[H] = 1
        P = Prover(F)
        ok = None
        if c2[0] == "bin" and c2[1] in ("<", "<=", ">", ">="):
            l, r = (c2[2], c2[3]) if c2[1] in ("<", "<=") else (c2[3], c2[2])
            pl, pr = P.poly(l), P.poly(r)
            if pl is not None and pr is not None:
                d = P._padd(pr, pl, -1)
                nonneg = all(v >= 0 for v in d.values())
                pos = nonneg and any(v > 0 for v in d.values())
                ok = pos if c2[1] in ("<", ">") else nonneg
        if ok is True:
            rep.holds("TC", lp, f, "strip loop `%s` still runs for the topmost strip y + h - H" % pretty(cond)[:60])
        elif ok is False:
            rep.violation("TC", lp, f, "strip loop `%s` stops before the topmost strip of the cell" % pretty(cond)[:60],
                          "for s = y + h - H the condition reads %s, which is false: the top row of a multi-row cell is never marked as "
                          "occupied and another multi-row cell can be placed on it" % pretty(c2)[:80], key="TetrisLegalizer::instanciateCell|strip loop one short")
        else:
            rep.unknown("TC", lp, f, "strip loop `%s`" % pretty(cond)[:60], "condition not a comparison of polynomials in (s, y, h, H)")
    if not done:
        rep.unknown("TC", f.decl, f, "instanciateCell", "neither the recursion on (y + H, h - H) nor a strip loop from y in steps of H was found")


def check_orientation_frame(ctx, rep):
    """OF. Legalizer::fromIspdCircuit fills the legalizer's cellWidth_/cellHeight_ either with *placed* sizes (placedWidth /
    placedHeight: the input orientation is already applied) or with *raw* library sizes. A later exchange of width and height
    must be consistent with that frame: with placed sizes only a cell that is turned *relative to its input orientation* is
    exchanged (the test mentions cellTargetOrientation_), with raw sizes the test is isTurn(new orientation) alone. The pinned
    tree filled placed sizes and exchanged on isTurn(new) alone: a movable macro that arrives turned and keeps its orientation
    (no row polarity) was exchanged twice and legalized with the wrong footprint."""
    prog = ctx.prog
    f = prog.func1(CQ + "Legalizer::fromIspdCircuit")
    frame = None
    ctor = [x for x in walk(f.body) if x.get("kind") in ("CXXConstructExpr", "CXXTemporaryObjectExpr") and qt(x).replace("const ", "").endswith("Legalizer")
            and len(children(x)) >= 3]
    srcs = set()
    if ctor:
        for a in children(ctor[0])[1:3]:
            ac = canon(a)
            if ac[0] != "var":
                continue
            for y in walk(f.body):
                if y.get("kind") == "CXXMemberCallExpr" and callee_info(y)["name"] in ("push_back", "emplace_back") and canon(callee_info(y)["obj"])[:2] == ac[:2]:
                    v = canon(callee_info(y)["args"][0])
                    if v[0] == "call" and str(v[1]).endswith(("Circuit::placedWidth", "Circuit::placedHeight")):
                        srcs.add("placed")
                    elif any(t[0] == "field" and str(t[1]).endswith(("Circuit::cellWidth_", "Circuit::cellHeight_")) for t in subterms(v)) or \
                            (v[0] == "index" and v[1][0] == "call" and str(v[1][1]).endswith(("Circuit::cellWidth", "Circuit::cellHeight"))):
                        srcs.add("raw")
                    else:
                        srcs.add("other")
    if len(srcs) == 1 and "other" not in srcs:
        frame = srcs.pop()
    if frame is None:
        rep.unknown("OF", f.decl, f, "frame of the sizes handed to the Legalizer", "width/height vectors are not filled from placedWidth/placedHeight or the raw sizes alone (%s)" % sorted(srcs))
        return
    rep.holds("OF", ctor[0], f, "Legalizer::fromIspdCircuit hands over %s cell sizes" % frame)
    wq, hq, tq = CQ + "LegalizerBase::cellWidth_", CQ + "LegalizerBase::cellHeight_", CQ + "LegalizerBase::cellTargetOrientation_"
    n = 0
    for g_ in prog.all_funcs(with_lambdas=True):
        if g_.body is None or not (g_.outer.cls or "").startswith(CQ) or not any(k in (g_.outer.cls or "") for k in ("Legalizer",)):
            continue
        for x in walk(g_.body):
            if x.get("kind") != "CallExpr" or callee_info(x)["name"] != "swap" or len(callee_info(x)["args"]) != 2:
                continue
            ops = [expand_locals(ctx, g_, canon(a)) for a in callee_info(x)["args"]]
            inits = []
            for a in callee_info(x)["args"]:
                ac = canon(a)
                d = g_.unit.by_id.get(ac[1]) if ac[0] == "var" else None
                ic = canon(children(d)[-1]) if d is not None and children(d) else ac
                inits.append(ic)
            if not ({i[1][1] for i in inits if i[0] == "index" and i[1][0] == "field"} == {wq, hq}):
                continue
            n += 1
            gs = [expand_locals(ctx, g_, gc) for gc, val, _a, asr in (ctx.guards(g_, x) or []) if not asr]
            relative = any(t[0] == "field" and t[1] == tq for gc in gs for t in subterms(gc))
            turn = any(t[0] == "call" and str(t[1]).endswith("isTurn") for gc in gs for t in subterms(gc))
            what = "%s exchanges the cell's width and height under %s" % (g_.outer.short, " and ".join(pretty(gc)[:70] for gc in gs) or "no condition")
            if not turn:
                rep.unknown("OF", x, g_.outer, what, "the exchange is not conditioned on isTurn(...)")
            elif frame == "placed" and not relative:
                rep.violation("OF", x, g_.outer, what,
                              "the sizes are placed sizes (the input orientation is already applied): the exchange must depend on whether the cell "
                              "is turned *relative to its input orientation* (cellTargetOrientation_); a cell that arrives turned and keeps its "
                              "orientation is exchanged a second time and legalized with the wrong footprint",
                              key="%s|absolute orientation test on placed sizes" % g_.outer.short)
            elif frame == "raw" and relative:
                rep.violation("OF", x, g_.outer, what, "the sizes are raw library sizes: the exchange must depend on isTurn(new orientation) alone",
                              key="%s|relative orientation test on raw sizes" % g_.outer.short)
            else:
                rep.holds("OF", x, g_.outer, what, "consistent with %s sizes" % frame)
    if n == 0:
        rep.holds("OF", f.decl, f, "no legalizer exchanges width and height", "nothing to pair with the producer's frame")


def check_tb(ctx, rep):
    """Segment scans of the Tetris legalizer (instanciateCell, getPossibleIntervals) walk the segments of one y in increasing x.
    An early `break` is sound only when this and all later segments cannot matter: the segment belongs to another y
    (rows_[r].minY != y), or it starts at or beyond the right end of the cell (x + w <= rows_[r].minX)."""
    prog = ctx.prog
    for q in ("TetrisLegalizer::instanciateCell", "TetrisLegalizer::getPossibleIntervals"):
        f = prog.func1(CQ + q)
        g = cfg_of(f)
        brs = [x for x in walk(f.body) if x.get("kind") == "BreakStmt"]

        class _E:          # an exit condition folded into the loop condition: the scan stops when the conjunct is false
            def __init__(self, ast):
                self.ast, self.val = ast, False
        folded = []
        for lp in [x for x in walk(f.body) if x.get("kind") == "ForStmt"]:
            li0 = for_loop_info(lp)
            # only loops that scan the row segments: the induction variable subscripts rows_
            if not li0 or not any(t[0] == "index" and t[1][0] == "field" and str(t[1][1]).endswith("rows_") and t[2][:2] == li0["var"][:2]
                                  for y_ in walk(lp) if y_.get("kind") in ("CXXOperatorCallExpr", "MemberExpr") for t in subterms(canon(y_))):
                continue
            ch_ = [c_ for c_ in inner(lp) if isinstance(c_, dict)]
            cond = ch_[2] if len(ch_) >= 5 and ch_[2].get("kind") else None
            stack = [strip(cond)] if cond is not None else []
            while stack:
                e_ = stack.pop()
                if e_.get("kind") == "BinaryOperator" and e_.get("opcode") == "&&":
                    stack += [strip(c_) for c_ in children(e_)]
                    continue
                cc_ = canon(e_)
                li_ = for_loop_info(lp)
                iv_ = li_["var"][:2] if li_ else None
                if cc_[0] == "bin" and cc_[1] in ("<", "!=", "<=") and cc_[2][0] == "var" and (cc_[3][0] == "call" or cc_[2][:2] == iv_) and \
                        not any(t[0] == "field" for t in subterms(cc_[3])):
                    continue       # the index bound
                folded.append((lp, [_E(e_)]))
        sites = []
        for b in brs:
            n = g.node_for(b)
            preds, seen, edges = list(n.pred), set(), []
            while preds:
                p = preds.pop()
                if p.idx in seen:
                    continue
                seen.add(p.idx)
                if p.kind == "edge":
                    edges.append(p)
                elif p.kind == "join":
                    preds.extend(p.pred)
            sites.append((b, edges))
        sites += folded
        if not sites:
            rep.holds("TB", f.decl, f, "%s scans every segment (no early exit)" % q.split("::")[-1])
            continue
        for b, edges in sites:
            verdict = None
            for e in edges:
                c = canon(e.ast)
                t = pretty(c)
                if c[0] == "bin" and c[1] == "!=" and e.val is True and ".minY" in t:
                    continue
                if c[0] == "bin" and c[1] == "==" and e.val is False and ".minY" in t:
                    continue
                if c[0] == "bin" and c[1] in ("<=", "<", ">=", ">") and ".minX" in t and e.val is True:
                    # x + w <= seg.minX  or  seg.minX >= x + w
                    lo_side = c[2] if c[1] in ("<=", "<") else c[3]
                    hi_side = c[3] if c[1] in ("<=", "<") else c[2]
                    if ".minX" in pretty(hi_side) and lo_side[0] == "bin" and lo_side[1] == "+":
                        continue
                if c[0] == "bin" and ".maxX" in t:
                    verdict = ("bad", e.ast, "the scan stops at a segment that ends before the cell (`%s`): later segments of the same y, "
                               "including the one the cell is in, are never updated" % t)
                    break
                verdict = ("unknown", e.ast, "early exit under `%s` is not one of the recognised sound conditions" % t)
            if verdict is None:
                rep.holds("TB", b, f, "early exit of the segment scan in %s is sound (other y / segment beyond the cell)" % q.split("::")[-1])
            elif verdict[0] == "bad":
                rep.violation("TB", verdict[1], f, "unsound early exit of the segment scan", verdict[2], key="%s|unsound break" % f.short)
            else:
                rep.unknown("TB", verdict[1], f, "early exit of the segment scan", verdict[2])


def check_space(ctx, rep):
    prog = ctx.prog
    f = prog.func1(CQ + "AbacusLegalizer::evaluatePlacement")
    g = cfg_of(f)
    exits = c04.admitting_exits(f)
    cellp, rowp = f.params[0], f.params[1]
    for x, c in exits:
        n = g.node_for(x)
        ok = False
        for cc, val, _ast, _fl in (ctx.guards(f, x, derived=True) or []):
            if cc[0] == "bin" and cc[1] in ("<", ">=", ">", "<="):
                txt = pretty(cc)
                rv, cv_ = ("var", rowp.get("id"), rowp.get("name")), ("var", cellp.get("id"), cellp.get("name"))
                rem_on_row = any(t[0] == "call" and str(t[1]).endswith("RowLegalizer::remainingSpace") and t[2][0] == "index" and t[2][2] == rv
                                 for t in subterms(cc))
                width_of_cell = any(t[0] == "index" and t[1][0] == "field" and str(t[1][1]).endswith("cellWidth_") and t[2] == cv_ for t in subterms(cc))
                if rem_on_row and width_of_cell:
                    # remaining < width must be false (or remaining >= width true)
                    l, r = cc[2], cc[3]
                    lrem = "remainingSpace" in pretty(l)
                    good = (cc[1] == "<" and lrem and val is False) or (cc[1] == ">=" and lrem and val is True) or \
                           (cc[1] == ">" and not lrem and val is False) or (cc[1] == "<=" and not lrem and val is True)
                    ok = ok or good
        if ok:
            rep.holds("SP", x, f, "Abacus admits only when remainingSpace(row) >= width(cell)")
        else:
            rep.violation("SP", x, f, "Abacus admits a row without a free-space test on that row", "", key="AbacusLegalizer::evaluatePlacement|no space test")
    t = prog.func1(CQ + "TetrisLegalizer::attemptPlacement")
    gt = cfg_of(t)
    for x, c in c04.admitting_exits(t):
        n = gt.node_for(x)
        ok = False
        for ast, val, _e in gt.dom_edges(n):
            if val == "iter":
                # inside a loop over the free intervals: at least one exists
                ch_ = [c_ for c_ in inner(ast) if isinstance(c_, dict)]
                rng = ch_[1] if len(ch_) > 1 else None
                vd = [d_ for d_ in inner(rng) if d_.get("kind") == "VarDecl"] if rng and rng.get("kind") == "DeclStmt" else []
                if vd and children(vd[0]):
                    rc = expand_locals(ctx, t, canon(children(vd[0])[-1]))
                    if rc[0] == "call" and rc[1] == CQ + "TetrisLegalizer::getPossibleIntervals":
                        ok = True
                continue
            cc = expand_locals(ctx, t, canon(ast))
            if cc[0] == "call" and cc[1] == "empty" and val is False and cc[2][0] == "call" and cc[2][1] == CQ + "TetrisLegalizer::getPossibleIntervals":
                ok = True
        if ok:
            rep.holds("SP", x, t, "Tetris admits only when getPossibleIntervals(...) is not empty")
        else:
            rep.violation("SP", x, t, "Tetris admits a position without a non-empty free interval", "", key="TetrisLegalizer::attemptPlacement|no space test")


def _store(c):
    if c[0] == "bin" and c[1] == "=":
        return c[2], c[3]
    if c[0] == "op" and c[1] == "operator=":
        return c[2], c[3]
    return None, None


def check_import(ctx, rep):
    prog = ctx.prog
    f = prog.func1(CQ + "LegalizerBase::importLegalization")
    g = cfg_of(f)
    stores = []
    for x in walk(f.body):
        if x.get("kind") in ("BinaryOperator", "CXXOperatorCallExpr"):
            t, v = _store(canon(x))
            if t and t[0] == "index" and t[1][0] == "field" and t[1][2] == ("this",) and t[1][1].startswith(CQ + "LegalizerBase::cell"):
                stores.append((x, t, v))
    names = {t[1][1].split("::")[-1] for _x, t, _v in stores}
    need = {"cellToX_", "cellToY_", "cellToOrientation_", "cellIsPlaced_"}
    if not need <= names:
        rep.violation("IMP", f.decl, f, "import does not copy all of position, orientation and flag", "stores: %s" % sorted(names),
                      key="LegalizerBase::importLegalization|incomplete copy")
        return
    bad = []
    for x, t, v in stores:
        guards = ctx.guards(f, x) or []
        ok = any(gc[0] == "index" and gc[1][0] == "field" and gc[1][1] == CQ + "LegalizerBase::cellIsPlaced_" and gc[1][2][0] == "var" and val is True
                 for gc, val, _a, _b in guards)
        if not ok:
            bad.append(x)
    same = len({pretty(t[2]) for _x, t, _v in stores}) == 1
    if bad:
        rep.violation("IMP", bad[0], f, "import not conditioned on the sub-legalizer's placed flag", "", key="LegalizerBase::importLegalization|unconditional import")
    elif not same:
        rep.violation("IMP", stores[0][0], f, "position and flag stored for different cells", "", key="LegalizerBase::importLegalization|index mismatch")
    else:
        rep.holds("IMP", stores[0][0], f, "x, y, orientation and flag copied together under leg.cellIsPlaced_[i]")


def check_g2(ctx, rep):
    prog, eff = ctx.prog, ctx.eff
    f = prog.func1(CQ + "Legalizer::exportPlacement")
    s = eff.summary(f)
    n = 0
    for fld in ("cellX_", "cellY_", "cellOrientation_"):
        for x, u in s["writes"].get(CQ + "Circuit::" + fld, []):
            n += 1
            guards = ctx.guards(f, u.node) or []
            ok = any(gc[0] == "call" and gc[1] == CQ + "LegalizerBase::isPlaced" and val is True for gc, val, _a, _b in guards)
            if ok:
                rep.holds("G2", u.node, f, "Circuit::%s written only for placed cells" % fld)
            else:
                rep.violation("G2", u.node, f, "Circuit::%s written without isPlaced(j)" % fld, "an unplaced cell's stale target would be exported",
                              key="Legalizer::exportPlacement|%s not under isPlaced" % fld)
    if n == 0:
        rep.unknown("G2", f.decl, f, "export", "no Circuit coordinate write found")


def check_pv(ctx, rep):
    prog = ctx.prog
    f = prog.func1(CQ + "Legalizer::fromIspdCircuit")
    ctor = [x for x in walk(f.body) if x.get("kind") in ("CXXConstructExpr", "CXXTemporaryObjectExpr") and "Legalizer" in qt(x) and len(children(x)) >= 5]
    if ctor:
        a0 = canon(children(ctor[0])[0])
        if a0[0] == "call" and a0[1] == CQ + "Circuit::computeRows":
            rep.holds("PV", ctor[0], f, "Legalizer built on circuit.computeRows()")
        else:
            rep.violation("PV", ctor[0], f, "Legalizer built on %s" % pretty(a0), "must be the obstruction-free rows computeRows()",
                          key="Legalizer::fromIspdCircuit|rows not from computeRows")
    else:
        rep.unknown("PV", f.decl, f, "Legalizer construction", "not found")
    for q, cls in (("Legalizer::runTetris", "TetrisLegalizer"), ("Legalizer::runAbacus", "AbacusLegalizer")):
        g = prog.func1(CQ + q)
        from .common import forwarding_target
        g, _env = forwarding_target(ctx, g)
        vds = [x for x in walk(g.body) if x.get("kind") == "VarDecl" and cls in (qt(x) + " " + ((x.get("type") or {}).get("desugaredQualType") or ""))]
        if not vds or not children(vds[0]):
            rep.unknown("PV", g.decl, g, "%s construction" % cls, "not found")
            continue
        ic = canon(children(vds[0])[-1])
        a0 = expand_locals(ctx, g, ic[2]) if ic[0] == "construct" and len(ic) > 2 else ("none",)
        if a0 == ("call", CQ + "LegalizerBase::remainingRows", ("this",)):
            rep.holds("PV", vds[0], g, "%s runs on remainingRows()" % cls)
        else:
            rep.violation("PV", vds[0], g, "%s runs on %s" % (cls, pretty(a0)), "must be the rows left after the cells already placed",
                          key="%s|rows not remainingRows()" % g.short)
    r = prog.func1(CQ + "LegalizerBase::remainingRows")
    pushes = [x for x in walk(r.body) if x.get("kind") == "CXXMemberCallExpr" and callee_info(x)["name"] in ("emplace_back", "push_back")
              and "Rectangle" in qt(callee_info(x)["obj"])]
    if not pushes:
        rep.violation("PV", r.decl, r, "remainingRows subtracts nothing", "", key="LegalizerBase::remainingRows|no obstacle")
    for x in pushes:
        guards = ctx.guards(r, x) or []
        gs = [(pretty(gc), val) for gc, val, _a, _b in guards if "nbCells" not in pretty(gc)]
        ok = len(gs) == 1 and "isPlaced" in gs[0][0] and gs[0][1] is True
        if ok:
            rep.holds("PV", x, r, "remainingRows subtracts exactly the cells already placed")
        else:
            rep.violation("PV", x, r, "remainingRows obstacle filter is %s" % gs, "every placed cell, and only placed cells, must be subtracted",
                          key="LegalizerBase::remainingRows|obstacle filter")


def check_tg(ctx, rep):
    prog, eff = ctx.prog, ctx.eff
    f = prog.func1(CQ + "TetrisLegalizer::instanciateCell")
    s = eff.summary(f)
    ws = s["writes"].get(CQ + "TetrisLegalizer::rowFreePos_", [])
    if not ws:
        rep.unknown("TG", f.decl, f, "rowFreePos_ update", "not found")
    for x, u in ws:
        c = canon(u.node)
        t, v = _store(c)
        if t is None or t[0] != "index":
            rep.unknown("TG", u.node, f, "rowFreePos_ update", "shape not recognised")
            continue
        r = t[2]
        guards = ctx.guards(f, u.node) or []
        lo = hi = False
        for gc, val, _a, _b in guards:
            txt = pretty(gc)
            if gc[0] == "bin" and ("rows_[%s].maxX" % pretty(r)) in txt and val is True and gc[1] in ("<", ">"):
                hi = True
            if gc[0] == "bin" and ("rows_[%s].minX" % pretty(r)) in txt and val is True and gc[1] in ("<", ">"):
                lo = True
        if lo and hi:
            rep.holds("TG", u.node, f, "rowFreePos_[%s] advanced only when [x, x+w) overlaps the segment (both sides tested)" % pretty(r))
        else:
            rep.violation("TG", u.node, f, "rowFreePos_[%s] advanced under a one-sided overlap test" % pretty(r),
                          "tests on the segment's %s bound are missing: a cell placed in another segment of the same y moves this segment's free position" % (
                              "lower (minX)" if hi and not lo else ("upper (maxX)" if lo and not hi else "lower and upper")),
                          key="TetrisLegalizer::instanciateCell|one-sided overlap test")


def check_jx(ctx, rep):
    prog = ctx.prog
    for q in ("Legalizer::exportPlacement",):
        f = prog.func1(CQ + q)
        g = cfg_of(f)
        loops = [for_loop_info(x) for x in walk(f.body) if x.get("kind") == "ForStmt"]
        loops = [l for l in loops if l and l["hi"] and l["hi"][0] == "call" and l["hi"][1] == CQ + "Circuit::nbCells"]
        if not loops:
            rep.unknown("JX", f.decl, f, "cell loop", "not found")
            continue
        l = loops[0]
        incs = [x for x in walk(l["body"]) if x.get("kind") == "UnaryOperator" and x.get("opcode") == "++" and canon(x)[2][0] == "var" and canon(x)[2] != l["var"]]
        if not incs:
            rep.unknown("JX", l["stmt"], f, "movable-cell counter", "no second counter incremented in the cell loop (shape changed)")
            continue
        if len(incs) != 1:
            rep.violation("JX", l["stmt"], f, "%d increment(s) of the movable-cell counter in the loop" % len(incs), "exactly one expected",
                          key="%s|counter increments" % f.short)
            continue
        jn = g.node_for(incs[0])
        from .common import subst_counts
        edges = [(subst_counts(canon(a), f.unit), v) for a, v, _e in g.dom_edges(jn)]
        edges = [(c, v) for c, v in edges if "nbCells" not in pretty(c)]
        cname = canon(incs[0])[2][2]
        fixed_only = all((is_fixed_test(c) and v is False) or ("nbCells" in pretty(c)) or (c[0] == "bin" and c[1] in (">=", "<") and cname in pretty(c)) for c, v in edges)
        # every path from the not-fixed edge to the loop increment passes the counter increment
        incn = g.node_for(l["inc"])
        fe = [e for a, v, e in g.dom_edges(jn) if is_fixed_test(canon(a)) and v is False]
        ok = bool(fe) and incn.idx not in g.reachable_from([fe[0]], avoid=[jn]) and fixed_only
        if ok:
            rep.holds("JX", incs[0], f, "++j on every movable-cell path exactly once, never for fixed cells")
        else:
            rep.violation("JX", incs[0], f, "movable-cell counter out of step with the cell loop",
                          "conditions dominating ++j: %s; a path can reach the next cell without incrementing" % [pretty(c) for c, _v in edges],
                          key="%s|counter out of step" % f.short)
    f = prog.func1(CQ + "Legalizer::fromIspdCircuit")
    pushes = {}
    g = cfg_of(f)
    for x in walk(f.body):
        if x.get("kind") == "CXXMemberCallExpr" and callee_info(x)["name"] in ("push_back", "emplace_back"):
            oc = canon(callee_info(x)["obj"])
            if oc[0] == "var":
                pushes.setdefault(oc[2], []).append(x)
    vecs = ["widths", "heights", "polarities", "x", "y", "orient"]
    if all(v in pushes and len(pushes[v]) == 1 for v in vecs):
        sets = []
        for v in vecs:
            n = g.node_for(pushes[v][0])
            sets.append({(pretty(canon(a)), val) for a, val, _e in g.dom_edges(n)})
        fixedskip = all(any("cellIsFixed_" in p or "isFixed" in p for p, val in s if val is False) for s in sets)
        if all(s == sets[0] for s in sets) and fixedskip:
            rep.holds("JX", pushes["widths"][0], f, "the six per-movable-cell vectors are filled together, once per non-fixed cell")
        else:
            rep.violation("JX", pushes["widths"][0], f, "per-movable-cell vectors are not filled together", "the legalizer's cell index would not match across vectors",
                          key="Legalizer::fromIspdCircuit|vectors out of step")
    else:
        rep.unknown("JX", f.decl, f, "model vectors", "expected one push into each of %s" % vecs)


def check_row_sweeps(ctx, rep):
    """RS. AbacusLegalizer::placeCell and TetrisLegalizer::placeCell look for a row in two sweeps that call the same local
    evaluation with the sweep index: upwards from the closest row, downwards from the row below it. A feasible cell is placed
    only if the sweeps can reach every row: the upward loop runs while index < nbRows(), the downward one while index >= 0."""
    prog = ctx.prog
    for q in ("AbacusLegalizer::placeCell", "TetrisLegalizer::placeCell"):
        fs = prog.func(CQ + q, required=False) or []
        if not fs:
            rep.unknown("RS", None, None, q, "not found")
            continue
        f = fs[0]
        n = 0
        for x in walk(f.body):
            if x.get("kind") != "ForStmt":
                continue
            li = for_loop_info(x)
            if not li or li["step"] not in (1, -1):
                continue
            # the loop must hand its index to a local lambda (the row evaluation)
            calls = [y for y in walk(li["body"]) if y.get("kind") == "CXXOperatorCallExpr" and callee_info(y)["name"] == "operator()"
                     and any(li["var"] in list(subterms(canon(a_))) or canon(a_) == li["var"] for a_ in callee_info(y)["args"])]
            if not calls:
                continue
            n += 1
            c = li["cond"]
            # a stop flag folded into the loop condition (`!canStop && row < nbRows()`): judge the atom that mentions the index
            if c[0] == "bin" and c[1] == "&&":
                atoms = []

                def flat(t):
                    if t[0] == "bin" and t[1] == "&&":
                        flat(t[2]); flat(t[3])
                    else:
                        atoms.append(t)
                flat(c)
                mine = [t for t in atoms if any(u == li["var"] for u in subterms(t))]
                if len(mine) == 1:
                    c = mine[0]
                    if c[0] == "bin" and c[1] in ("<", "!=") and c[2] == li["var"]:
                        li = dict(li, hi=c[3])
            what = "%s: %s sweep `%s`" % (f.short, "upward" if li["step"] == 1 else "downward", pretty(c))
            hi0 = li["hi"]
            if li["step"] == 1 and hi0 is not None and hi0[0] == "call" and hi0[1] in ("rend", "crend") and len(hi0) == 3 and \
                    hi0[2][0] == "field" and hi0[2][1].endswith("::rows_"):
                rep.holds("RS", x, f, what, "reverse iteration down to the first row")
                continue
            if li["step"] == 1 and hi0 is not None and hi0[0] == "call" and hi0[1] in ("end", "cend") and len(hi0) == 3 and \
                    hi0[2][0] == "field" and hi0[2][1].endswith("::rows_"):
                rep.holds("RS", x, f, what, "iteration up to the last row")
                continue
            if li["step"] == 1:
                hi = li["hi"]
                full = hi is not None and ((hi[0] == "call" and hi[1] == CQ + "LegalizerBase::nbRows") or
                                           (hi[0] == "call" and hi[1] == "size" and len(hi) == 3 and hi[2][0] == "field" and hi[2][1].endswith("::rows_")))
                if full:
                    rep.holds("RS", x, f, what, "reaches the last row")
                elif hi is not None and hi[0] == "bin" and hi[1] == "-" and hi[3][0] == "lit":
                    rep.violation("RS", x, f, what, "stops before the last row: a cell that only fits there is reported as unplaceable",
                                  key="%s|upward sweep misses rows" % f.short)
                else:
                    rep.unknown("RS", x, f, what, "upper bound not recognised as the number of rows")
            else:
                v = li["var"]
                m1 = (("un", "-", ("lit", "1")), ("lit", "-1"))
                ok = c in (("bin", ">=", v, ("lit", "0")), ("bin", "<=", ("lit", "0"), v)) or \
                    (c[0] == "bin" and c[1] in (">", "!=") and c[2] == v and c[3] in m1) or (c[0] == "bin" and c[1] == "<" and c[3] == v and c[2] in m1)
                short_ = c[0] == "bin" and ((c[1] == ">" and c[2] == v and c[3][0] == "lit" and str(c[3][1]) != "-1") or
                                            (c[1] == ">=" and c[2] == v and c[3][0] == "lit" and str(c[3][1]) not in ("0",)))
                if ok:
                    rep.holds("RS", x, f, what, "reaches row 0")
                elif short_:
                    rep.violation("RS", x, f, what, "never visits the lowest row(s): a cell that only fits in row 0 is reported as unplaceable although "
                                  "a legal placement exists", key="%s|downward sweep misses row 0" % f.short)
                else:
                    rep.unknown("RS", x, f, what, "lower bound not recognised")
        if n == 0:
            rep.unknown("RS", f.decl, f, "row sweeps of %s" % q, "no index loop calling a local evaluation found (shape changed)")


def check_interval_emission(ctx, rep):
    from .common import binding_source
    """IE. TetrisLegalizer::getPossibleIntervals intersects the free x-intervals [b1, e1] of one row with those [b2, e2] of the rows
    above and emits [max(b1, b2), min(e1, e2)]. The emitted interval must be non-empty: min(e1, e2) >= max(b1, b2) has to follow
    from the conditions that dominate the emission (each input interval is non-empty by construction: hypothesis b <= e).
    An inverted interval makes std::clamp return a position that is free on one of the rows only."""
    from ..order import Facts, Prover
    prog = ctx.prog
    fs = [f_ for f_ in prog.funcs.values() if f_.cls == CQ + "TetrisLegalizer" and f_.body is not None]
    if not fs:
        rep.unknown("IE", None, None, "TetrisLegalizer", "not found")
        return
    n = 0
    for f, x in [(f_, x_) for f_ in fs for x_ in walk(f_.body)]:
        if x.get("kind") != "CXXMemberCallExpr" or callee_info(x)["name"] not in ("emplace_back", "push_back"):
            continue
        a = [canon(y) for y in callee_info(x)["args"]]
        if len(a) == 1 and a[0][0] in ("construct", "call", "initlist") and len(a[0]) >= 4:
            a = [t for t in a[0][2:] if isinstance(t, tuple)][-2:]
        if len(a) != 2:
            continue
        lo, hi = a
        if not (lo[0] == "call" and lo[1] == "max" and hi[0] == "call" and hi[1] == "min"):
            continue
        n += 1
        F = Facts()
        for gc, val, _a, _b in (ctx.guards(f, x) or []):
            F.add_cond(gc, val)
        # each input interval is a (begin, end) pair bound from a list of non-empty intervals: begin <= end
        los = [t for t in lo[3:]]
        his = [t for t in hi[3:]]
        for b_ in los:
            for e_ in his:
                bs1 = binding_source(f, b_[1]) if b_[0] == "var" else None
                bs2 = binding_source(f, e_[1]) if e_[0] == "var" else None
                if bs1 and bs2 and bs1[2] is bs2[2] and bs1[1] == 0 and bs2[1] == 1:
                    F.add(e_, ">=", b_)
        P = Prover(F, orthant=False)
        what = "emitted interval [%s, %s]" % (pretty(lo), pretty(hi))
        if P.prove_ge(hi, lo):
            rep.holds("IE", x, f, what, "non-empty by the dominating conditions")
        else:
            cm = P.countermodel(hi, lo)
            if cm is not None:
                env, va, vb = cm
                rep.violation("IE", x, f, what, "can be inverted (end %s < begin %s, e.g. %s): the conditions under which it is emitted do not make "
                              "the two intervals meet" % (va, vb, ", ".join("%s=%s" % kv for kv in sorted(env.items())[:6])),
                              key="TetrisLegalizer::getPossibleIntervals|empty intersection emitted")
            else:
                rep.unknown("IE", x, f, what, "neither provable nor refutable")
    if n == 0:
        rep.unknown("IE", fs[0].decl, fs[0], "intersection of intervals", "no [max(b1, b2), min(e1, e2)] emission found in TetrisLegalizer (shape changed)")


def check_interval_bounds(ctx, rep):
    """IB. The free intervals of TetrisLegalizer::getPossibleIntervals(w, ...) are consumed by std::clamp(x, b, e): both ends are
    positions the cell may take. The end of a base interval, built from the right end of a row segment, therefore has to leave room for
    the whole width: e + w <= rows_[r].maxX follows from its definition and the conditions dominating its emission. A half-open end
    (maxX - w + 1) lets the clamp put the cell one unit past the end of the segment - into the neighbouring obstruction."""
    from ..order import Facts, Prover
    from .common import binding_source
    prog = ctx.prog
    fs = prog.func(CQ + "TetrisLegalizer::getPossibleIntervals", required=False) or []
    users = [f_ for f_ in prog.all_funcs(with_lambdas=True) if f_.body is not None and (f_.cls == CQ + "TetrisLegalizer" or (getattr(f_, "lam_parent", None) is not None and f_.outer.cls == CQ + "TetrisLegalizer"))]
    closed = 0
    other = 0
    for f in users:
        for x in walk(f.body):
            if x.get("kind") != "CallExpr" or callee_info(x)["name"] != "clamp":
                continue
            a = [canon(y) for y in callee_info(x)["args"]]
            def pair_member(t, which):
                # P.first / P.second (also through ->) of one pair-typed expression P
                return t[0] == "field" and str(t[1]).endswith("pair<int, int>::" + which) or (t[0] == "field" and str(t[1]).split("::")[-1] == which)
            if len(a) == 3 and all(t[0] == "var" and binding_source(f, t[1]) for t in a[1:]) and \
                    binding_source(f, a[1][1])[2] is binding_source(f, a[2][1])[2] and binding_source(f, a[1][1])[1] == 0 and binding_source(f, a[2][1])[1] == 1:
                closed += 1
            elif len(a) == 3 and pair_member(a[1], "first") and pair_member(a[2], "second") and a[1][2] == a[2][2]:
                closed += 1
            else:
                other += 1
    if not fs or closed == 0 or other:
        rep.unknown("IB", None, None, "consumer of the free intervals", "std::clamp(x, begin, end) on the pairs of getPossibleIntervals not found, or another form next to it: "
                    "whether the interval ends are positions or one past them is not known")
        return
    n = 0
    for f in [f_ for f_ in prog.funcs.values() if f_.cls == CQ + "TetrisLegalizer" and f_.body is not None]:
        wpar = f.params[0] if f.params else None
        for x in walk(f.body):
            if x.get("kind") != "CXXMemberCallExpr" or callee_info(x)["name"] not in ("emplace_back", "push_back"):
                continue
            if "pair<int, int>" not in qt(callee_info(x)["obj"] or {}) and "Interval" not in qt(callee_info(x)["obj"] or {}):
                continue
            a = [canon(y) for y in callee_info(x)["args"]]
            if len(a) == 1 and a[0][0] in ("construct", "call", "initlist") and len(a[0]) >= 4:
                a = [t for t in a[0][2:] if isinstance(t, tuple)][-2:]
            if len(a) != 2 or (a[0][0] == "call" and a[0][1] == "max"):
                continue
            e = expand_locals(ctx, f, a[1])
            ends = [t for t in subterms(e) if isinstance(t, tuple) and t and t[0] == "field" and str(t[1]).endswith("::maxX")]
            if wpar is None or len(set(ends)) != 1:
                continue
            # the width is the parameter the end is computed from (the first one when none appears)
            inpar = [p_ for p_ in f.params if any(t == ("var", p_.get("id"), p_.get("name")) for t in subterms(e))]
            if len(inpar) == 1:
                wpar = inpar[0]
            n += 1
            F = Facts()
            for gc, val, _a, _b in (ctx.guards(f, x) or []):
                F.add_cond(expand_locals(ctx, f, gc), val)
            P = Prover(F, orthant=False)
            w = ("var", wpar.get("id"), wpar.get("name"))
            room = ("bin", "-", ends[0], w)
            what = "base interval ending at %s, consumed by clamp(x, begin, end)" % pretty(e)[:40]
            if P.prove_ge(room, e):
                rep.holds("IB", x, f, what, "end + w <= %s: the last admissible position keeps the cell inside the segment" % pretty(ends[0])[:30])
            else:
                cm = P.countermodel(room, e)
                if cm is not None:
                    rep.violation("IB", x, f, what, "the end is itself a position the clamp can return, and end + w can exceed %s (e.g. %s): the cell sticks out of "
                                  "the row segment by the difference" % (pretty(ends[0])[:30], ", ".join("%s=%s" % kv for kv in sorted(cm[0].items())[:5])),
                                  key="TetrisLegalizer::getPossibleIntervals|interval end is not an admissible position")
                else:
                    rep.unknown("IB", x, f, what, "neither provable nor refutable")
    if n == 0:
        rep.unknown("IB", fs[0].decl, fs[0], "base intervals", "no interval built from the right end of a row segment found (shape changed)")


def check_interval_recursion(ctx, rep):
    """TC (search side). TetrisLegalizer::getPossibleIntervals(w, h, y) intersects the free intervals of the row at y with those of the
    rows above by calling itself with (h - H, y + H); it may stop only when the remaining height fits the current row (h <= H). A stop
    decided on a truncating quotient (h / H <= 1) ends one row early for heights that are not a multiple of the row height: the top,
    partially covered row is never examined and a cell is placed over an obstruction or out of the rows - without any error."""
    prog = ctx.prog
    fs = prog.func(CQ + "TetrisLegalizer::getPossibleIntervals", required=False) or []
    if not fs or len(fs[0].params) < 3:
        rep.unknown("TC", None, None, "getPossibleIntervals", "not found")
        return
    f = fs[0]
    hv = ("var", f.params[1].get("id"), f.params[1].get("name"))
    yv = ("var", f.params[2].get("id"), f.params[2].get("name"))
    H = ("call", CQ + "LegalizerBase::rowHeight", ("this",))
    rec = [x for x in walk(f.body) if x.get("kind") == "CXXMemberCallExpr" and callee_info(x)["qname"] == f.qname]
    if not rec:
        rep.unknown("TC", f.decl, f, "getPossibleIntervals", "no recursive call for the rows above (shape changed)")
        return
    for x in rec:
        a = [expand_locals(ctx, f, canon(t)) for t in callee_info(x)["args"]]
        ok_args = len(a) >= 3 and a[1] == ("bin", "-", hv, H) and a[2] == ("bin", "+", yv, H)
        gs = [(expand_locals(ctx, f, gc), val) for gc, val, _a, asr in (ctx.guards(f, x) or []) if not asr]
        fits, quot = False, None
        for gc, val in gs:
            if gc[0] == "bin" and gc[2] == hv and gc[3] == H and ((gc[1] == "<=" and val is False) or (gc[1] == ">" and val is True)):
                fits = True
            if any(isinstance(t, tuple) and t and t[0] == "bin" and t[1] == "/" and hv in list(subterms(t[2])) + [t[2]] for t in subterms(gc)):
                quot = gc
        what = "getPossibleIntervals looks at the rows above through (h - H, y + H)"
        if quot is not None and not fits:
            rep.violation("TC", x, f, what, "only while %s, a truncating quotient of the height by the row height: a height between two multiples of "
                          "the row height loses its top, partially covered row" % pretty(quot)[:60], key="TetrisLegalizer::getPossibleIntervals|stop on a truncated quotient")
        elif ok_args and fits:
            rep.holds("TC", x, f, what, "whenever h > H: every row the cell touches is examined")
        else:
            rep.unknown("TC", x, f, what, "arguments %s / stop condition not recognised" % [pretty(t)[:20] for t in a[1:3]])
