"""C17 — the continuous solver honours real-valued net weights proportionally.

QT   every storage location / accessor on the weight path has a floating-point type and no
     weight-carrying value is converted to an integer
QD   homogeneity typing: every coefficient put into the matrix and every right-hand-side increment
     is homogeneous of degree exactly 1 in (net weights, penalty strengths); so scaling all of them by
     a common factor scales (A, b) to (kA, kb) and leaves the solution unchanged
QH   every comparison in MatrixCreator has sides of equal degree (or a literal 0), and every Eigen solver setting
     (setTolerance, setMaxIterations) has degree 0: branches and stopping rule do not depend on the scale of the weights
QR   the only degree-0 term (diagonal regulariser) touches only unknowns no weighted term mentions
PV   provenance: the weight given to Circuit::addNet reaches NetModel::netWeight_ unchanged
"""
from ..frontend import AnalysisBroken
from ..model import qt, loc_str, walk, inner, desugared
from ..expr import canon, pretty, children, strip, callee_info, subterms, CALL_KINDS, ref_decl
from ..cfg import cfg_of
from .common import CQ, short, expand_locals

EXPLANATION = (
    "Static typing check on the clang-resolved AST of net_model.cpp/.hpp, place_global.cpp and coloquinte.hpp/.cpp. "
    "QT: every declaration on the weight path (Circuit::netWeights_, NetModel::netWeight_, the weight parameters of "
    "Circuit::addNet / NetModel::addNet / MatrixCreator::addPin*, the return type of netWeight()) has a floating-point "
    "(element) type, and no implicit FloatingToIntegral conversion or explicit integral cast has a weight-carrying operand. "
    "QD: a homogeneity-degree type system (weights and penalty strengths degree 1; positions, offsets, epsilon, pin counts and "
    "literals degree 0; * adds, / subtracts, +,-,min,max require equal degrees) is evaluated over every expression stored into "
    "MatrixCreator::mat_ (triplet value), added to rhs_, or passed as the weight of addPin/addMovingPin/addFixedPin; each must "
    "have degree exactly 1. QR: the single degree-0 matrix entry (the 1e-8 regulariser in finalize) is edge-dominated by "
    "hasNonZero_[i] == 0 and every weighted entry marks its rows in hasNonZero_. PV: x/yTopology pass circuit.netWeight(i); every "
    "NetModel::addNet overload forwards its own weight parameter (never a default) down to netWeight_.push_back(weight).")

DECLINED = ["that the conjugate-gradient result is the least-squares optimum (solver numerics)",
            "scaling exactness beyond the structure of (A, b): rounding inside Eigen"]

FLOATS = ("float", "double", "long double")
WEIGHT_SOURCES = {CQ + "NetModel::netWeight", CQ + "Circuit::netWeight"}
PIN_FUNCS = ["MatrixCreator::addPin", "MatrixCreator::addMovingPin", "MatrixCreator::addFixedPin"]


def is_float_type(t):
    t = t.replace("const ", "").replace("&", "").strip()
    if t in FLOATS:
        return True
    for f in FLOATS:
        if t in ("std::vector<%s>" % f, "vector<%s>" % f):
            return True
    return False


class Degrees:
    """Homogeneity degree of canonical expressions inside one function."""

    def __init__(self, ctx, func, deg1_params=(), deg1_vec_params=()):
        self.ctx = ctx
        self.func = func
        self.p1 = set(deg1_params)
        self.v1 = set(deg1_vec_params)
        self.memo = {}
        self.assigns = None

    def var_decl(self, vid):
        return self.func.unit.by_id.get(vid)

    def var_degree(self, vid, name):
        if vid in self.memo:
            return self.memo[vid]
        self.memo[vid] = 1 if vid in self.p1 else 0   # cycle guard (loop-carried): resolved below
        d = self.var_decl(vid)
        degs = set()
        if vid in self.p1:
            degs.add(1)
        elif d is not None:
            if d.get("kind") in ("BindingDecl",):
                degs.add(0)
            init = children(d) if d.get("kind") == "VarDecl" else []
            if init:
                degs.add(self.degree(canon(init[-1], refs=False)))
            elif d.get("kind") in ("ParmVarDecl",):
                degs.add(0)
        # assignments to the variable
        for x in walk(self.func.body):
            if x.get("kind") in ("BinaryOperator", "CompoundAssignOperator") and x.get("opcode") in ("=", "+=", "-="):
                l, r = children(x)
                lc = canon(l, refs=False)
                if lc[0] == "var" and lc[1] == vid:
                    degs.add(self.degree(canon(r, refs=False)))
            elif x.get("kind") == "CompoundAssignOperator" and x.get("opcode") in ("*=", "/="):
                l, r = children(x)
                lc = canon(l, refs=False)
                if lc[0] == "var" and lc[1] == vid:
                    dr = self.degree(canon(r, refs=False))
                    if dr != 0:
                        degs.add("mix")
        degs.discard(None)
        if not degs:
            res = 0
        elif len(degs) == 1:
            res = degs.pop()
        else:
            res = "mix"
        self.memo[vid] = res
        return res

    def degree(self, c):
        t = c[0]
        if t == "lit":
            try:
                if float(str(c[1]).rstrip("fFlLuU")) == 0.0:
                    return None      # literal zero is homogeneous of every degree
            except ValueError:
                pass
            return 0
        if t == "var":
            return self.var_degree(c[1], c[2])
        if t == "index":
            b = c[1]
            if b[0] == "var" and b[1] in self.v1:
                return 1
            if b[0] == "field":
                return field_degree(self.ctx, b[1])
            return 0
        if t == "call":
            q = c[1]
            if q in WEIGHT_SOURCES:
                return 1
            name = q.split("::")[-1]
            args = [a for a in c[3:]]
            if name in ("max", "min", "fmax", "fmin"):
                ds = {self.degree(a) for a in args} - {None}
                return (ds.pop() if ds else None) if len(ds) <= 1 else "mix"
            if name in ("abs", "fabs", "round", "floor", "ceil"):
                return self.degree(args[0]) if args else 0
            if name in ("sqrt",):
                d = self.degree(args[0]) if args else 0
                return d if d in (0, None) else "mix"
            obj = c[2] if c[2] not in (("none",), ("this",)) else None
            if name in ("norm", "sum", "mean", "maxCoeff", "minCoeff", "lpNorm", "stableNorm", "data", "begin", "end", "cbegin", "cend",
                        "front", "back", "at") and obj is not None:
                return self.degree(obj)
            if name in ("size", "rows", "cols", "empty", "nonZeros"):
                return 0
            if name == "squaredNorm" and obj is not None:
                d = self.degree(obj)
                return d * 2 if isinstance(d, int) else d
            # any other call: degree 0 if neither the object nor an argument carries weight
            ds = {self.degree(a) for a in args} | ({self.degree(obj)} if obj is not None else set())
            if ds <= {0, None}:
                return 0
            return "mix"
        if t == "bin":
            op, a, b = c[1], self.degree(c[2]), self.degree(c[3])
            if op in ("<", ">", "<=", ">=", "==", "!=", "&&", "||"):
                return 0
            if "mix" in (a, b):
                return "mix"
            if op == "*":
                return None if a is None or b is None else a + b
            if op == "/":
                if b is None:
                    return "mix"
                return None if a is None else a - b
            if op in ("+", "-"):
                if a is None:
                    return b
                if b is None:
                    return a
                return a if a == b else "mix"
            return "mix" if (a or b) else 0
        if t == "un":
            return self.degree(c[2])
        if t == "cond":
            a, b = self.degree(c[2]), self.degree(c[3])
            if a is None:
                return b
            if b is None:
                return a
            return a if a == b else "mix"
        if t == "field":
            return field_degree(self.ctx, c[1])
        if t in ("enum", "this", "none", "decl", "defaultarg", "sizeof"):
            return 0
        if t in ("deref", "elem"):
            return self.degree(c[1])
        if t == "construct":
            ds = {self.degree(a) for a in c[2:]}
            return ds.pop() if len(ds) == 1 else ("mix" if ds else 0)
        return 0



_WP_MEMO = {}


def weight_params(ctx):
    """Role-based identification of weight parameters, independent of their names: a parameter is a *weight* when it is pushed into
    Circuit::netWeights_ / NetModel::netWeight_, is the value of a mat_ triplet, or is forwarded in the position of a weight
    parameter of another function. Returns {func key: set(param index)}."""
    key = id(ctx)
    if key in _WP_MEMO:
        return _WP_MEMO[key]
    prog = ctx.prog
    marks = {}
    sinks = {CQ + "NetModel::netWeight_", CQ + "Circuit::netWeights_"}
    scope = [f for f in prog.funcs.values() if f.body is not None and f.cls in (CQ + "NetModel", CQ + "Circuit", CQ + "MatrixCreator")]

    def pidx(f, c):
        if c[0] == "var":
            for i, p in enumerate(f.params):
                if p.get("id") == c[1]:
                    return i
        return None

    for f in scope:
        for x in walk(f.body):
            if x.get("kind") != "CXXMemberCallExpr":
                continue
            ci = callee_info(x)
            if not ci or ci["obj"] is None or ci["name"] not in ("push_back", "emplace_back"):
                continue
            oc = canon(ci["obj"])
            if oc[0] == "field" and oc[1] in sinks and ci["args"]:
                i = pidx(f, canon(ci["args"][0], refs=False))
                if i is not None:
                    marks.setdefault(f.key, set()).add(i)
            if oc == ("field", CQ + "MatrixCreator::mat_", ("this",)) and len(ci["args"]) == 3:
                i = pidx(f, canon(ci["args"][2], refs=False))
                if i is not None:
                    marks.setdefault(f.key, set()).add(i)
    changed = True
    while changed:
        changed = False
        for f in scope:
            for x in walk(f.body):
                if x.get("kind") not in ("CXXMemberCallExpr", "CallExpr"):
                    continue
                _ci, fs = ctx.eff.resolve_callee(x)
                ci = callee_info(x)
                for g in fs:
                    for j in marks.get(g.key, ()):
                        if j < len(ci["args"]):
                            i = pidx(f, canon(ci["args"][j], refs=False))
                            if i is not None and i not in marks.get(f.key, set()):
                                marks.setdefault(f.key, set()).add(i)
                                changed = True
    _WP_MEMO[key] = marks
    return marks


def weight_param_of(ctx, f):
    """The weight parameters (decl nodes) of function f."""
    idx = weight_params(ctx).get(f.key, set())
    return [p for i, p in enumerate(f.params) if i in idx]

_FIELD_MEMO = {}
DEG1_FIELDS = ("MatrixCreator::rhs_", "MatrixCreator::mat_")


def field_degree(ctx, q):
    """Homogeneity degree of a data member: rhs_ and mat_ are degree 1 by rule QD itself; an arithmetic member gets the common
    degree of everything its class assigns to it (constructor initialisers included); other members carry no weight."""
    if q in (CQ + f for f in DEG1_FIELDS) or q in (CQ + "NetModel::netWeight_", CQ + "Circuit::netWeights_"):
        return 1
    key = (id(ctx), q)
    if key in _FIELD_MEMO:
        return _FIELD_MEMO[key]
    _FIELD_MEMO[key] = 0
    owner = q.rsplit("::", 1)[0]
    if owner not in (CQ + "MatrixCreator", CQ + "NetModel"):
        return 0
    degs = set()
    for f in ctx.prog.funcs.values():
        if f.cls != owner:
            continue
        deg = None
        for ci_ in f.ctor_inits:
            an = ci_.get("anyInit") or {}
            d = f.unit.by_id.get(an.get("id")) if an.get("id") else None
            if d is not None and d.get("_q") == q and children(ci_):
                deg = deg or degrees_for(ctx, f)
                degs.add(deg.degree(canon(children(ci_)[-1], refs=False)))
        if f.body is None:
            continue
        for x in walk(f.body):
            if x.get("kind") in ("BinaryOperator", "CompoundAssignOperator") and x.get("opcode") in ("=", "+=", "-=", "*=", "/="):
                l, r = children(x)
                lc = canon(l, refs=False)
                if lc == ("field", q, ("this",)):
                    deg = deg or degrees_for(ctx, f)
                    dr = deg.degree(canon(r, refs=False))
                    if x.get("opcode") in ("*=", "/="):
                        if dr not in (0, None):
                            degs.add("mix")
                    else:
                        degs.add(dr)
    degs.discard(None)
    res = 0 if not degs else (degs.pop() if len(degs) == 1 else "mix")
    _FIELD_MEMO[key] = res
    return res


def run(ctx, rep, tier):
    prog, eff = ctx.prog, ctx.eff
    _FIELD_MEMO.clear()
    _WP_MEMO.clear()
    rep.rule("QH", "comparisons and solver settings on the weight path are scale-free: equal degrees compared, degree-0 settings", 10)
    rep.rule("QT", "weight path is floating-point end to end; no float-to-int conversion of a weight-carrying value", 6)
    rep.rule("QD", "matrix coefficients, rhs increments and pin weights are homogeneous of degree 1 in (weights, penalties)", 20)
    rep.rule("QR", "the degree-0 regulariser only touches rows without any weighted entry", 3)
    rep.rule("PE", "every cell gets its penalty spring and every net its own pin count: no term dropped by a position test, no model-wide count in a per-net weight", 2)
    rep.rule("PV", "net weight provenance Circuit -> NetModel::netWeight_ (explicit forwarding, no default)", 5)
    rep.rule("SN", "the extreme pins of a net are found by running extrema started on the neutral side", 2)
    rep.rule("B2", "bound-to-bound stamping: the two bound pins of a net are distinct pins, so no pin pair is stamped twice", 1)
    check_qt(ctx, rep)
    check_qd(ctx, rep)
    check_qh(ctx, rep)
    check_pv(ctx, rep)
    check_weights_replaced(ctx, rep)
    check_no_truncation(ctx, rep)
    check_terms(ctx, rep)
    check_double_stamp(ctx, rep)
    from .common import check_sentinels
    fs = [g for g in prog.funcs.values() if g.cls == CQ + "NetModel" and g.body is not None]
    if check_sentinels(ctx, rep, "SN", fs) == 0:
        rep.unknown("SN", None, None, "NetModel", "no running minimum / maximum found (shape changed)")


# ---- QT --------------------------------------------------------------------

def check_qt(ctx, rep):
    prog = ctx.prog
    decls = [(CQ + "Circuit", "netWeights_"), (CQ + "NetModel", "netWeight_")]
    for cls, name in decls:
        r = prog.records.get(cls)
        if not r or name not in r["fields"]:
            raise AnalysisBroken("weight storage %s::%s not found" % (cls, name))
        fd = r["fields"][name]
        t = desugared(fd) or qt(fd)
        if is_float_type(qt(fd)) or "vector<float" in t or "vector<double" in t:
            rep.holds("QT", fd, None, "%s::%s is %s" % (short(cls), name, qt(fd)))
        else:
            rep.violation("QT", fd, None, "%s::%s has type %s" % (short(cls), name, qt(fd)),
                          "net weights are real-valued; an integral container truncates them (0.5 -> 0)",
                          key="%s::%s|non-floating weight storage" % (short(cls), name))
    # accessors and weight parameters
    for q in (CQ + "Circuit::netWeight", CQ + "NetModel::netWeight"):
        for f in prog.func(q):
            rt = f.type.split("(")[0].strip()
            if rt in FLOATS:
                rep.holds("QT", f.decl, f, "%s returns %s" % (f.short, rt))
            else:
                rep.violation("QT", f.decl, f, "%s returns %s" % (f.short, rt), "weight accessor must return a floating-point value",
                              key="%s|non-floating return" % f.short)
    # the accessors hand out the stored weight itself: homogeneous of degree 1 in the weights (every user of netWeight() is typed on that basis)
    for q in sorted(WEIGHT_SOURCES):
        for f in prog.func(q, required=False) or []:
            if f.body is None:
                continue
            dg = Degrees(ctx, f, set(), set())
            for x in walk(f.body):
                if x.get("kind") == "ReturnStmt" and children(x):
                    d_ = dg.degree(canon(children(x)[0], refs=False))
                    if d_ == 1:
                        rep.holds("QD", x, f, "%s returns a value of degree 1 in the weights" % f.short)
                    else:
                        rep.violation("QD", x, f, "%s returns %s, of degree %s in the weights" % (f.short, pretty(canon(children(x)[0]))[:80], d_),
                                      "the accessor is the unit every net term is stamped in; penalties are stamped in the caller's unit, so a weight "
                                      "normalised or offset here changes the balance between nets and penalties when all are scaled together",
                                      key="%s|accessor not of degree 1" % f.short)
    wparams = []
    for q in (CQ + "Circuit::addNet", CQ + "NetModel::addNet", CQ + "MatrixCreator::addPin",
              CQ + "MatrixCreator::addMovingPin", CQ + "MatrixCreator::addFixedPin"):
        for f in prog.func(q):
            for p in weight_param_of(ctx, f):
                wparams.append((f, p))
    for f, p in wparams:
        if qt(p).replace("const ", "").strip() in FLOATS:
            rep.holds("QT", p, f, "parameter weight of %s is %s" % (f.short, qt(p)))
        else:
            rep.violation("QT", p, f, "parameter weight of %s is %s" % (f.short, qt(p)), "weight parameter must be floating-point",
                          key="%s|non-floating weight parameter" % f.short)
    # no float->int conversion with a weight-carrying operand, in the units that handle weights
    n = 0
    for f in prog.all_funcs(with_lambdas=False):
        if not (f.cls in (CQ + "NetModel", CQ + "MatrixCreator", CQ + "Circuit", CQ + "GlobalPlacer")):
            continue
        deg = None
        for x in walk(f.body):
            k = x.get("kind")
            conv = (k == "ImplicitCastExpr" and x.get("castKind") == "FloatingToIntegral") or \
                   (k in ("CStyleCastExpr", "CXXStaticCastExpr", "CXXFunctionalCastExpr") and x.get("castKind") == "FloatingToIntegral")
            if not conv:
                continue
            if deg is None:
                deg = degrees_for(ctx, f)
            n += 1
            d = deg.degree(canon(children(x)[0], refs=False))
            if d != 0:
                rep.violation("QT", x, f, "weight-carrying value converted to %s" % qt(x),
                              "operand %s has weight degree %s" % (pretty(canon(children(x)[0])), d),
                              key="%s|weight truncated to integer" % f.short)
    rep.extra["float_to_int_conversions_examined"] = n


def degrees_for(ctx, f):
    p1 = {p.get("id") for p in weight_param_of(ctx, f)}
    v1 = {p.get("id") for p in f.params if p.get("name") in ("penaltyStrength", "penalty") and "vector" in qt(p)}
    return Degrees(ctx, f, p1, v1)


def _mentions_float_vector_param(ctx, f, c):
    from .common import expand_locals
    vp = {p.get("id") for p in f.params if "vector<float" in qt(p) or "vector<double" in qt(p)}
    e = expand_locals(ctx, f, c)
    return any(t[0] == "var" and t[1] in vp for t in subterms(e))


# ---- QD / QR ---------------------------------------------------------------------

def check_qd(ctx, rep):
    prog = ctx.prog
    mc = CQ + "MatrixCreator"
    if mc not in prog.records:
        raise AnalysisBroken("class MatrixCreator not found")
    pin_qs = {CQ + q for q in PIN_FUNCS}
    marks = {}
    for f in prog.funcs.values():
        if f.cls != mc:
            continue
        deg = degrees_for(ctx, f)
        g = cfg_of(f)
        for x in walk(f.body):
            k = x.get("kind")
            if k == "CXXMemberCallExpr":
                ci = callee_info(x)
                oc = canon(ci["obj"]) if ci["obj"] is not None else ("none",)
                # mat_.emplace_back(r, c, value)
                if ci["name"] in ("emplace_back", "push_back") and oc == ("field", mc + "::mat_", ("this",)):
                    args = ci["args"]
                    if len(args) == 1:
                        inner_c = canon(args[0])
                        vals = list(inner_c[2:]) if inner_c[0] == "construct" else []
                    else:
                        vals = [canon(a, refs=False) for a in args]
                    if len(vals) != 3:
                        rep.unknown("QD", x, f, "matrix entry", "triplet shape not recognised: %s" % pretty(canon(x)))
                        continue
                    d = deg.degree(vals[2])
                    what = "mat_ entry (%s, %s) = %s" % (pretty(vals[0]), pretty(vals[1]), pretty(vals[2]))
                    if d == 1:
                        rep.holds("QD", x, f, what, "degree 1")
                        marks.setdefault(f.short, []).append((x, vals[0], vals[1]))
                    elif d == 0:
                        check_regulariser(ctx, rep, f, x, vals, what)
                    else:
                        rep.violation("QD", x, f, what, "homogeneity degree %s in (weights, penalties); must be exactly 1" % d,
                                      key="%s|matrix entry of degree %s" % (f.short, d))
                # calls to the pin functions: weight argument
                elif ci["qname"] in pin_qs:
                    callee = prog.func1(ci["qname"])
                    wi = sorted(weight_params(ctx).get(callee.key, ()))
                    if not wi or wi[0] >= len(ci["args"]):
                        rep.unknown("QD", x, f, "pin weight", "weight parameter position not found")
                        continue
                    wc = canon(ci["args"][wi[0]], refs=False)
                    d = deg.degree(wc)
                    what = "%s(..., weight=%s)" % (ci["name"], pretty(wc))
                    if d == 1:
                        rep.holds("QD", x, f, what, "degree 1")
                    elif d == 0 and not deg.p1 and not deg.v1 and _mentions_float_vector_param(ctx, f, wc):
                        rep.unknown("QD", x, f, what, "no declared source of degree 1 (net weight / penalty strength) is recognised in %s although the "
                                    "argument derives from a float-vector parameter: the strengths parameter was probably renamed" % f.short)
                    else:
                        rep.violation("QD", x, f, what, "weight argument has homogeneity degree %s; must be exactly 1 "
                                      "(a constant or weight-free strength does not scale with the weights)" % d,
                                      key="%s|pin weight of degree %s" % (f.short, d))
            elif k == "CompoundAssignOperator" and x.get("opcode") in ("+=", "-="):
                l, r = children(x)
                lc = canon(l)
                if lc[0] == "index" and lc[1] == ("field", mc + "::rhs_", ("this",)):
                    d = deg.degree(canon(r, refs=False))
                    what = "rhs_[%s] %s %s" % (pretty(lc[2]), x.get("opcode"), pretty(canon(r)))
                    if d == 1:
                        rep.holds("QD", x, f, what, "degree 1")
                    else:
                        rep.violation("QD", x, f, what, "right-hand side increment has degree %s; must be exactly 1" % d,
                                      key="%s|rhs increment of degree %s" % (f.short, d))
            elif k == "BinaryOperator" and x.get("opcode") == "=":
                l, r = children(x)
                lc = canon(l)
                if lc[0] == "index" and lc[1] == ("field", mc + "::rhs_", ("this",)):
                    rep.violation("QD", x, f, "rhs_[%s] overwritten" % pretty(lc[2]), "the right-hand side is accumulated, never assigned",
                                  key="%s|rhs overwritten" % f.short)
    # QR part 2: every weighted entry marks its rows
    for fs, entries in marks.items():
        f = [ff for ff in prog.funcs.values() if ff.short == fs][0]
        rows = set()
        for _x, r, c in entries:
            rows.add(r)
        marked = set()
        for x in walk(f.body):
            if x.get("kind") == "BinaryOperator" and x.get("opcode") == "=":
                l, r = children(x)
                lc = canon(l)
                rc_ = canon(r)
                # the flag is sticky: a mark is the store of a non-zero *constant* (a value that depends on the weight of this stamp
                # would clear the mark an earlier, weighted stamp has set)
                if lc[0] == "index" and lc[1] == ("field", mc + "::hasNonZero_", ("this",)) and rc_[0] == "lit" and str(rc_[1]) not in ("0", "false", "0.0", "'\\0'"):
                    # the mark must happen whenever the entry is made: its guards are a subset of every entry's guards
                    mg = {(gc, val) for gc, val, _a, asr in (ctx.guards(f, x) or []) if not asr}
                    ok = True
                    for ex, er, _ec in entries:
                        if er != lc[2]:
                            continue
                        eg = {(gc, val) for gc, val, _a, asr in (ctx.guards(f, ex) or []) if not asr}
                        if not mg <= eg:
                            ok = False
                    if ok:
                        marked.add(lc[2])
        missing = [r for r in rows if r not in marked]
        if missing:
            rep.violation("QR", f.decl, f, "weighted matrix rows not recorded in hasNonZero_",
                          "rows %s receive weighted entries but are not (unconditionally) marked: finalize() would add the absolute 1e-8 term to them" % [pretty(m) for m in missing],
                          key="%s|rows not marked non-zero" % fs)
        else:
            rep.holds("QR", f.decl, f, "rows %s marked in hasNonZero_" % sorted(pretty(r) for r in rows))


def check_regulariser(ctx, rep, f, x, vals, what):
    """A degree-0 matrix entry is accepted only as the diagonal regulariser: diagonal position, edge-dominated
    by hasNonZero_[row] == 0."""
    mc = CQ + "MatrixCreator"
    guards = ctx.guards(f, x) or []
    ok = False
    for gc, val, _a, _b in guards:
        if gc[0] == "bin" and gc[1] in ("==", "!="):
            for a, b in ((gc[2], gc[3]), (gc[3], gc[2])):
                if a[0] == "index" and a[1] == ("field", mc + "::hasNonZero_", ("this",)) and a[2] == vals[0] and b == ("lit", "0"):
                    if (gc[1] == "==" and val is True) or (gc[1] == "!=" and val is False):
                        ok = True
    if vals[0] != vals[1]:
        rep.violation("QD", x, f, what, "weight-free (degree 0) off-diagonal entry", key="%s|degree-0 off-diagonal entry" % f.short)
    elif ok:
        rep.holds("QR", x, f, what, "degree-0 regulariser, guarded by hasNonZero_[%s] == 0" % pretty(vals[0]))
    else:
        rep.violation("QR", x, f, what,
                      "weight-free (degree 0) diagonal term not restricted to rows without weighted entries: an absolute spring "
                      "that does not scale with the weights", key="%s|unguarded degree-0 diagonal term" % f.short)


# ---- QH: scale-free comparisons and solver settings ----------------------------------------

RELOPS = ("<", ">", "<=", ">=", "==", "!=")


def check_qh(ctx, rep):
    prog = ctx.prog
    mc = CQ + "MatrixCreator"
    ncmp = 0
    for f in prog.funcs.values():
        if f.cls != mc or f.body is None:
            continue
        deg = degrees_for(ctx, f)
        for x in walk(f.body):
            k = x.get("kind")
            if k == "BinaryOperator" and x.get("opcode") in RELOPS:
                l, r = children(x)
                a, b = deg.degree(canon(l, refs=False)), deg.degree(canon(r, refs=False))
                ncmp += 1
                what = "%s: comparison %s" % (f.short, pretty(canon(x))[:80])
                if a is None or b is None or a == b and a != "mix":
                    rep.holds("QH", x, f, what, "both sides have degree %s" % (a if a is not None else b))
                else:
                    rep.violation("QH", x, f, what, "sides have homogeneity degrees %s and %s: a weight-scaled quantity is tested against an "
                                  "absolute one, so scaling all weights changes the branch taken" % (a, b),
                                  key="%s|comparison across degrees" % f.short)
            elif k == "CXXMemberCallExpr":
                ci = callee_info(x)
                if ci and ci["name"].startswith("set") and ci["obj"] is not None and "Eigen::" in (desugared(ci["obj"]) or qt(ci["obj"]) or ""):
                    if ci["name"] == "setFromTriplets":
                        continue
                    for a in ci["args"]:
                        d = deg.degree(canon(a, refs=False))
                        ncmp += 1
                        what = "%s: solver setting %s(%s)" % (f.short, ci["name"], pretty(canon(a))[:60])
                        if d in (0, None):
                            rep.holds("QH", x, f, what, "degree 0: independent of the scale of the weights")
                        else:
                            rep.violation("QH", x, f, what, "the setting has homogeneity degree %s in (weights, penalties): the stopping rule "
                                          "changes when all weights are scaled" % d, key="%s|solver setting depends on the weight scale" % f.short)
    rep.extra["qh_sites"] = ncmp
    # the assembled system is handed to the solver as built: any later arithmetic on the local Eigen matrix / right-hand side must
    # itself be homogeneous of degree 1 (a constant added to the diagonal is an absolute spring)
    for f in prog.funcs.values():
        if f.cls != mc or f.body is None:
            continue
        deg = degrees_for(ctx, f)
        eig = {}
        for x in walk(f.body):
            if x.get("kind") == "VarDecl" and "Eigen::" in (desugared(x) or qt(x) or "") and ("SparseMatrix" in (desugared(x) or qt(x)) or "Matrix<" in (desugared(x) or qt(x))):
                eig[x.get("id")] = x.get("name")
        for x in walk(f.body):
            if x.get("kind") in ("CompoundAssignOperator", "BinaryOperator") and x.get("opcode") in ("+=", "-=", "=", "*=", "/="):
                l, r = children(x)
                lc = canon(l)
                roots = [t for t in subterms(lc) if t[0] == "var" and t[1] in eig]
                if not roots or lc[0] == "var":
                    continue
                ncmp += 1
                d = deg.degree(canon(r, refs=False))
                what = "%s: %s %s %s" % (f.short, pretty(lc)[:40], x.get("opcode"), pretty(canon(r))[:40])
                okd = (d == 1 or d is None) if x.get("opcode") in ("+=", "-=", "=") else (d in (0, None))
                if okd:
                    rep.holds("QH", x, f, what, "the assembled system is modified homogeneously")
                else:
                    rep.violation("QH", x, f, what, "an entry of the assembled system is changed by a quantity of homogeneity degree %s: the solved "
                                  "system no longer scales with the weights" % d, key="%s|assembled system modified with degree %s" % (f.short, d))


# ---- PV --------------------------------------------------------------------------

def check_pv(ctx, rep):
    prog = ctx.prog
    for q in ("NetModel::xTopology", "NetModel::yTopology"):
        from .common import forwarding_target
        f, _env = forwarding_target(ctx, prog.func1(CQ + q))
        calls = [x for x in walk(f.body) if x.get("kind") == "CXXMemberCallExpr" and callee_info(x)["qname"] == CQ + "NetModel::addNet"]
        if not calls:
            rep.unknown("PV", f.decl, f, "addNet call", "no NetModel::addNet call found")
            continue
        for x in calls:
            ci = callee_info(x)
            callee = [g for g in prog.func(CQ + "NetModel::addNet") if len(g.params) == len(ci["args"])]
            wi = sorted(weight_params(ctx).get(callee[0].key, ())) if callee else []
            if not wi:
                rep.violation("PV", x, f, "addNet overload without weight", "the circuit's net weight is not passed to the model",
                              key="%s|weight not passed" % f.short)
                continue
            a = ci["args"][wi[0]]
            ac = canon(a)
            if a.get("kind") == "CXXDefaultArgExpr":
                rep.violation("PV", x, f, "default weight used", "the circuit's net weight is dropped", key="%s|default weight" % f.short)
            elif ac[0] == "call" and ac[1] == CQ + "Circuit::netWeight":
                rep.holds("PV", x, f, "weight argument is %s" % pretty(ac))
            else:
                rep.violation("PV", x, f, "weight argument is %s" % pretty(ac), "expected circuit.netWeight(net)",
                              key="%s|weight argument not circuit.netWeight" % f.short)
    # forwarding inside the overloads
    stored = False
    for f in prog.func(CQ + "NetModel::addNet"):
        wp = weight_param_of(ctx, f)
        for x in walk(f.body):
            if x.get("kind") != "CXXMemberCallExpr":
                continue
            ci = callee_info(x)
            if ci["qname"] == CQ + "NetModel::addNet" and wp:
                callee = [g for g in prog.func(CQ + "NetModel::addNet") if len(g.params) == len(ci["args"])]
                wi = sorted(weight_params(ctx).get(callee[0].key, ())) if callee else []
                if not wi:
                    rep.violation("PV", x, f, "nested addNet drops the weight", "callee overload has no weight parameter",
                                  key="%s|nested addNet without weight" % f.short)
                    continue
                a = ci["args"][wi[0]]
                if a.get("kind") == "CXXDefaultArgExpr" or canon(a)[:2] != ("var", wp[0].get("id")):
                    rep.violation("PV", x, f, "nested addNet does not forward the weight",
                                  "argument is %s" % ("the default value" if a.get("kind") == "CXXDefaultArgExpr" else pretty(canon(a))),
                                  key="%s|weight not forwarded" % f.short)
                else:
                    rep.holds("PV", x, f, "nested addNet forwards weight")
            if ci["name"] in ("push_back", "emplace_back") and ci["obj"] is not None and canon(ci["obj"]) == ("field", CQ + "NetModel::netWeight_", ("this",)):
                ac = canon(ci["args"][0])
                if wp and ac[:2] == ("var", wp[0].get("id")):
                    rep.holds("PV", x, f, "netWeight_.push_back(weight)")
                    stored = True
                else:
                    rep.violation("PV", x, f, "netWeight_ receives %s" % pretty(ac), "expected the weight parameter",
                                  key="%s|stored weight is not the parameter" % f.short)
    if not stored:
        rep.violation("PV", "-", None, "no overload stores the weight parameter into netWeight_", "weights never reach the model",
                      key="NetModel::addNet|weight never stored")


def check_no_truncation(ctx, rep):
    """QT (solver side). NetModel and MatrixCreator work on floating-point data throughout; the only values that become integers are
    rounded export coordinates. Any other implicit float -> int conversion in their member functions truncates a weight, a distance
    or a solver parameter (an `int epsilon` parameter receiving approximationDistance drops the clamp entirely below 1)."""
    prog = ctx.prog
    n, bad = 0, 0
    for f in prog.all_funcs(with_lambdas=True):
        owner = f.outer if getattr(f, "outer", None) is not None else f
        if f.body is None or owner.cls not in (CQ + "NetModel", CQ + "MatrixCreator"):
            continue
        n += 1
        for x in walk(f.body):
            if x.get("kind") == "ImplicitCastExpr" and x.get("castKind") == "FloatingToIntegral":
                src = strip(children(x)[0])
                sc = canon(src)
                if sc[0] == "call" and sc[1] in ("round", "lround", "llround", "floor", "ceil", "nearbyint", "trunc"):
                    continue
                if src.get("kind") == "FloatingLiteral":
                    continue
                bad += 1
                rep.violation("QT", x, f, "%s: %s is implicitly truncated to an integer" % (f.short, pretty(sc)[:60]),
                              "a floating-point weight, distance or solver parameter loses its fractional part (and vanishes below 1): the system solved is not "
                              "the documented model", key="%s|float value truncated" % f.short)
    if n and not bad:
        rep.holds("QT", "src/place_global/net_model.cpp", None, "no implicit float -> int conversion in %d functions of NetModel / MatrixCreator" % n,
                  "rounded export coordinates excepted")


def check_weights_replaced(ctx, rep):
    """PV (replacement). Circuit::setNets replaces the whole netlist: the weights of the previous netlist must not survive it. On every
    normal path the member netWeights_ is *assigned* (operator=, assign, clear) - a resize() alone keeps the old entries, so a netlist
    loaded without weights would inherit the weights of the one loaded before."""
    from ..cfg import cfg_of
    prog = ctx.prog
    fq = CQ + "Circuit::netWeights_"
    for f in prog.func(CQ + "Circuit::setNets", required=False) or []:
        g = cfg_of(f)
        nodes = []
        for x in walk(f.body):
            k = x.get("kind")
            if k == "CXXOperatorCallExpr" and callee_info(x)["name"] == "operator=" and len(children(x)) >= 3 and canon(children(x)[1]) == ("field", fq, ("this",)):
                nodes.append(g.node_for(x))
            elif k == "CXXMemberCallExpr" and callee_info(x)["name"] in ("assign", "clear") and callee_info(x)["obj"] is not None and \
                    canon(callee_info(x)["obj"]) == ("field", fq, ("this",)):
                nodes.append(g.node_for(x))
        nodes = [n_ for n_ in nodes if n_ is not None]
        what = "Circuit::setNets replaces netWeights_"
        if nodes and g.exit.idx not in g.reachable_from([g.entry], avoid=nodes):
            rep.holds("PV", nodes[0].ast, f, what, "assigned on every normal path")
        else:
            rep.violation("PV", f.decl, f, what, "some normal path leaves the member without assigning it (a resize keeps the existing entries): the weights of "
                          "the previously loaded netlist are handed to the solver for the new one", key="Circuit::setNets|net weights not replaced on every path")


def check_terms(ctx, rep):
    """PE. (a) MatrixCreator::addPenalty adds one spring per cell in a loop over all cells; the spring's stiffness is what pulls the
    cell to its target, so it must be added whatever the current distance is: a skip decided on the placements (`dist == 0`:
    "already there") drops the stiffness and the solution is no longer the optimum of the documented model. (b) In a function that
    builds the terms of *one* net (it has a net-index parameter used in nbPins(net) / netWeight(net)) the weight of that net is never
    divided by the pin count of the whole model (the argument-less nbPins())."""
    prog = ctx.prog
    MC = CQ + "MatrixCreator"
    fs = prog.func(MC + "::addPenalty", required=False) or []
    n = 0
    for f in fs:
        pos = {p.get("id"): p.get("name") for p in f.params[:2]}
        for x in walk(f.body):
            if x.get("kind") not in ("CXXMemberCallExpr", "CallExpr"):
                continue
            ci = callee_info(x)
            if not ci or ci["name"] not in ("addFixedPin", "addPin", "addMovingPin"):
                continue
            n += 1
            bad = []
            for gc, val, ast, _b in (ctx.guards(f, x) or []):
                ge = expand_locals(ctx, f, gc)
                if any(isinstance(t, tuple) and t and t[0] == "var" and t[1] in pos for t in subterms(ge)):
                    bad.append(gc)
            what = "addPenalty: the spring of cell i (%s)" % ci["name"]
            if bad:
                rep.violation("PE", x, f, what, "is added only under %s, a test on the current / target placement: for the cells it excludes the "
                              "penalty strength has no effect at all" % [pretty(b_)[:50] for b_ in bad], key="MatrixCreator::addPenalty|spring skipped on a position test")
            else:
                rep.holds("PE", x, f, what, "added whatever the current distance to the target is")
    if n == 0:
        rep.unknown("PE", None, None, "MatrixCreator::addPenalty", "no spring-adding call found (shape changed)")
    m = 0
    for f in prog.funcs.values():
        if f.cls != MC or f.body is None:
            continue
        netp = [p for p in f.params if qt(p).replace("const ", "").strip() == "int"]
        pern = set()
        total = []
        for x in walk(f.body):
            if x.get("kind") == "CXXMemberCallExpr":
                ci = callee_info(x)
                if ci and ci["qname"].startswith(CQ + "NetModel::"):
                    args = [canon(a_) for a_ in ci["args"]]
                    if ci["name"] in ("nbPins", "netWeight", "pinCell", "pinOffset") and args and args[0][0] == "var" and \
                            any(args[0][1] == p.get("id") for p in netp):
                        pern.add(args[0][1])
                    if ci["name"] == "nbPins" and not args:
                        total.append(x)
        if not pern:
            continue
        for x in total:
            p = x.get("_p")
            while p is not None and p.get("kind") in ("ImplicitCastExpr", "ParenExpr", "CStyleCastExpr", "CXXStaticCastExpr"):
                p = p.get("_p")
            if p is not None and p.get("kind") in ("BinaryOperator", "CompoundAssignOperator") and p.get("opcode") in ("/", "/=", "*", "*="):
                m += 1
                rep.violation("PE", x, f, "%s scales a per-net term by nbPins(), the pin count of the whole model" % f.short,
                              "the weight of a star / clique of one net is divided by that net's own pin count nbPins(net): with the model-wide count "
                              "nets of different degree are weighted wrongly against each other", key="%s|model-wide pin count in a per-net weight" % f.short)
    if m == 0:
        rep.holds("PE", "src/place_global/net_model.cpp", None, "no per-net weight is scaled by the pin count of the whole model")


# ---- B2 --------------------------------------------------------------------

def _root_var(c):
    """Root variable id of an lvalue / access path in canonical form (var, field-of-var, index-of-var ...)."""
    while isinstance(c, tuple) and c:
        if c[0] == "var":
            return c[1]
        nxt = next((t for t in c[1:] if isinstance(t, tuple)), None)
        if nxt is None:
            return None
        c = nxt
    return None


def _selector_tie(ctx, f):
    """For an extremal-pin selector (a loop keeping the best position seen and its index; the result is a tuple whose first component
    is the index, or a struct filled in the loop): ('min'|'max', 'first'|'last') = which extreme it selects and which index it returns
    when all positions are equal; None when the shape is not recognised."""
    from .common import for_loop_info
    rets = [children(y)[0] for y in walk(f.body) if y.get("kind") == "ReturnStmt" and children(y)]
    if len(rets) != 1:
        return None
    rc = canon(rets[0])
    idx = next((t for t in subterms(rc) if isinstance(t, tuple) and t and t[0] == "var"), None)
    if idx is None:
        return None
    loops = [for_loop_info(x) for x in walk(f.body) if x.get("kind") == "ForStmt"]
    loops = [l for l in loops if l and l.get("step") in (1, -1)]
    if len(loops) != 1:
        return None
    l = loops[0]
    found = []
    for y in walk(l["body"]):
        if y.get("kind") != "IfStmt":
            continue
        cs = children(y)
        cond = canon(cs[0])
        if cond[0] != "bin" or cond[1] not in ("<", "<=", ">", ">="):
            continue
        assigned = set()
        for z in walk(cs[1]):
            if z.get("kind") == "BinaryOperator" and z.get("opcode") == "=":
                r_ = _root_var(canon(children(z)[0], refs=False))
                if r_ is not None:
                    assigned.add(r_)
            elif z.get("kind") == "CXXOperatorCallExpr" and callee_info(z) and callee_info(z)["name"] == "operator=":
                tgt = callee_info(z)["obj"] if callee_info(z)["obj"] is not None else (callee_info(z)["args"][0] if callee_info(z)["args"] else None)
                r_ = _root_var(canon(tgt, refs=False)) if tgt is not None else None
                if r_ is not None:
                    assigned.add(r_)                        # `best = BoundPin{i, ...};`
        if idx[1] not in assigned:
            continue
        a, b = cond[2], cond[3]
        op = cond[1]
        ra, rb = _root_var(a), _root_var(b)
        if rb in assigned and ra not in assigned:
            pass                                           # candidate op best
        elif ra in assigned and rb not in assigned:
            op = {"<": ">", "<=": ">=", ">": "<", ">=": "<="}[op]    # best op candidate -> candidate op' best
        else:
            return None
        found.append(op)
    if len(found) != 1:
        return None
    op = found[0]
    kind = "min" if op in ("<", "<=") else "max"
    strict = op in ("<", ">")
    asc = l["step"] == 1
    tie = "first" if (asc == strict) else "last"
    return kind, tie


def _selected_pin_source(f, var_id):
    """(canonical initialiser, declaration node) when local var_id holds the result of a call: a structured binding of it, or a
    variable initialised with it."""
    from .common import binding_source
    bs = binding_source(f, var_id)
    if bs is not None:
        return bs[0], bs[2]
    d = f.unit.by_id.get(var_id)
    if d is not None and d.get("kind") == "VarDecl" and children(d):
        c = canon(children(d)[-1])
        if c[0] == "call" and isinstance(c[1], str) and c[1].startswith(CQ):
            g = _PROG[0].func(c[1], required=False) if _PROG[0] is not None else None
            g = g[0] if isinstance(g, list) and g else g
            if g is not None and not isinstance(g, list) and g.body is not None and any(y.get("kind") in ("ForStmt", "CXXForRangeStmt", "WhileStmt") for y in walk(g.body)):
                return c, d
    return None


_PROG = [None]


def check_double_stamp(ctx, rep):
    """B2. The bound-to-bound stamping connects every pin to the two bound pins of its net (the selected minimum and maximum pin) and
    skips the pin that is itself a bound. When both selectors return the *same* pin - all pins of the net at one position - every other
    pin is connected to that pin twice: a two-pin net then pulls twice as hard as its weight says (and twice as hard as in the other
    three models, which are the same spring for two pins). Accepted: a guard `minI != maxI` on one of the two stamps, or selectors whose
    tie-breaking returns different pins (one the first, the other the last pin at the extreme position)."""
    prog = ctx.prog
    _PROG[0] = prog
    MC = CQ + "MatrixCreator"
    n = 0
    for f in list(prog.funcs.values()):
        if f.cls != MC or f.body is None:
            continue
        stamps = []
        for x in walk(f.body):
            if x.get("kind") not in ("CXXMemberCallExpr", "CallExpr"):
                continue
            ci = callee_info(x)
            if not ci or ci["name"] not in ("addPin", "addMovingPin", "addFixedPin"):
                continue
            decs = {}
            for a in ci["args"]:
                for t in subterms(canon(a)):
                    if isinstance(t, tuple) and t and t[0] == "var":
                        src = _selected_pin_source(f, t[1])
                        if src is not None:
                            decs[id(src[1])] = src
            if len(decs) == 1:
                stamps.append((x, list(decs.values())[0]))
        groups = {}
        for x, src in stamps:
            groups.setdefault(id(src[1]), (src, []))[1].append(x)
        if len(groups) < 2:
            continue
        gl = list(groups.values())
        for i in range(len(gl)):
            for j in range(i + 1, len(gl)):
                (b1, xs1), (b2, xs2) = gl[i], gl[j]
                n += 1

                def ids_of(src):
                    d = src[1]
                    if d.get("kind") == "DecompositionDecl":
                        binds = [c for c in inner(d) if c.get("kind") == "BindingDecl"]
                        return {binds[0].get("id")} if binds else set()
                    return {d.get("id")}
                i1, i2 = ids_of(b1), ids_of(b2)
                guarded = False
                for x in xs1 + xs2:
                    for gc, val, _a, _b in (ctx.guards(f, x) or []):
                        if gc[0] == "bin" and gc[1] in ("==", "!="):
                            ra, rb = _root_var(gc[2]), _root_var(gc[3])
                            if (ra in i1 and rb in i2) or (ra in i2 and rb in i1):
                                if (gc[1] == "==") != bool(val):
                                    guarded = True
                what = "%s: stamps to the two bound pins (%s, %s)" % (f.short, pretty(b1[0])[:30], pretty(b2[0])[:30])
                if guarded:
                    rep.holds("B2", xs2[0], f, what, "one of them is guarded by the two bounds being different pins")
                    continue
                sel = []
                for src in (b1, b2):
                    c = src[0]
                    q = c[1] if c[0] == "call" and isinstance(c[1], str) else None
                    g = prog.func(q, required=False) if q else None
                    g = g[0] if isinstance(g, list) and len(g) == 1 else (g if g is not None and not isinstance(g, list) else None)
                    sel.append(_selector_tie(ctx, g) if g is not None and g.body is not None else None)
                if None in sel:
                    rep.unknown("B2", xs2[0], f, what, "no guard on the two bounds being different pins, and the tie-breaking of the selectors was not recognised")
                elif sel[0][0] != sel[1][0] and sel[0][1] != sel[1][1]:
                    rep.holds("B2", xs2[0], f, what, "the selectors break ties differently (%s pin at the minimum, %s pin at the maximum): distinct pins whenever the net has two" %
                              ((sel[0][1], sel[1][1]) if sel[0][0] == "min" else (sel[1][1], sel[0][1])))
                else:
                    rep.violation("B2", xs2[0], f, what, "when all pins of the net are at one position both selectors return the %s pin: every other pin is stamped to it "
                                  "twice, so a two-pin net pulls with twice its weight (the other three models use one spring)" % sel[0][1],
                                  key="%s|same pin as both bounds" % f.short)
    if n == 0:
        rep.unknown("B2", None, None, "bound-to-bound stamping", "no function stamping to two selected bound pins found (shape changed)")
