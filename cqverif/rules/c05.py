"""C05 — detailed placement never worsens wirelength (structural clauses).

MV   moves are issued only from the evaluated searches, for candidates reported feasible (shared with C02)
G8   a candidate is accepted only if its evaluated value is strictly/weakly below the value at entry
R3   probes (valueOnSwap / valueOnInsert) restore every position they touched to the value captured before
R4   every committed change of a cell position is followed by the update of both incremental models for that cell
RC   row reordering evaluates each candidate on a model that reflects the candidate (y model updated for the
     tentatively assigned row, x model for every cell of the candidate order) and keeps the best or restores
AP   the shift LP models every pin of every net it touches (no pin skipped)
PC   the position committed by insert/swap is computed before the cell is unplaced, like the probe did
DF   derived-state freshness: pin offsets snapshotted by the incremental model must be refreshed when the
     optimiser changes a cell's orientation  (KNOWN FINDING on the pinned tree)
"""
from ..frontend import AnalysisBroken
from ..model import qt, loc_str, walk, inner
from ..expr import canon, pretty, children, strip, callee_info, subterms
from ..cfg import cfg_of
from .common import (CQ, short, calls_to, binding_source, assignments_to, for_loop_info, loop_has_early_exit, expand_locals,
                     field_writes)
from . import c02

EXPLANATION = (
    "Static check on the clang-resolved AST of place_detailed.cpp. G8: in bestSwap/bestInsert/bestSwapUpdate the witness `found` "
    "is set only under `val < bestValue` (or <=) where val is the value returned by valueOnSwap/valueOnInsert and bestValue was "
    "initialised from value() and is never increased. R3: in the two probes each updateCellPos(c, new) is post-dominated by "
    "updateCellPos(c, old) with old captured from placement_.cellPos(c) before the first update, and nothing else is mutated. "
    "R4: doSwap/doInsert call updateCellPos for every moved cell after the placement change; runShiftsOnCells updates the x model "
    "with the value it stores; RowReordering::writeback re-synchronises both models on both branches and commits only under "
    "improvement_, which is set only under value < bestVal_. RC: in runRegionChoice the recursive evaluation is dominated by the "
    "y-model update of the tentatively assigned cell to the candidate row; in runOrdering by the x-model updates of all cells of the "
    "order. AP: in runShiftsOnCells the pin loop is full-range and every iteration adds its arcs. DF: the incremental model's pin "
    "offsets are written only at construction, yet DetailedPlacement::place can change a cell's orientation (which changes the "
    "true offsets); no function reachable from DetailedPlacer::run refreshes them -- reported as a known finding.")

DECLINED = ["that the shift LP's optimum never worsens the true value (LP semantics)",
            "numerical equality between the model value and Circuit::hpwl() (C09)"]


def check_shared_frames(ctx, rep):
    """SR / QF (shared with C08-D3 and C09-QF): the optimisation passes take cell positions from their own models, never from the
    Circuit (which holds the last export and is stale between callbacks), and the incremental wirelength models are built in the
    placed frame, the one Circuit::hpwl() is defined on."""
    from .c08 import check_d3
    from .c09 import check_model_frame
    check_d3(ctx, rep, "SR", [("DetailedPlacer::run", ["cellX_", "cellY_", "cellOrientation_"])])
    check_model_frame(ctx, rep, "QF")


def run(ctx, rep, tier):
    prog, eff = ctx.prog, ctx.eff
    rep.rule("MV", "doSwap/doInsert only from the best* searches, under a feasibility witness", 3)
    rep.rule("G8", "candidate accepted only if evaluated value < value at entry", 4)
    rep.rule("R3", "probes restore every position they touched", 2)
    rep.rule("R4", "committed position changes are followed by model updates for the same cell", 4)
    rep.rule("RC", "reordering evaluates candidates on an up-to-date model; keeps best or restores", 4)
    rep.rule("NF", "the incremental net model computes in integers (no value passes through float)", 1)
    rep.rule("AX", "the shift pass builds its model from one topology (positions and pin offsets of the same axis)", 1)
    rep.rule("AP", "shift LP models every pin of the nets it touches", 1)
    rep.rule("PS", "probes evaluate exactly the positions the placement's own position functions return", 3)
    rep.rule("SN", "running minima / maxima of the incremental net model start on the neutral side", 2)
    rep.rule("PC", "committed position computed in the state the probe evaluated (before unplace)", 2)
    rep.rule("DF", "snapshotted pin offsets refreshed when orientation changes", 1)
    rep.rule("SR", "optimisation passes never read (stale) coordinates back from the Circuit", 1)
    rep.rule("QF", "incremental wirelength models are built in the placed frame", 4)
    rep.rule("MX", "the incremental model the moves are judged on holds every pin of every net, attached to the right model cell (shared with C09)", 4)
    from .c09 import check_model_index_space
    check_model_index_space(ctx, rep)
    check_moves(ctx, rep)
    check_probes(ctx, rep)
    from .common import check_sentinels
    sn = [f_ for f_ in prog.funcs.values() if f_.cls == CQ + "IncrNetModel" and f_.body is not None]
    if check_sentinels(ctx, rep, "SN", sn) == 0:
        rep.unknown("SN", None, None, "running extrema of IncrNetModel", "none recognised (shape changed)")
    check_sync(ctx, rep)
    check_reordering(ctx, rep)
    check_allpins(ctx, rep)
    check_arc_pairs(ctx, rep)
    check_shift_axis(ctx, rep)
    from .common import check_no_float
    nf, nb = check_no_float(ctx, rep, "NF", lambda c: c == CQ + "IncrNetModel",
                            "above 2^24 database units float rounds pin positions (step 8 near 1e8): moves are then judged on rounded positions and "
                            "the real wirelength can rise although the model value fell")
    if nf == 0:
        rep.unknown("NF", None, None, "IncrNetModel", "no member function found")
    elif nb == 0:
        rep.holds("NF", "src/place_detailed/incr_net_model.*", None, "%d member functions of IncrNetModel convert nothing between integer and floating point" % nf,
                  "the two float position accessors excepted")
    check_fresh(ctx, rep)
    check_probe_commit(ctx, rep, "PC")
    check_shared_frames(ctx, rep)


def check_probe_commit(ctx, rep, rid):
    """The position a move is committed at must be computed in the same state in which the probe evaluated it:
    positionOnInsert / positionsOnSwap are evaluated before the cell is unplaced (the probes call them on the placed state)."""
    prog = ctx.prog
    for q, posfn in (("DetailedPlacement::insert", "positionOnInsert"), ("DetailedPlacement::swap", "positionsOnSwap")):
        f = prog.func1(CQ + q)
        g = cfg_of(f)
        pos = calls_to(f, CQ + "DetailedPlacement::" + posfn)
        unp = calls_to(f, CQ + "DetailedPlacement::unplace")
        if not pos or not unp:
            rep.unknown(rid, f.decl, f, q, "%s / unplace call not found" % posfn)
            continue
        pn = g.node_for(pos[0])
        late = [u for u in unp if not (g.dominates(pn, g.node_for(u)) and pn is not g.node_for(u))]
        if late:
            rep.violation(rid, late[0], f, "%s computes the committed position after unplacing" % q.split("::")[-1],
                          "the optimiser evaluated the move with %s on the placed state; computing it again after unplace() gives a different gap, "
                          "so a move accepted for one position is committed at another" % posfn,
                          key="%s|position computed after unplace" % f.short)
        else:
            rep.holds(rid, pos[0], f, "%s: %s evaluated before any unplace()" % (q.split("::")[-1], posfn))


def check_moves(ctx, rep):
    prog = ctx.prog
    for q, val_q in (("DetailedPlacer::doSwap", CQ + "DetailedPlacer::valueOnSwap"), ("DetailedPlacer::doInsert", CQ + "DetailedPlacer::valueOnInsert")):
        for f in prog.funcs.values():
            for x in calls_to(f, CQ + q):
                ok, why = c02.move_under_feasible_witness(ctx, f, x, val_q)
                if ok:
                    rep.holds("MV", x, f, "%s in %s" % (q.split("::")[-1], f.short), why)
                elif ok is None:
                    rep.unknown("MV", x, f, "%s in %s" % (q.split("::")[-1], f.short), why)
                else:
                    rep.violation("MV", x, f, "%s in %s" % (q.split("::")[-1], f.short), why, key="%s|move without feasibility witness" % f.short)
    for q in ("DetailedPlacer::bestSwap", "DetailedPlacer::bestInsert", "DetailedPlacer::bestSwapUpdate"):
        f = prog.func1(CQ + q)
        g = cfg_of(f)
        # bestValue: initialised from value(), never assigned a larger value (here: never assigned)
        best = [x for x in walk(f.body) if x.get("kind") == "VarDecl" and children(x) and canon(children(x)[-1]) == ("call", CQ + "DetailedPlacer::value", ("this",))]
        if len(best) != 1:
            if not _g8_object_form(ctx, rep, f):
                rep.unknown("G8", f.decl, f, "reference value", "variable initialised from value() not found")
            continue
        bv = ("var", best[0].get("id"), best[0].get("name"))
        reass = assignments_to(f, bv[1])
        for x, r in reass:
            # only allowed: bestValue = val under val < bestValue
            pass
        sets = [(x, r) for x, r in walk_found_sets(f)]
        if not sets:
            rep.unknown("G8", f.decl, f, "acceptance", "no `found = true`")
            continue
        for x, wit in sets:
            n = g.node_for(x)
            ok = False
            bad = None
            for ast, val, _e in g.dom_edges(n):
                c = canon(ast)
                if c[0] == "bin" and c[1] in ("<", "<=", ">", ">="):
                    l, r = c[2], c[3]
                    for a, b, op in ((l, r, c[1]), (r, l, {"<": ">", ">": "<", "<=": ">=", ">=": "<="}[c[1]])):
                        if b == bv and a[0] == "var":
                            bs = binding_source(f, a[1])
                            if bs and bs[0][0] == "call" and bs[0][1] in (CQ + "DetailedPlacer::valueOnSwap", CQ + "DetailedPlacer::valueOnInsert") and bs[1] == 1:
                                if (op in ("<", "<=") and val is True) or (op in (">", ">=") and val is False):
                                    ok = True
                                else:
                                    bad = c
            if ok and not reass:
                rep.holds("G8", x, f, "`%s = true` only under val < %s (value at entry)" % (wit, bv[2]))
            elif bad is not None:
                rep.violation("G8", x, f, "candidate accepted under %s" % pretty(bad), "the comparison admits candidates that are worse than the current value",
                              key="%s|acceptance comparison reversed" % f.short)
            elif reass:
                rep.unknown("G8", reass[0][0], f, "reference value reassigned", "monotonicity of %s not analysed" % bv[2])
            else:
                rep.violation("G8", x, f, "candidate accepted without comparing its value with the value at entry", "",
                              key="%s|acceptance without comparison" % f.short)


def _g8_object_form(ctx, rep, f):
    """The search state bundled in a small local object: `Sel sel{value()};` stores the value at entry in a field R that is never
    written again, a member function sets the acceptance flag only under `val < R` with val the second component of a pair
    parameter, and every call of it on the object passes the result of a value function."""
    prog = ctx.prog
    vq = CQ + "DetailedPlacer::value"
    objs = []
    for x in walk(f.body):
        if x.get("kind") == "VarDecl" and children(x):
            ic = canon(children(x)[-1])
            args = [a for a in ic[1:] if isinstance(a, tuple)] if ic[0] in ("initlist", "construct") else []
            pos = [i for i, a in enumerate(args) if a == ("call", vq, ("this",))]
            if pos:
                objs.append((x, ic, pos[0] - (1 if ic[0] == "construct" and args and args[0][0] not in ("call", "lit", "var") else 0)))
    if len(objs) != 1:
        return False
    d, ic, _pos = objs[0]
    t = (qt(d) or "").replace("const ", "").strip()
    recs = [q for q in prog.records if q.split("::")[-1] == t.split("::")[-1]]
    if len(recs) != 1:
        return False
    rq = recs[0]
    fields = list(prog.records[rq]["fields"])
    ll = [n for n in fields if "long" in qt(prog.records[rq]["fields"][n])]
    if len(ll) != 1:
        return False
    refq = rq + "::" + ll[0]
    obj = ("var", d.get("id"), d.get("name"))
    # the reference value is never written again
    from .common import field_writes
    ws = [w for w in field_writes(ctx, refq) if w[0].kind != "CXXConstructorDecl"]
    if ws:
        rep.unknown("G8", ws[0][1], f, "reference value %s" % ll[0], "written after construction in %s: monotonicity not analysed" % ws[0][0].short)
        return True
    setters = []
    for h in prog.all_funcs(with_lambdas=False):
        if h.cls != rq or h.body is None:
            continue
        for x in walk(h.body):
            if x.get("kind") == "BinaryOperator" and x.get("opcode") == "=":
                l, r = children(x)
                lc = canon(l)
                if lc[0] == "field" and lc[2] == ("this",) and canon(r) == ("lit", True):
                    setters.append((h, x, lc[1].split("::")[-1]))
    if not setters:
        return False
    ref = ("field", refq, ("this",))
    for h, x, wname in setters:
        hg = cfg_of(h)
        ok, bad, pidx = False, None, None
        for ast, val, _e in hg.dom_edges(hg.node_for(x)):
            c = canon(ast)
            if c[0] == "bin" and c[1] in ("<", "<=", ">", ">="):
                for a, b, op in ((c[2], c[3], c[1]), (c[3], c[2], {"<": ">", ">": "<", "<=": ">=", ">=": "<="}[c[1]])):
                    if b == ref and a[0] == "var":
                        bs = binding_source(h, a[1])
                        if bs and bs[1] == 1 and bs[0][0] == "var":
                            pidx = [i for i, p_ in enumerate(h.params) if p_.get("id") == bs[0][1]] or None
                            if (op in ("<", "<=") and val is True) or (op in (">", ">=") and val is False):
                                ok = True
                            else:
                                bad = c
        what = "`%s = true` in %s" % (wname, h.short)
        if bad is not None and not ok:
            rep.violation("G8", x, h, "candidate accepted under %s" % pretty(bad), "the comparison admits candidates that are worse than the current value",
                          key="%s|acceptance comparison reversed" % f.short)
            continue
        if not ok or not pidx:
            rep.unknown("G8", x, h, what, "not under a comparison of the evaluated value with the value at entry (%s)" % ll[0])
            continue
        calls = [y for y in walk(f.body) if y.get("kind") == "CXXMemberCallExpr" and ctx.eff.resolve_callee(y)[1] == [h]
                 and callee_info(y)["obj"] is not None and canon(callee_info(y)["obj"]) == obj]
        vals = (CQ + "DetailedPlacer::valueOnSwap", CQ + "DetailedPlacer::valueOnInsert")
        if calls and all(canon(callee_info(y)["args"][pidx[0]])[0] == "call" and canon(callee_info(y)["args"][pidx[0]])[1] in vals for y in calls):
            rep.holds("G8", x, f, "%s only under val < %s (value at entry), %d evaluation(s) passed in" % (what, ll[0], len(calls)))
        else:
            rep.unknown("G8", x, f, what, "the evaluated pair does not come from valueOnSwap / valueOnInsert at every call")
    return True


def walk_found_sets(f):
    for x in walk(f.body):
        if x.get("kind") == "BinaryOperator" and x.get("opcode") == "=":
            l, r = children(x)
            if canon(r) == ("lit", True) and canon(l)[0] == "var":
                yield x, canon(l)[2]


def check_probes(ctx, rep):
    prog = ctx.prog
    for q in ("DetailedPlacer::valueOnSwap", "DetailedPlacer::valueOnInsert"):
        f = prog.func1(CQ + q)
        g = cfg_of(f)
        ups = [x for x in walk(f.body) if x.get("kind") == "CXXMemberCallExpr" and callee_info(x)["qname"] == CQ + "DetailedPlacer::updateCellPos"
               and len(callee_info(x)["args"]) == 2]
        by_cell = {}
        for x in ups:
            a = callee_info(x)["args"]
            by_cell.setdefault(canon(a[0]), []).append((x, canon(a[1])))
        problems = []
        if not by_cell:
            rep.unknown("R3", f.decl, f, "probe", "no updateCellPos(c, p) calls")
            continue
        for cell, lst in by_cell.items():
            # last update on every path must restore the captured old position
            olds = []
            for x, p in lst:
                if p[0] == "var":
                    d = f.unit.by_id.get(p[1])
                    init = canon(children(d)[-1]) if d is not None and children(d) else None
                    if init == ("call", CQ + "DetailedPlacement::cellPos", ("field", CQ + "DetailedPlacer::placement_", ("this",)), cell):
                        olds.append((x, d))
            if not olds:
                problems.append("position of %s is never restored to placement_.cellPos(%s)" % (pretty(cell), pretty(cell)))
                continue
            rx, rd = olds[-1]
            rn = g.node_for(rx)
            dn = g.node_for(rd)
            for x, p in lst:
                n = g.node_for(x)
                if x is rx:
                    continue
                if not g.postdominates(rn, n):
                    problems.append("update of %s at %s is not followed by the restore on every path" % (pretty(cell), loc_str(x)))
                if not (g.dominates(dn, n) and dn is not n):
                    problems.append("old position of %s captured after it was changed" % pretty(cell))
            # nothing after the restore moves the cell again
            after = g.reachable_from([rn]) - {rn.idx}
            if any(g.node_for(x).idx in after for x, _p in lst if x is not rx):
                problems.append("cell %s moved again after the restore" % pretty(cell))
        # PS: the probed positions are the ones the move will commit: every non-restoring update takes its position from the
        # placement's own position function (positionsOnSwap / positionOnInsert), through a variable with no other definition
        olds_all = set()
        for cell, lst in by_cell.items():
            for x, p in lst:
                if p[0] == "var":
                    d = f.unit.by_id.get(p[1])
                    init = canon(children(d)[-1]) if d is not None and d.get("kind") == "VarDecl" and children(d) else None
                    if init is not None and init[0] == "call" and init[1] == CQ + "DetailedPlacement::cellPos":
                        olds_all.add(p[1])
        for cell, lst in by_cell.items():
            for x, p in lst:
                if p[0] == "var" and p[1] in olds_all:
                    continue
                src = None
                if p[0] == "var":
                    bs = binding_source(f, p[1])
                    d = f.unit.by_id.get(p[1])
                    if bs:
                        src = bs[0]
                    elif d is not None and d.get("kind") == "VarDecl" and children(d):
                        src = canon(children(d)[-1])
                    redefs = assignments_to(f, p[1])
                    tied = [y for y in walk(f.body) if y.get("kind") == "CallExpr" and callee_info(y)["name"] == "tie" and
                            any(canon(a_) == p for a_ in callee_info(y)["args"])]
                    if redefs or tied:
                        src = ("several definitions",)
                elif p[0] == "call":
                    src = p
                what = "%s probes %s at %s" % (q.split("::")[-1], pretty(cell), pretty(p))
                if src is not None and src[0] == "call" and src[1] in (CQ + "DetailedPlacement::positionsOnSwap", CQ + "DetailedPlacement::positionOnInsert"):
                    rep.holds("PS", x, f, what, "the position %s returns, as the commit uses it" % short(src[1]))
                elif src is not None and src[0] in ("var", "several definitions", "field", "call", "construct"):
                    rep.violation("PS", x, f, what, "the probed position is %s, not (only) what positionsOnSwap / positionOnInsert return: the move is "
                                  "evaluated at one position and committed at another" % pretty(src)[:60], key="%s|probe position differs from the commit" % f.short)
                else:
                    rep.unknown("PS", x, f, what, "origin of the probed position not recognised")
        # no other mutation of placement_
        s = ctx.eff.summary(f)
        muts = [u for qf, lst in s["writes"].items() if qf == CQ + "DetailedPlacer::placement_" for _x, u in lst]
        if muts:
            problems.append("probe mutates placement_ (%s)" % muts[0].why)
        if problems:
            rep.violation("R3", f.decl, f, "%s is not a pure probe" % q.split("::")[-1], "; ".join(problems[:3]), key="%s|probe not restored" % f.short)
        else:
            rep.holds("R3", f.decl, f, "%s restores %d probed cell(s) and mutates nothing else" % (q.split("::")[-1], len(by_cell)))


def check_sync(ctx, rep):
    prog = ctx.prog
    for q, mover, cells in (("DetailedPlacer::doSwap", "swap", 2), ("DetailedPlacer::doInsert", "insert", 1)):
        f = prog.func1(CQ + q)
        g = cfg_of(f)
        mv = calls_to(f, CQ + "DetailedPlacement::" + mover)
        ups = [x for x in walk(f.body) if x.get("kind") == "CXXMemberCallExpr" and callee_info(x)["qname"] == CQ + "DetailedPlacer::updateCellPos"]
        if not mv:
            rep.unknown("R4", f.decl, f, q, "placement_.%s not found" % mover)
            continue
        moved = [canon(a) for a in callee_info(mv[0])["args"][:cells]]
        upd = {canon(callee_info(x)["args"][0]) for x in ups if g.postdominates(g.node_for(x), g.node_for(mv[0])) and g.node_for(x) is not g.node_for(mv[0])}
        missing = [m for m in moved if m not in upd]
        if missing:
            rep.violation("R4", mv[0], f, "%s: model not updated for %s" % (q.split("::")[-1], [pretty(m) for m in missing]),
                          "the incremental wirelength would be evaluated on stale positions", key="%s|model not updated" % f.short)
        else:
            rep.holds("R4", mv[0], f, "%s followed by updateCellPos for %s" % (mover, [pretty(m) for m in moved]))
    f = prog.func1(CQ + "DetailedPlacer::runShiftsOnCells")
    ws = [x for x in walk(f.body) if x.get("kind") == "BinaryOperator" and x.get("opcode") == "=" and
          canon(children(x)[0])[0] == "index" and canon(children(x)[0])[1] == ("field", CQ + "DetailedPlacement::cellX_", ("field", CQ + "DetailedPlacer::placement_", ("this",)))]
    if not ws:
        rep.unknown("R4", f.decl, f, "shift write-back", "write to placement_.cellX_ not found")
    for x in ws:
        g = cfg_of(f)
        c = canon(children(x)[0])[2]
        v = canon(children(x)[1])
        ups = [y for y in walk(f.body) if y.get("kind") == "CXXMemberCallExpr" and callee_info(y)["qname"] == CQ + "IncrNetModel::updateCellPos"
               and canon(callee_info(y)["obj"]) == ("field", CQ + "DetailedPlacer::xtopo_", ("this",))
               and canon(callee_info(y)["args"][0]) == c and canon(callee_info(y)["args"][1]) == v]
        ok = any(g.postdominates(g.node_for(y), g.node_for(x)) for y in ups)
        if ok:
            rep.holds("R4", x, f, "shift write-back of cellX_[%s] followed by xtopo_.updateCellPos(%s, same value)" % (pretty(c), pretty(c)))
        else:
            rep.violation("R4", x, f, "shift write-back without the matching x-model update", "", key="DetailedPlacer::runShiftsOnCells|model not updated")
    # writeback
    w = prog.func1(CQ + "RowReordering::writeback")
    g = cfg_of(w)
    places = calls_to(w, CQ + "DetailedPlacement::place")
    for x in places:
        guards = ctx.guards(w, x) or []
        if not any(gc == ("field", CQ + "RowReordering::improvement_", ("this",)) and val is True for gc, val, _a, _b in guards):
            rep.violation("R4", x, w, "reordering written back without an improvement", "", key="RowReordering::writeback|commit without improvement")
    both = True
    ups = [y for y in walk(w.body) if y.get("kind") == "CXXMemberCallExpr" and callee_info(y)["qname"] == CQ + "IncrNetModel::updateCellPos"]
    for val in (True, False):
        have = set()
        for y in ups:
            guards = ctx.guards(w, y) or []
            if any(gc == ("field", CQ + "RowReordering::improvement_", ("this",)) and v is val for gc, v, _a, _b in guards):
                have.add(pretty(canon(callee_info(y)["obj"])))
        if have != {"xtopo_", "ytopo_"}:
            both = False
    if both and places:
        rep.holds("R4", w.decl, w, "writeback commits only under improvement_ and re-synchronises x and y models on both branches")
    elif places:
        rep.violation("R4", w.decl, w, "writeback leaves a model out of sync on one branch", "", key="RowReordering::writeback|model not restored")


def check_reordering(ctx, rep):
    prog = ctx.prog
    f = prog.func1(CQ + "RowReordering::runRegionChoice")
    g = cfg_of(f)
    recs = calls_to(f, CQ + "RowReordering::runRegionChoice")
    ups = [y for y in walk(f.body) if y.get("kind") == "CXXMemberCallExpr" and callee_info(y)["qname"] == CQ + "IncrNetModel::updateCellPos"
           and canon(callee_info(y)["obj"]) == ("field", CQ + "RowReordering::ytopo_", ("this",))]
    for x in recs:
        n = g.node_for(x)
        good = None
        for y in ups:
            a = callee_info(y)["args"]
            cell, pos = expand_locals(ctx, f, canon(a[0])), expand_locals(ctx, f, canon(a[1]))
            pids = {q.get("id") for q in f.params}
            okcell = cell[0] == "index" and cell[1][0] == "field" and cell[1][1].endswith("RowReordering::cells_") and cell[2][0] == "var" and cell[2][1] in pids
            okpos = pos[0] == "call" and pos[1].endswith("rowY") and any(
                t[0] == "field" and str(t[1]).endswith("::row") and t[2][0] == "index" and t[2][1][0] == "field" and t[2][1][1].endswith("RowReordering::regions_")
                for t in subterms(pos))
            okargs = okcell and okpos
            yn = g.node_for(y)
            if okargs and g.dominates(yn, n):
                # no extra condition between the update and the evaluation
                ey = {(id(a_), v) for a_, v, _e in g.dom_edges(yn)}
                ex = {(id(a_), v) for a_, v, _e in g.dom_edges(n)}
                if ey == ex:
                    good = y
        if good is not None:
            rep.holds("RC", x, f, "candidate region evaluated after ytopo_.updateCellPos(cell, rowY(region row)), unconditionally")
        else:
            rep.violation("RC", x, f, "candidate region evaluated on a y model that may not reflect the candidate row",
                          "the y-model update of the tentatively assigned cell does not dominate the recursive evaluation under the same conditions",
                          key="RowReordering::runRegionChoice|stale y model")
    o = prog.func1(CQ + "RowReordering::runOrdering")
    go = cfg_of(o)
    recs = calls_to(o, CQ + "RowReordering::runOrdering")
    for x in recs:
        n = go.node_for(x)
        ok = False
        for l in [y for y in walk(o.body) if y.get("kind") == "CXXForRangeStmt"]:
            var = inner(list(inner(l))[6])[0]
            rv = var.get("_rangevar")
            rvc = canon(rv) if rv is not None else ("none",)
            opids = {q.get("id") for q in o.params}
            if not (rvc[0] == "index" and rvc[1][0] == "field" and rvc[1][1].endswith("RowReordering::order_") and rvc[2][0] == "var" and rvc[2][1] in opids):
                continue
            body = list(inner(l))[7]
            ups = [y for y in walk(body) if y.get("kind") == "CXXMemberCallExpr" and callee_info(y)["qname"] == CQ + "IncrNetModel::updateCellPos"
                   and canon(callee_info(y)["obj"]) == ("field", CQ + "RowReordering::xtopo_", ("this",))]
            skip = loop_has_early_exit(body) or next((y for y in walk(body) if y.get("kind") in ("ContinueStmt", "IfStmt")), None)
            done = [e for e in go.nodes if e.kind == "edge" and e.ast is l and e.val == "done"]
            if ups and skip is None and done and go.dominates(done[0], n):
                ok = True
        opids = {q.get("id") for q in o.params}
        if not ok:
            # the layout of the candidate may live in a private helper (`packRegion(regionInd)`) called, with the region index, before
            # the recursive evaluation: the helper must contain the complete loop over order_[its parameter]
            for y in walk(o.body):
                if y.get("kind") != "CXXMemberCallExpr" or y is x:
                    continue
                _c, hs = ctx.eff.resolve_callee(y)
                yn = go.node_for(y)
                for h in hs:
                    if h.cls != o.cls or h is o or h.body is None or yn is None or not go.dominates(yn, n):
                        continue
                    hg = cfg_of(h)
                    hpids = {q.get("id") for q in h.params}
                    for l in [z for z in walk(h.body) if z.get("kind") == "CXXForRangeStmt"]:
                        var = inner(list(inner(l))[6])[0]
                        rv = var.get("_rangevar")
                        rvc = canon(rv) if rv is not None else ("none",)
                        if not (rvc[0] == "index" and rvc[1][0] == "field" and rvc[1][1].endswith("RowReordering::order_") and rvc[2][0] == "var" and rvc[2][1] in hpids):
                            continue
                        body = list(inner(l))[7]
                        ups = [z for z in walk(body) if z.get("kind") == "CXXMemberCallExpr" and callee_info(z)["qname"] == CQ + "IncrNetModel::updateCellPos"
                               and canon(callee_info(z)["obj"]) == ("field", CQ + "RowReordering::xtopo_", ("this",))]
                        skip = loop_has_early_exit(body) or next((z for z in walk(body) if z.get("kind") in ("ContinueStmt", "IfStmt")), None)
                        done = [e for e in hg.nodes if e.kind == "edge" and e.ast is l and e.val == "done"]
                        # the helper receives the same region index the recursion descends from, and runs its loop on every path
                        arg_ok = any(canon(a_)[0] == "var" and canon(a_)[1] in opids for a_ in callee_info(y)["args"])
                        if ups and skip is None and done and arg_ok and hg.exit.idx not in hg.reachable_from([hg.entry], avoid=[done[0]]):
                            ok = True
        if ok:
            rep.holds("RC", x, o, "candidate order evaluated after the x model was updated for every cell of the order")
        else:
            rep.violation("RC", x, o, "candidate order evaluated on a stale x model", "", key="RowReordering::runOrdering|stale x model")
    # best kept only when better
    sets = [x for x in walk(o.body) if x.get("kind") == "BinaryOperator" and x.get("opcode") == "=" and
            canon(children(x)[0]) == ("field", CQ + "RowReordering::improvement_", ("this",)) and canon(children(x)[1]) == ("lit", True)]
    for x in sets:
        guards = ctx.guards(o, x) or []
        ok = False
        for gc, val, _a, _b in guards:
            gce = expand_locals(ctx, o, gc)
            if gc[0] == "bin" and gc[1] in ("<", "<=") and val is True and gc[3] == ("field", CQ + "RowReordering::bestVal_", ("this",)):
                ok = True
        if ok:
            rep.holds("RC", x, o, "improvement_ set only under value < bestVal_")
        else:
            rep.violation("RC", x, o, "improvement_ set without value < bestVal_", "", key="RowReordering::runOrdering|improvement without comparison")
    r = prog.func1(CQ + "RowReordering::run")
    init = [x for x in walk(r.body) if x.get("kind") == "BinaryOperator" and x.get("opcode") == "=" and
            canon(children(x)[0]) == ("field", CQ + "RowReordering::bestVal_", ("this",))]
    if init and "value" in pretty(canon(children(init[0])[1])):
        rep.holds("RC", init[0], r, "bestVal_ starts from the current value of the models")
    else:
        rep.violation("RC", r.decl, r, "bestVal_ not initialised from the current value", "", key="RowReordering::run|bestVal_ init")


def check_allpins(ctx, rep):
    prog = ctx.prog
    f = prog.func1(CQ + "DetailedPlacer::runShiftsOnCells")
    g = cfg_of(f)
    loops = [for_loop_info(x) for x in walk(f.body) if x.get("kind") == "ForStmt"]
    loops = [l for l in loops if l and l["hi"] and l["hi"][0] == "call" and l["hi"][1] == CQ + "IncrNetModel::nbNetPins"]
    if not loops:
        rep.unknown("AP", f.decl, f, "pin loop", "loop over 0..nbNetPins(net) not found")
        return
    for l in loops:
        arcs = [x for x in walk(l["body"]) if x.get("kind") == "CXXMemberCallExpr" and callee_info(x)["name"] == "addArc"]
        an = [g.node_for(a) for a in arcs]
        incn = g.node_for(l["inc"])
        head = [n for n in g.nodes if n.kind == "join" and n.ast is l["stmt"]]
        full = l["lo"] == ("lit", "0") and l["step"] == 1 and loop_has_early_exit(l["body"]) is None
        covered = bool(head) and bool(an) and incn.idx not in g.reachable_from([head[0]], avoid=an)
        if full and covered:
            rep.holds("AP", l["stmt"], f, "every pin 0..nbNetPins(net) of every touched net adds its arcs (no iteration without addArc)")
        else:
            rep.violation("AP", l["stmt"], f, "a pin of a touched net can be left out of the shift model",
                          "full range: %s; some iteration reaches the next pin without adding an arc: %s" % (full, not covered),
                          key="DetailedPlacer::runShiftsOnCells|pin skipped in LP model")


def check_arc_pairs(ctx, rep):
    """AP (pairs). In the pin loop of the shift LP every pin contributes two arcs, to the lower and to the upper bound node of its net, whose
    lengths are the pin's position with opposite signs (p and -p, p = offset for a movable cell, cell position + offset for a fixed one).
    Checked per block as an identity of polynomials: length(first arc) + length(second arc) == 0."""
    from .c06 import poly
    prog = ctx.prog
    f = prog.func1(CQ + "DetailedPlacer::runShiftsOnCells")
    loops = [for_loop_info(x) for x in walk(f.body) if x.get("kind") == "ForStmt"]
    loops = [l for l in loops if l and l["hi"] and l["hi"][0] == "call" and l["hi"][1] == CQ + "IncrNetModel::nbNetPins"]
    n = 0
    for l in loops:
        blocks = {}
        for x in walk(l["body"]):
            if x.get("kind") == "CXXMemberCallExpr" and callee_info(x)["name"] in ("emplace_back", "push_back") and len(callee_info(x)["args"]) == 2 and \
                    "constraint" in pretty(canon(callee_info(x)["obj"])):
                p_ = x.get("_p")
                while p_ is not None and p_.get("kind") != "CompoundStmt":
                    p_ = p_.get("_p")
                blocks.setdefault(id(p_), []).append(x)
        for xs in blocks.values():
            if len(xs) != 2:
                continue
            n += 1
            costs = [expand_locals(ctx, f, canon(callee_info(x)["args"][1])) for x in xs]
            names = {}

            def atom(c_):
                if c_[0] in ("var", "call", "index", "field", "elem"):
                    names.setdefault(c_, "a%d" % len(names))
                    return True
                return False
            atoms = {"_": lambda c_: False}
            pa = _poly_named(costs[0], names)
            pb = _poly_named(costs[1], names)
            what = "shift LP: arcs of one pin to the two bound nodes of its net (%s, %s)" % (pretty(costs[0])[:30], pretty(costs[1])[:30])
            if pa is None or pb is None:
                rep.unknown("AP", xs[0], f, what, "lengths are not polynomials of positions and offsets")
                continue
            tot = dict(pa)
            for m_, k_ in pb.items():
                tot[m_] = tot.get(m_, 0) + k_
            tot = {m_: k_ for m_, k_ in tot.items() if abs(k_) > 1e-12}
            if not tot:
                rep.holds("AP", xs[0], f, what, "are opposite: the same pin position bounds the net from below and from above")
            else:
                rep.violation("AP", xs[1], f, what, "are not opposite (their sum is not identically 0): the pin bounds its net at two different positions, and between them "
                              "the model sees no cost for moving the cell", key="DetailedPlacer::runShiftsOnCells|pin arcs not opposite")
    if n == 0:
        rep.unknown("AP", f.decl, f, "pin arcs", "no block adding two constraint arcs per pin found (shape changed)")


def _poly_named(c, names):
    t = c[0]
    if t == "lit":
        try:
            return {(): float(str(c[1]).rstrip("fFlLuU"))}
        except ValueError:
            return None
    if t in ("cast", "paren") and len(c) >= 2:
        return _poly_named(c[-1], names)
    if t == "bin" and c[1] in ("+", "-"):
        a, b = _poly_named(c[2], names), _poly_named(c[3], names)
        if a is None or b is None:
            return None
        out = dict(a)
        for m, k in b.items():
            out[m] = out.get(m, 0) + (k if c[1] == "+" else -k)
        return {m: k for m, k in out.items() if abs(k) > 1e-12}
    if t == "bin" and c[1] == "*":
        a, b = _poly_named(c[2], names), _poly_named(c[3], names)
        if a is None or b is None:
            return None
        out = {}
        for m1, k1 in a.items():
            for m2, k2 in b.items():
                m = tuple(sorted(m1 + m2))
                out[m] = out.get(m, 0) + k1 * k2
        return {m: k for m, k in out.items() if abs(k) > 1e-12}
    if t == "un" and c[1] == "-":
        a = _poly_named(c[2], names)
        return None if a is None else {m: -k for m, k in a.items()}
    if t in ("var", "call", "index", "field", "elem"):
        nm = names.setdefault(c, "a%d" % len(names))
        return {(nm,): 1.0}
    return None


def check_shift_axis(ctx, rep):
    """AX. The shift pass moves cells along x only: the coordinates and pin offsets its model is built from (cellPos, netPinOffset,
    netPinPosition, cellPinOffset, ...) are all read from one of the two incremental topologies, the one whose positions it then
    updates. Both topologies have the same nets and pin numbering, so reading an offset from the other one type-checks and passes
    every consistency check while the pass optimises "x position + y offset"."""
    prog = ctx.prog
    GEOM = ("cellPos", "netPinOffset", "netPinPosition", "cellPinOffset", "cellPinPosition", "netMinPos", "netMaxPos", "netMinMaxPos")
    for q in ("DetailedPlacer::runShiftsOnCells",):
        fs = prog.func(CQ + q, required=False) or []
        if not fs:
            rep.unknown("AX", None, None, q, "not found")
            continue
        f = fs[0]
        read, written = {}, set()
        for x in walk(f.body):
            if x.get("kind") != "CXXMemberCallExpr":
                continue
            ci = callee_info(x)
            if not ci or ci["obj"] is None or not ci["qname"].startswith(CQ + "IncrNetModel::"):
                continue
            o = canon(ci["obj"])
            if ci["name"] in GEOM:
                read.setdefault(o, []).append(x)
            elif ci["name"] in ("updateCellPos",):
                written.add(o)
        # updates made through the placer's own helper move both models consistently; look at what the helper touches for x
        what = "%s reads coordinates / pin offsets from %s" % (q.split("::")[-1], sorted(pretty(o) for o in read))
        if not read:
            rep.unknown("AX", f.decl, f, what, "no geometric accessor of an incremental topology found (shape changed)")
        elif len(read) == 1:
            rep.holds("AX", f.decl, f, what, "a single topology: positions and offsets are on the same axis")
        else:
            minority = sorted(read.items(), key=lambda kv: len(kv[1]))[0]
            rep.violation("AX", minority[1][0], f, what, "%s comes from the other axis' topology: the pass optimises a position on one axis plus an "
                          "offset of the other and can make the wirelength worse" % pretty(canon(minority[1][0]))[:60],
                          key="%s|geometry read from both topologies" % f.short)


def check_fresh(ctx, rep):
    prog, eff = ctx.prog, ctx.eff
    trans = eff.transitive()
    run_f = prog.func1(CQ + "DetailedPlacer::run")
    reach = {run_f.key} | trans[run_f.key]["calls"]
    offs = {CQ + "IncrNetModel::netPinOffsets_", CQ + "IncrNetModel::cellPinOffsets_"}
    ori = CQ + "DetailedPlacement::cellOrientation_"
    ori_writers = [prog.funcs[k] for k in reach if k in prog.funcs and ori in (set(eff.summary(prog.funcs[k])["writes"]))]
    off_writers = [prog.funcs[k] for k in reach if k in prog.funcs and offs & set(eff.summary(prog.funcs[k])["writes"])]
    # the snapshot really is orientation dependent?
    dep = False
    for q in ("IncrNetModel::xTopology", "IncrNetModel::yTopology"):
        for f in prog.func(CQ + q):
            if any(callee_info(x)["qname"] in (CQ + "Circuit::pinXOffset", CQ + "Circuit::pinYOffset") for x in walk(f.body) if x.get("kind") == "CXXMemberCallExpr"):
                dep = True
    if not dep:
        rep.holds("DF", "-", None, "incremental model offsets no longer depend on the orientation")
        return
    if ori_writers and not off_writers:
        w = ori_writers[0]
        rep.violation("DF", w.decl, w, "orientation changes during detailed placement never refresh the incremental model's pin offsets",
                      "%s writes DetailedPlacement::cellOrientation_ (reachable from DetailedPlacer::run); IncrNetModel::netPinOffsets_/cellPinOffsets_ are "
                      "snapshots of the orientation-dependent Circuit::pinXOffset/pinYOffset taken at construction and no reachable function rewrites them: "
                      "the optimised value diverges from Circuit::hpwl() and the true wirelength can increase" % w.short,
                      key="DetailedPlacement::place|orientation change without refresh of IncrNetModel pin offsets")
    elif not ori_writers:
        rep.holds("DF", "-", None, "no orientation writer reachable from DetailedPlacer::run")
    else:
        rep.holds("DF", off_writers[0].decl, off_writers[0], "pin offsets are refreshed by %s" % [f.short for f in off_writers])
