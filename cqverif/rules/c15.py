"""C15 — free row space is exactly the rows minus fixed obstructions (structural clauses).

G12  Circuit::computeRows: the cells pushed as obstacles are exactly those that are fixed AND flagged as
     obstruction, with their *placed* footprint; every extra obstacle is kept; every row is processed
G13  Row::freespace: the row is inserted positively, every obstacle subtractively, the difference is cut into vertical
     strips, every emitted segment has the row's full height and the row's orientation
QF   geometry frame: computeRows / freespace / placement-area helpers never combine raw and placed geometry
QA   axis typing: x and y quantities are never compared / subtracted / min-maxed across axes in the geometry helpers
ROLE constructor arguments of Rectangle / Row / boost rectangles carry the axis and bound (min/max) their position requires
PV   every algorithm builder obtains its rows from computeRows(); raw rows_ is read only by the listed functions
"""
from ..frontend import AnalysisBroken
from ..model import qt, loc_str, walk, inner, desugared
from ..expr import canon, pretty, children, strip, callee_info, subterms, CALL_KINDS
from ..cfg import cfg_of
from ..qual import check_frame, axis_conflicts, axis_of, name_axis
from .common import CQ, short, is_fixed_test, loop_has_early_exit, field_writes, expand_locals

EXPLANATION = (
    "Static check on the clang-resolved AST. G12: in Circuit::computeRows the only push into the obstacle list inside the cell "
    "loop is placement(i), edge-dominated by isFixed(i) and isObstruction(i) (both true), the list is initialised from the extra "
    "obstacles, and freespace(obstacles) is called for every row of rows_ with all results appended. G13: in Row::freespace the "
    "row rectangle is inserted without the subtract flag, each obstacle (full-range loop) with it, every emitted Row is dominated "
    "by height equality and built with this->orientation. QF/QA/ROLE: qualifier typing (raw vs placed frame; x vs y axis; "
    "min/max role of constructor arguments) over Circuit's geometry helpers, Rectangle's methods and the row consumers. "
    "PV: Legalizer/DetailedPlacement/DensityGrid builders and computeRowPlacementArea take rows from computeRows(...); raw rows_ is "
    "read only by a frozen list of functions.")

DECLINED = ["the set equality itself: semantics of boost::polygon's 90-degree set difference and get_rectangles",
            "LegalizerBase::remainingRows' arithmetic on already-placed cells beyond the shared freespace call"]

SCOPE_FRAME = ["Circuit::computeRows", "Row::freespace", "Circuit::computePlacementArea", "Circuit::computeRowPlacementArea",
               "Circuit::placement", "Circuit::cellPlacement", "Circuit::rowHeight", "Circuit::setupRows",
               "LegalizerBase::remainingRows", "DensityGrid::fromIspdCircuit", "Legalizer::fromIspdCircuit"]
SCOPE_AXIS = SCOPE_FRAME + ["Rectangle::intersects", "Rectangle::contains", "Rectangle::intersection", "Rectangle::width",
                            "Rectangle::height", "Rectangle::area", "DensityGrid::computePlacementArea"]
ROWS_READERS = {
    "Circuit::computePlacementArea": "bounding box of all rows (documented: of the rows, not of the free space)",
    "Circuit::rowHeight": "row height is the same with or without obstructions",
    "Circuit::nbRows": "count",
    "Circuit::rows": "public getter",
    "Circuit::report": "reporting only",
    "Circuit::expandCellsToDensity": "maximum row width used as the cap of a cell width",
    "Circuit::computeRows": "the computation itself",
    "Circuit::setRows": "setter", "Circuit::setupRows": "setter", "Circuit::Circuit": "constructor",
}
CTOR_ROLES = {
    "coloquinte::Rectangle": [("X", "lo"), ("X", "hi"), ("Y", "lo"), ("Y", "hi")],
    "coloquinte::Row": [("X", "lo"), ("X", "hi"), ("Y", "lo"), ("Y", "hi")],
    "boost::polygon::rectangle_data<int>": [("X", "lo"), ("Y", "lo"), ("X", "hi"), ("Y", "hi")],
}


def run(ctx, rep, tier):
    prog = ctx.prog
    rep.rule("G12", "computeRows: obstacles = extra obstacles + placed footprint of cells that are fixed and obstruction; all rows processed", 3)
    rep.rule("G13", "freespace: row positive, obstacles subtracted, segments full height with the row's orientation", 3)
    rep.rule("QF", "no mix of raw and placed geometry in the free-space helpers and row consumers", 4)
    rep.rule("QA", "no cross-axis comparison / subtraction / min-max in the geometry helpers", 10)
    rep.rule("ROLE", "Rectangle / Row / boost rectangle constructor arguments have the axis and bound of their position", 10)
    rep.rule("LN", "the per-cell vectors computeRows reads have one entry per cell: their setters check the length before storing", 5)
    rep.rule("PV", "builders take rows from computeRows(); raw rows_ read only by listed functions", 5)
    rep.rule("TT", "isTurn() is true exactly for the four quarter-turn orientations (the placed footprint of an obstruction depends on it)", 8)
    from ..tables import Evaluator, OutsideFragment, Abort
    _ev = Evaluator(ctx.prog)
    _it = ctx.prog.func(CQ + "isTurn", required=False) or []
    if len(_it) != 1:
        rep.unknown("TT", None, None, "isTurn", "not found (shape changed)")
    else:
        for _n, _v in dict(_ev.enumerators(CQ + "CellOrientation")).items():
            if _n in ("INVALID", "UNKNOWN"):
                continue
            try:
                _got = _ev.call(_it[0], [_v])
            except (OutsideFragment, Abort) as _e:
                rep.unknown("TT", _it[0].decl, _it[0], "isTurn(%s)" % _n, "outside the evaluable fragment: %s" % _e)
                continue
            _want = _n in ("E", "W", "FE", "FW")
            if bool(_got) == _want:
                rep.holds("TT", _it[0].decl, _it[0], "isTurn(%s) = %s" % (_n, _want))
            else:
                rep.violation("TT", _it[0].decl, _it[0], "isTurn(%s) = %s" % (_n, bool(_got)), "a cell in orientation %s %s a quarter turn: placedWidth / placedHeight, and with "
                              "them the footprint subtracted from the rows for a fixed obstruction, exchange width and height exactly then" % (_n, "is" if _want else "is not"),
                              key="isTurn|%s" % _n)
    # placed footprint of an obstruction: placedWidth / placedHeight exchange the sizes exactly for the quarter turns
    # (the same exhaustive evaluation as C09-T3, restricted to the two functions computeRows depends on)
    from .c09 import make_evaluator
    from ..tables import Lin
    for _fn, _straight, _turned in (("placedWidth", "w", "h"), ("placedHeight", "h", "w")):
        _fs = ctx.prog.func(CQ + "Circuit::" + _fn, required=False) or []
        if len(_fs) != 1:
            rep.unknown("TT", None, None, _fn, "not found (shape changed)")
            continue
        for _n, _v in dict(_ev.enumerators(CQ + "CellOrientation")).items():
            if _n in ("INVALID", "UNKNOWN"):
                continue
            _want = Lin.sym(_turned if _n in ("E", "W", "FE", "FW") else _straight)
            try:
                _got = make_evaluator(ctx, _v).call(_fs[0], [Lin.sym("cell")])
            except (OutsideFragment, Abort) as _e:
                rep.unknown("TT", _fs[0].decl, _fs[0], "%s for orientation %s" % (_fn, _n), "outside the evaluable fragment: %s" % _e)
                continue
            if _got == _want:
                rep.holds("TT", _fs[0].decl, _fs[0], "%s(%s) = %s" % (_fn, _n, _got))
            else:
                rep.violation("TT", _fs[0].decl, _fs[0], "%s(%s) = %s" % (_fn, _n, _got), "the footprint of a fixed obstruction in orientation %s is %s wide/high there: "
                              "computeRows subtracts placement(i), built from this value" % (_n, _want), key="%s|%s" % (_fn, _n))
    check_g12(ctx, rep)
    check_g13(ctx, rep)
    fr = [f for q in SCOPE_FRAME for f in prog.func(CQ + q, required=False)]
    check_frame(ctx, rep, "QF", fr, "free space would be computed for the wrong footprint")
    for q in SCOPE_AXIS:
        for f in prog.func(CQ + q, required=False):
            cs = axis_conflicts(f)
            if cs:
                for x, what, a, b in cs:
                    rep.violation("QA", x, f, "cross-axis expression %s" % what[:90], "%s-typed and %s-typed quantities combined" % (a, b),
                                  key="%s|cross-axis %s" % (f.short, what[:50]))
            else:
                rep.holds("QA", f.decl, f, "%s is axis-consistent" % f.short)
    check_roles(ctx, rep)
    check_pv(ctx, rep)
    from .c19 import check_g17
    check_g17(ctx, rep, "LN", fields=("cellIsFixed_", "cellIsObstruction_", "cellX_", "cellY_", "cellWidth_", "cellHeight_", "cellOrientation_"))


def check_g12(ctx, rep):
    prog = ctx.prog
    f = prog.func1(CQ + "Circuit::computeRows")
    g = cfg_of(f)
    obst = None
    for x in walk(f.body):
        if x.get("kind") == "VarDecl" and "vector<" in qt(x) and "Rectangle" in qt(x):
            obst = x
            break
    if obst is None:
        rep.unknown("G12", f.decl, f, "obstacle list", "local obstacle vector not found")
        return
    init = canon(children(obst)[-1]) if children(obst) else ("none",)
    p0 = f.params[0] if f.params else None
    if p0 is not None and init == ("var", p0.get("id"), p0.get("name")):
        rep.holds("G12", obst, f, "obstacle list starts from every additional obstacle")
    else:
        rep.violation("G12", obst, f, "obstacle list initialised with %s" % pretty(init), "additional obstacles must all be kept",
                      key="Circuit::computeRows|extra obstacles dropped")
    ov = ("var", obst.get("id"), obst.get("name"))
    pushes = [x for x in walk(f.body) if x.get("kind") == "CXXMemberCallExpr" and callee_info(x)["name"] in ("push_back", "emplace_back")
              and callee_info(x)["obj"] is not None and canon(callee_info(x)["obj"]) == ov]
    if not pushes:
        rep.violation("G12", f.decl, f, "no cell is ever added as an obstacle", "", key="Circuit::computeRows|no obstacle push")
    for x in pushes:
        a = canon(callee_info(x)["args"][0]) if callee_info(x)["args"] else ("none",)
        while a[0] == "construct" and len(a) == 3:
            a = a[2]
        guards = ctx.guards(f, x) or []
        what = "obstacle push %s" % pretty(a)[:80]
        if not (a[0] == "call" and a[1] == CQ + "Circuit::placement"):
            rep.violation("G12", x, f, what, "the obstacle must be the placed footprint placement(i) of the cell", key="Circuit::computeRows|obstacle is not placement(i)")
            continue
        i = a[3]
        fixed = any(is_fixed_test(gc, idx=i) and val is True for gc, val, _a, _b in guards)
        obs = any(gc[0] == "call" and gc[1] == CQ + "Circuit::isObstruction" and gc[3] == i and val is True for gc, val, _a, _b in guards) or \
            any(gc[0] == "index" and gc[1][0] == "field" and gc[1][1] == CQ + "Circuit::cellIsObstruction_" and gc[2] == i and val is True for gc, val, _a, _b in guards)
        extra = [pretty(gc) for gc, val, _a, _b in guards if not is_fixed_test(gc) and "isObstruction" not in pretty(gc) and "nbCells" not in pretty(gc)]
        if fixed and obs and not extra:
            rep.holds("G12", x, f, what, "dominated by isFixed(i) and isObstruction(i)")
        else:
            why = []
            if not fixed:
                why.append("movable cells would be treated as obstacles (no isFixed(i) guard)")
            if not obs:
                why.append("fixed cells flagged as non-obstructions would be removed from the rows (no isObstruction(i) guard)")
            if extra:
                why.append("some fixed obstructions are skipped under the extra condition(s) %s" % extra)
            rep.violation("G12", x, f, what, "; ".join(why), key="Circuit::computeRows|obstacle filter")
    # the obstacle list is only grown: a pruning step must be sound for *every* order and shape of the rows
    for x in walk(f.body):
        if x.get("kind") not in ("CXXMemberCallExpr", "CallExpr"):
            continue
        ci = callee_info(x)
        if not ci:
            continue
        removal = (ci["is_member"] and ci["obj"] is not None and canon(ci["obj"]) == ov and ci["name"] in ("erase", "pop_back", "clear", "resize", "assign")) or \
                  (not ci["is_member"] and ci["name"] in ("remove_if", "remove", "unique", "partition") and ci["args"] and
                   any(t == ov for t in subterms(canon(ci["args"][0]))))
        if not removal:
            continue
        if ci["is_member"] and ci["name"] == "erase" and any(callee_info(y) and callee_info(y)["name"] in ("remove_if", "remove", "unique")
                                                             for y in walk(x) if y is not x and y.get("kind") == "CallExpr"):
            continue            # the erase half of erase(remove_if(...)): judged at the remove_if
        # bounds used by the pruning predicate
        lam = [y for y in walk(x) if y.get("kind") == "LambdaExpr"]
        caps = set()
        for l_ in lam:
            for y in walk(l_):
                if y.get("kind") == "DeclRefExpr" and (y.get("referencedDecl") or {}).get("kind") == "VarDecl":
                    caps.add((y.get("referencedDecl") or {}).get("id"))
        single = []
        for vid in caps:
            d = f.unit.by_id.get(vid)
            init = canon(children(d)[-1]) if d is not None and d.get("kind") == "VarDecl" and children(d) else None
            if init is not None and any(t[0] == "call" and t[1] in ("front", "back") or (t[0] == "index" and t[2][0] == "lit")
                                        for t in subterms(init) if isinstance(t, tuple) and t):
                single.append((d.get("name"), pretty(init)))
        what = "obstacles are removed from the list (%s)" % ci["name"]
        if single:
            rep.violation("G12", x, f, what, "the pruning bound(s) %s come from one particular row (%s): rows may be given in any order, so an "
                          "obstacle inside the placement area can be dropped and the rows returned overlap it" % (
                              [n_ for n_, _i in single], single[0][1][:50]), key="Circuit::computeRows|obstacles pruned by a single row's bounds")
        else:
            rep.unknown("G12", x, f, what, "soundness of the pruning is not analysed: every obstacle must still be subtracted from every row it touches")
    # every row processed, all segments kept
    loops = [x for x in walk(f.body) if x.get("kind") == "CXXForRangeStmt"]
    row_loop = None
    for l in loops:
        var = inner(list(inner(l))[6])[0]
        if var.get("_rangevar") is not None and canon(var["_rangevar"]) == ("field", CQ + "Circuit::rows_", ("this",)):
            row_loop = (l, var)
    if row_loop is None:
        rep.violation("G12", f.decl, f, "no loop over rows_", "", key="Circuit::computeRows|rows not iterated")
        return
    l, var = row_loop
    body = list(inner(l))[7]
    fs = [x for x in walk(body) if x.get("kind") == "CXXMemberCallExpr" and callee_info(x)["qname"] == CQ + "Row::freespace"]
    skip = loop_has_early_exit(body) or next((y for y in walk(body) if y.get("kind") == "ContinueStmt"), None)
    ok = bool(fs) and canon(callee_info(fs[0])["args"][0]) == ov and skip is None
    ins = [x for x in walk(body) if x.get("kind") == "CXXMemberCallExpr" and callee_info(x)["name"] in ("insert", "push_back", "emplace_back")]
    ins += [x for x in walk(body) if x.get("kind") == "CallExpr" and callee_info(x) and callee_info(x)["name"] in ("copy", "move", "copy_n") and
            any(y.get("kind") == "CallExpr" and callee_info(y) and callee_info(y)["name"] in ("back_inserter", "inserter") for y in walk(x))]
    if ok and ins:
        rep.holds("G12", l, f, "freespace(obstacles) evaluated for every row, results appended")
    elif ok:
        rep.unknown("G12", l, f, "freespace(obstacles) evaluated for every row", "how the segments are appended to the result was not recognised")
    else:
        rep.violation("G12", l, f, "not every row is reduced by the full obstacle list", "freespace calls: %d, early exit/skip: %s" % (len(fs), skip is not None),
                      key="Circuit::computeRows|row loop incomplete")


def check_g13(ctx, rep):
    prog = ctx.prog
    f = prog.func1(CQ + "Row::freespace")
    inserts = [x for x in walk(f.body) if x.get("kind") == "CXXMemberCallExpr" and callee_info(x)["name"] == "insert"]
    pos = [x for x in inserts if len([a for a in callee_info(x)["args"] if a.get("kind") != "CXXDefaultArgExpr"]) == 1]
    neg = [x for x in inserts if len([a for a in callee_info(x)["args"] if a.get("kind") != "CXXDefaultArgExpr"]) >= 2]
    if len(pos) == 1 and not (ctx.guards(f, pos[0]) or []):
        a = canon(callee_info(pos[0])["args"][0])
        own = all(t[2] == ("this",) for t in subterms(a) if t[0] == "field")
        if own:
            rep.holds("G13", pos[0], f, "the row's own rectangle is inserted positively, unconditionally")
        else:
            rep.violation("G13", pos[0], f, "positive insert is not the row's own rectangle", pretty(a), key="Row::freespace|positive insert")
    else:
        rep.violation("G13", f.decl, f, "%d unconditional positive insert(s) of the row" % len(pos), "exactly one expected", key="Row::freespace|positive insert count")
    okneg = False
    for x in neg:
        args = callee_info(x)["args"]
        flag = canon(args[1])
        lp = x
        while lp is not None and lp.get("kind") != "CXXForRangeStmt":
            lp = lp.get("_p")
        if flag == ("lit", True) and lp is not None:
            var = inner(list(inner(lp))[6])[0]
            p0 = f.params[0]
            full = var.get("_rangevar") is not None and canon(var["_rangevar"]) == ("var", p0.get("id"), p0.get("name"))
            body = list(inner(lp))[7]
            verdict, node, why = obstacle_skips(ctx, f, body, var)
            if full and verdict == "ok":
                okneg = True
            elif full and verdict == "bad":
                rep.violation("G13", node, f, "an overlapping obstacle can be skipped in the subtraction loop", why, key="Row::freespace|obstacle skipped")
                okneg = None
            elif full:
                rep.unknown("G13", node, f, "obstacle loop", why)
                okneg = None
    # what is subtracted is the obstacle itself; a bound replaced by the row's own bound ("cut over the whole height") is sound only
    # for obstacles that really overlap the row on that axis with a positive extent
    for x in neg:
        _check_inflation(ctx, rep, f, x)
    if okneg:
        rep.holds("G13", neg[0], f, "every obstacle is inserted with the subtract flag (full-range loop, no skip)")
    elif okneg is False:
        rep.violation("G13", f.decl, f, "obstacles are not all subtracted", "no full-range loop inserting each obstacle with the subtract flag",
                      key="Row::freespace|obstacles not subtracted")
    # slicing direction of the decomposition: the full-height filter below presumes vertical strips
    decs = [x for x in walk(f.body) if x.get("kind") in ("CallExpr", "CXXMemberCallExpr") and callee_info(x) and callee_info(x)["name"] == "get_rectangles"]
    if not decs:
        rep.unknown("G13", f.decl, f, "decomposition of the difference", "no call to boost::polygon get_rectangles found (shape changed)")
    for x in decs:
        names = {y.get("referencedDecl", {}).get("name") for y in walk(x) if y.get("kind") == "DeclRefExpr"}
        member_form = x.get("kind") == "CXXMemberCallExpr" and "polygon_90_set_data" in qt(callee_info(x)["obj"] or {}) and len(callee_info(x)["args"]) == 1
        if "HORIZONTAL" in names or (member_form and "VERTICAL" not in names):
            rep.violation("G13", x, f, "the difference is sliced into horizontal slabs" + (" (polygon_90_set_data::get_rectangles(out) slices along the set's own "
                          "orientation, HORIZONTAL unless the set was built otherwise; the free function get_rectangles(out, set) slices vertically)" if member_form and "HORIZONTAL" not in names else ""),
                          "the full-height filter then drops every column next to a partially covering obstruction; vertical strips (the default) are required",
                          key="Row::freespace|horizontal slicing")
        else:
            rep.holds("G13", x, f, "the difference is decomposed into vertical strips (%s)" % ("explicit VERTICAL" if "VERTICAL" in names else "library default"))
    # emitted rows
    emits = [x for x in walk(f.body) if x.get("kind") == "CXXMemberCallExpr" and callee_info(x)["name"] in ("emplace_back", "push_back")
             and "Row" in qt(callee_info(x)["obj"])]
    if not emits:
        rep.violation("G13", f.decl, f, "no segment is ever emitted", "", key="Row::freespace|no emit")
    for x in emits:
        lp = x.get("_p")
        while lp is not None and lp.get("kind") not in ("CXXForRangeStmt", "ForStmt", "WhileStmt"):
            lp = lp.get("_p")
        if lp is None:
            continue
        ex = loop_has_early_exit([c_ for c_ in inner(lp) if isinstance(c_, dict)][-1])
        if ex is not None and ex.get("kind") != "CXXThrowExpr":
            rep.violation("G13", ex, f, "the scan of the free rectangles can stop early (%s)" % ex.get("kind"), "the rectangles come in no order that would make the rest "
                          "uninteresting: every free column after the one that stops the scan is dropped from the row", key="Row::freespace|scan of the free rectangles stopped early")
    for x in emits:
        args = [canon(a) for a in callee_info(x)["args"]]
        guards = ctx.guards(f, x) or []
        hq = False
        for gc, val, _a, _b in guards:
            if gc[0] == "bin" and ((gc[1] == "==" and val is True) or (gc[1] == "!=" and val is False)):
                names = {pretty(gc[2]), pretty(gc[3])}
                if any(n.endswith(".height()") or n.endswith("::height()") for n in names) and any("Rectangle::height()" == n or n == "height()" for n in names):
                    hq = True
                if len(names) == 2 and all("height" in n for n in names):
                    hq = True
        orient = any(a == ("field", CQ + "Row::orientation", ("this",)) for a in args)
        if hq and orient:
            rep.holds("G13", x, f, "segment emitted only at full row height, with the row's orientation")
        else:
            why = []
            if not hq:
                why.append("not dominated by newRow.height() == height(): partially covered slabs would be offered as free space")
            if not orient:
                why.append("segment not built with this->orientation")
            rep.violation("G13", x, f, "emitted segment", "; ".join(why), key="Row::freespace|emitted segment")


def _check_inflation(ctx, rep, f, x):
    from ..order import Facts
    a = canon(callee_info(x)["args"][0])
    coords = [t for t in a[2:] if isinstance(t, tuple)] if a[0] in ("construct", "call", "initlist") else []
    if len(coords) != 4:
        return
    own = [t for t in coords if t[0] == "field" and t[2] == ("this",)]
    if not own:
        return
    obst = [t for t in coords if t[0] == "field" and t[2] != ("this",)]
    if not obst:
        rep.violation("G13", x, f, "the subtracted rectangle is the row itself", pretty(a)[:80], key="Row::freespace|subtracted rectangle")
        return
    base = obst[0][2]
    F = Facts()
    for gc, val, _a, _b in (ctx.guards(f, x) or []):
        F.add_cond(gc, val)
    for axis in ("X", "Y"):
        if not any(t[1].endswith("min" + axis) or t[1].endswith("max" + axis) for t in own):
            continue
        R = CQ + "Rectangle::"
        rmin, rmax = ("field", R + "min" + axis, ("this",)), ("field", R + "max" + axis, ("this",))
        omin, omax = ("field", R + "min" + axis, base), ("field", R + "max" + axis, base)
        reach = F.derives(omax, rmin, strict=True) and F.derives(rmax, omin, strict=True)
        solid = F.derives(omax, omin, strict=True)
        what = "obstacle cut over the whole %s extent of the row" % ("height" if axis == "Y" else "width")
        if reach and solid:
            rep.holds("G13", x, f, what, "only for obstacles of positive extent that overlap the row on that axis")
        elif reach:
            rep.violation("G13", x, f, what, "the dominating tests let a degenerate obstacle through (min%s == max%s strictly inside the row): it covers "
                          "nothing, yet it is turned into a full-%s blocker and splits the row" % (axis, axis, "height" if axis == "Y" else "width"),
                          key="Row::freespace|degenerate obstacle inflated")
        else:
            rep.violation("G13", x, f, what, "not restricted to obstacles that overlap the row on that axis: an obstacle above or below the row would "
                          "remove its columns", key="Row::freespace|obstacle inflated without overlap test")


def obstacle_skips(ctx, f, body, var):
    """Skips inside the obstacle loop are sound only under a disjunction of separation tests
    (obstacle.max_A <= row.min_A or obstacle.min_A >= row.max_A, same axis A). Returns (verdict, node, why)."""
    g = cfg_of(f)
    ee = loop_has_early_exit(body)
    if ee is not None:
        return "bad", ee, "break/return inside the loop over obstacles: later obstacles are not subtracted"
    skips = [y for y in walk(body) if y.get("kind") == "ContinueStmt"]
    ifs = [y for y in walk(body) if y.get("kind") == "IfStmt"]
    if not skips and not ifs:
        return "ok", None, ""
    if len(ifs) != len(skips):
        return "unknown", ifs[0], "conditional other than a skip inside the obstacle loop (shape not recognised)"
    ov = ("elem", None, var.get("id"))
    for sk in skips:
        n = g.node_for(sk)
        preds, seen, edges = list(n.pred), set(), []
        while preds:
            p = preds.pop()
            if p.idx in seen:
                continue
            seen.add(p.idx)
            if p.kind == "edge":
                edges.append(p)
            elif p.kind == "join":
                preds.extend(p.pred)
            else:
                return "unknown", sk, "skip reached through an unrecognised path"
        for e in edges:
            c = canon(e.ast)
            ce = expand_locals(ctx, f, c)
            # "the obstacle is empty": its area is not positive. Sound when the area is computed in 64 bits (Rectangle::area()); a 32-bit
            # product of its extents wraps for large macros (50000 x 56000) and the obstacle is silently not subtracted
            if ce[0] == "bin" and ce[1] in ("<=", "==", "<") and e.val is True and ce[3][0] == "lit" and str(ce[3][1]) in ("0", "1"):
                lhs = ce[2]
                if lhs[0] == "call" and str(lhs[1]).endswith("Rectangle::area"):
                    continue
                if lhs[0] == "bin" and lhs[1] == "*" and all(t[0] == "call" and str(t[1]).split("::")[-1] in ("width", "height") for t in lhs[2:4]):
                    return "bad", e.ast, "skip condition `%s` tests the obstacle's area through the 32-bit product %s: it wraps to a non-positive value for " \
                        "large obstacles, which are then not subtracted at all" % (pretty(c), pretty(lhs))
            ok, why = separation_atom(c, e.val, var)
            if ok is False:
                return "bad", e.ast, "skip condition `%s` %s" % (pretty(c), why)
            if ok is None:
                return "unknown", e.ast, "skip condition `%s` is not a separation test (%s)" % (pretty(c), why)
    return "ok", None, ""


def separation_atom(c, val, var):
    """True: obstacle and row are disjoint along one axis; False: compares obstacle and row bounds but wrongly;
    None: something else."""
    if c[0] != "bin" or c[1] not in ("<=", "<", ">=", ">") or val is not True:
        return None, "not an ordering comparison taken as true"
    def side(t):
        # (owner 'O' obstacle / 'R' row, axis, role)
        if t[0] != "field":
            return None
        name = t[1].split("::")[-1]
        if name not in ("minX", "maxX", "minY", "maxY"):
            return None
        base = t[2]
        if base == ("this",):
            owner = "R"
        elif (base[0] == "var" and base[1] == var.get("id")) or (base[0] == "elem" and base[2] == var.get("id")):
            owner = "O"
        else:
            return None
        return owner, name[3], name[:3]
    l, r = side(c[2]), side(c[3])
    if l is not None and r is not None and l[0] == r[0] == "O" and l[1] == r[1]:
        # the obstacle's own extent on one axis: min >= max means it is empty there and covers nothing
        lo_, hi_ = (l, r) if c[1] in (">=", ">") else (r, l)
        if lo_[2] == "min" and hi_[2] == "max":
            return True, ""
    if l is None or r is None or l[0] == r[0]:
        return None, "does not compare an obstacle bound with a row bound"
    op = c[1]
    if op in (">=", ">"):
        l, r = r, l      # normalise to  l <= r
    if l[1] != r[1]:
        return False, "compares a %s bound with a %s bound: obstacles that do overlap the row can be dropped" % (l[1].lower(), r[1].lower())
    if l[2] == "max" and r[2] == "min":
        return True, ""
    return False, "is not a disjointness test (needs max <= min along one axis)"


def role_of(c):
    """(axis, 'lo'|'hi'|None) of a canonical integer expression."""
    ax = axis_of(c)
    names = []
    for t in subterms(c):
        if t[0] == "field":
            names.append(t[1].split("::")[-1])
        elif t[0] == "var":
            names.append(str(t[2]))
        elif t[0] == "call":
            names.append(t[1].split("::")[-1])
    lo = any(n.lower().startswith("min") or n in ("xl", "yl") for n in names)
    hi = any(n.lower().startswith("max") or n in ("xh", "yh") for n in names)
    for t in subterms(c):
        if t[0] == "call" and t[1].split("::")[-1] in ("xl", "xh"):
            ax = ax or "X"
        if t[0] == "call" and t[1].split("::")[-1] in ("yl", "yh"):
            ax = ax or "Y"
    if c[0] == "bin" and c[1] == "+" and not (lo or hi):
        return ax, None
    role = "lo" if lo and not hi else ("hi" if hi and not lo else None)
    if c[0] == "bin" and c[1] in ("+", "-"):
        role = None
    if c[0] == "call" and c[1].split("::")[-1] in ("max", "min"):
        role = None
    return ax, role


def check_roles(ctx, rep):
    prog = ctx.prog
    seen = set()
    for f in prog.all_funcs(with_lambdas=False):
        for x in walk(f.body):
            if x.get("kind") not in ("CXXConstructExpr", "CXXTemporaryObjectExpr", "CXXMemberCallExpr"):
                continue
            args = None
            t = None
            if x.get("kind") == "CXXMemberCallExpr":
                ci = callee_info(x)
                if ci["name"] == "emplace_back" and ci["obj"] is not None:
                    ot = desugared(ci["obj"]) + qt(ci["obj"])
                    if "vector<coloquinte::Rectangle" in ot or "vector<Rectangle" in ot:
                        t = "coloquinte::Rectangle"
                    elif "vector<coloquinte::Row" in ot or "vector<Row" in ot:
                        t = "coloquinte::Row"
                    args = ci["args"]
            else:
                tt = (desugared(x) or qt(x)).replace("const ", "").strip()
                qq = qt(x).replace("const ", "").strip()
                for k in CTOR_ROLES:
                    if tt == k or qq == k or qq == k.split("::")[-1] or (k.startswith("boost") and "rectangle_data<int>" in qq):
                        t = k
                args = [a for a in children(x)]
            if t is None or args is None:
                continue
            roles = CTOR_ROLES[t]
            ints = [a for a in args if qt(a).replace("const ", "") in ("int", "long long", "float", "double") or desugared(a) in ("int",)]
            if len(ints) < 4 or len(args) < 4:
                continue
            key = loc_str(x)
            if key in seen:
                continue
            seen.add(key)
            bad = []
            for i, (eax, erole) in enumerate(roles):
                ax, role = role_of(canon(args[i]))
                if ax is not None and ax != eax:
                    bad.append("argument %d (%s) is %s-typed, position requires %s" % (i + 1, pretty(canon(args[i]))[:40], ax, eax))
                elif role is not None and role != erole:
                    bad.append("argument %d (%s) is a %s bound, position requires the %s bound" % (i + 1, pretty(canon(args[i]))[:40],
                                                                                                   "lower" if role == "lo" else "upper", "lower" if erole == "lo" else "upper"))
            what = "%s(%s)" % (t.split("::")[-1], ", ".join(pretty(canon(a))[:25] for a in args[:4]))
            owner = ctx.eff.func_of_node(x) or f
            if bad:
                rep.violation("ROLE", x, owner, what, "; ".join(bad), key="%s|argument roles of %s" % (owner.short, t.split("::")[-1]))
            else:
                rep.holds("ROLE", x, owner, what)


def check_pv(ctx, rep, rid="PV", only=None):
    prog, eff = ctx.prog, ctx.eff
    builders = {
        "Legalizer::fromIspdCircuit": None, "DensityGrid::fromIspdCircuit": None, "Circuit::computeRowPlacementArea": None,
    }
    fl = [prog.func1(CQ + q) for q in builders] + list(prog.func(CQ + "DetailedPlacement::fromIspdCircuit"))
    if only is not None:
        fl = [f for f in fl if f.short in only]
    for f in fl:
        calls = [x for x in walk(f.body) if x.get("kind") == "CXXMemberCallExpr" and callee_info(x)["qname"] == CQ + "Circuit::computeRows"]
        raw = [x for x in walk(f.body) if x.get("kind") == "CXXMemberCallExpr" and callee_info(x)["qname"] == CQ + "Circuit::rows"]
        s = eff.summary(f)
        rawf = s["reads"].get(CQ + "Circuit::rows_", [])
        if calls and not raw and not rawf:
            rep.holds(rid, calls[0], f, "%s takes its rows from computeRows(...)" % f.short)
        else:
            rep.violation(rid, (raw or [f.decl])[0], f, "%s does not (only) use the obstruction-free rows" % f.short,
                          "computeRows calls: %d, raw rows()/rows_ reads: %d" % (len(calls), len(raw) + len(rawf)),
                          key="%s|uses raw rows" % f.short)
    if only is not None:
        return
    # who reads rows_ / rows()
    for f in prog.funcs.values():
        s = eff.summary(f)
        reads = s["reads"].get(CQ + "Circuit::rows_", []) + s["writes"].get(CQ + "Circuit::rows_", [])
        rcalls = [x for x in walk(f.body) if x.get("kind") == "CXXMemberCallExpr" and callee_info(x)["qname"] == CQ + "Circuit::rows"]
        if not reads and not rcalls:
            continue
        if f.short in ROWS_READERS or f.unit.name.endswith("export.cpp"):
            continue
        rep.violation(rid, (rcalls or [reads[0][0]])[0], f, "%s reads the raw rows" % f.short,
                      "raw rows include the space under fixed obstructions; only %s may read them" % sorted(ROWS_READERS),
                      key="%s|reads raw rows" % f.short)
