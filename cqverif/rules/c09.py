"""C09 — wirelength is geometrically exact and incrementally consistent.

T3   exhaustive symbolic evaluation of isTurn / placedWidth / placedHeight / pinXOffset / pinYOffset
     for each of the 8 orientations against the DEF transform table
H1   Circuit::hpwl: every pin of every net contributes x(cell)+pinXOffset / y(cell)+pinYOffset to the
     bounding box, and both extents are accumulated
W4   who-may-write the incremental model's position / bound / value state
R5   updateCellPos recomputes every net of the moved cell (full range, no skip); recomputeNet writes the
     bound and the value together, value += (new extent) - (old extent)
PI   code that accesses pin K of a net without a test needs the builder to filter nets with fewer than K+1 pins
TP   the x (y) topology of the incremental model takes x (y) positions and x (y) pin offsets
"""
import json
import os

from ..frontend import VERIF, AnalysisBroken
from ..model import qt, loc_str, walk, inner
from ..expr import member_decl, canon, pretty, children, strip, callee_info, subterms
from ..cfg import cfg_of
from ..tables import Evaluator, Lin, EnumVal, OutsideFragment, Abort
from .common import CQ, short, for_loop_info, loop_has_early_exit, expand_locals, field_writes

EXPLANATION = (
    "Static check on the clang-resolved AST. T3: the orientation dispatch of Circuit::pinXOffset/pinYOffset/placedWidth/"
    "placedHeight and isTurn is evaluated by constant propagation over the AST for each of the 8 orientations, with cell width, "
    "height and raw pin offsets kept symbolic (w, h, px, py); the resulting linear forms must equal the DEF transform table in "
    "rules/orientation_spec.json (exhaustive: 8 orientations x 5 functions). H1: in Circuit::hpwl the pin loop ranges over "
    "0..nbPinsNet(net) without early exit, the pin position is x(cell)+pinXOffset(net,pin) (resp. y), min/max are taken on the "
    "same axis and both extents are added to the result. W4: IncrNetModel::cellPos_ is written only by the builder and "
    "updateCellPos; netMinMaxPos_ and value_ only by finalize and recomputeNet. R5: updateCellPos loops over 0..nbCellPins(cell) "
    "and a call recomputeNet(pinNet(cell,i)) dominates the loop increment with no early exit; recomputeNet stores the recomputed "
    "bounds and adds (new max-min) - (old max-min) to value_ unconditionally. TP: x/yTopology feed x()/pinXOffset (y()/pinYOffset) "
    "consistently.")

DECLINED = ["arithmetic equality over whole update histories beyond these per-step invariants",
            "int overflow of extents (covered by C07's magnitude clause)"]

SYMS = {"cellWidth_": "w", "cellHeight_": "h", "pinXOffsets_": "px", "pinYOffsets_": "py"}


def parse_lin(s):
    out = Lin(0)
    sign = 1
    for tok in s.replace("-", " - ").replace("+", " + ").split():
        if tok == "-":
            sign = -1
        elif tok == "+":
            sign = 1
        else:
            out = out + (Lin.sym(tok) if sign == 1 else -Lin.sym(tok))
            sign = 1
    return out


def make_evaluator(ctx, orient_val):
    prog = ctx.prog

    def hook_orientation(ev, args, node, env):
        return orient_val

    def hook_pincell(ev, args, node, env):
        return Lin.sym("cell")

    def hook_member(ev, e, env, depth):
        d = member_decl(e)
        if d is not None and d.get("kind") == "FieldDecl" and (d.get("_q") or "").split("::")[-1] in SYMS:
            return ("fieldref", d.get("_q").split("::")[-1])
        raise OutsideFragment("MemberExpr at line %s" % (e.get("range", {}).get("begin", {}).get("line")))

    def hook_subscript(ev, ci, node, env, depth):
        oc = canon(ci["obj"])
        if not (oc[0] == "field" and oc[2] == ("this",)):
            # a local reference bound to one of the per-pin / per-cell arrays
            v = ev.expr(ci["obj"], env, depth)
            if isinstance(v, tuple) and v and v[0] == "fieldref":
                oc = ("field", CQ + "Circuit::" + v[1], ("this",))
        if oc[0] == "field" and oc[2] == ("this",):
            name = oc[1].split("::")[-1]
            if name in SYMS:
                idx = canon(ci["args"][0])
                if idx[0] == "var":
                    # a named local holding the index: look through its (single) initialiser
                    fn = ctx.func_containing(node)
                    d = fn.unit.by_id.get(idx[1]) if fn is not None else None
                    if d is not None and d.get("kind") == "VarDecl" and children(d) and name.startswith("pin"):
                        from .common import var_write_nodes
                        if not var_write_nodes(ctx, fn, [idx[1]]):
                            idx = canon(children(d)[-1])
                # the index must designate the pin (netLimits_[net] + i) resp. the cell
                if name.startswith("pin") and idx[0] == "call":
                    from .common import inline_getters
                    idx = inline_getters(ctx, idx, with_params=True)      # a private accessor `pinIndex(net, i)`
                if name.startswith("pin"):
                    ok = idx[0] == "bin" and idx[1] == "+" and idx[2][0] == "index" and idx[2][1][1].endswith("netLimits_")
                else:
                    ok = idx[0] == "var"
                if not ok:
                    raise OutsideFragment("unexpected index %s of %s" % (pretty(idx), name))
                return Lin.sym(SYMS[name])
            if name == "netLimits_":
                return Lin.sym("netLimits")
        raise OutsideFragment("subscript of %s" % pretty(oc))

    hooks = {CQ + "Circuit::orientation": hook_orientation, CQ + "Circuit::pinCell": hook_pincell,
             "subscript": hook_subscript, "member": hook_member}
    return Evaluator(prog, hooks)


def run(ctx, rep, tier):
    prog, eff = ctx.prog, ctx.eff
    spec = json.load(open(os.path.join(VERIF, "rules", "orientation_spec.json")))
    rep.rule("T3", "orientation transforms of width/height/pin offsets equal the DEF table (exhaustive symbolic evaluation)", 40)
    rep.rule("H1", "Circuit::hpwl: all pins, same-axis position + offset, both extents accumulated", 5)
    rep.rule("W4", "who-may-write IncrNetModel position / bound / value state", 3)
    rep.rule("R5", "updateCellPos recomputes every net of the cell; recomputeNet updates bound and value together", 4)
    rep.rule("PI", "implicit minimum pin count of the net models is guaranteed by the builders' filters", 2)
    rep.rule("TP", "incremental topologies built from same-axis positions and offsets", 4)
    rep.rule("SN", "running minima / maxima start on the neutral side and 'nothing seen' is tested as min > max", 6)
    rep.rule("LA", "per-net accumulators (pin extremes, pin lists) are reset for every net", 8)
    rep.rule("NF", "the model builders drop a net only for having fewer than two pins", 1)
    rep.rule("MX", "subset topologies push model cell indices (the mapped value), never circuit indices; offsets are not clamped; the builder keeps every pin", 4)
    check_model_index_space(ctx, rep)
    rep.rule("BK", "the cell -> nets index of the incremental model is counted and filled over the same pins", 1)
    from .common import check_two_pass_buckets
    _fin = [f_ for f_ in ctx.prog.funcs.values() if f_.cls == CQ + "IncrNetModel" and f_.body is not None]
    if not _fin or check_two_pass_buckets(ctx, rep, "BK", _fin) == 0:
        rep.unknown("BK", None, None, "IncrNetModel::finalize", "count pass / fill pass of the cell -> nets index not found (shape changed)")
    rep.rule("QF", "net-model builders read placed (orientation-aware) geometry only", 4)

    # ---- T3 -------------------------------------------------------------------
    CO = CQ + "CellOrientation"
    fns = {
        "isTurn": prog.func1(CQ + "isTurn"),
        "placedWidth": prog.func1(CQ + "Circuit::placedWidth"),
        "placedHeight": prog.func1(CQ + "Circuit::placedHeight"),
        "pinXOffset": prog.func1(CQ + "Circuit::pinXOffset"),
        "pinYOffset": prog.func1(CQ + "Circuit::pinYOffset"),
    }
    ev0 = Evaluator(prog)
    names = dict((n, v) for n, v in ev0.enumerators(CO))
    for o in spec["names"]:
        if o not in names:
            raise AnalysisBroken("orientation %s not found in enum CellOrientation" % o)
        ov = names[o]
        ev = make_evaluator(ctx, ov)
        turned = spec["turned"][o]
        expect = {
            "isTurn": turned,
            "placedWidth": Lin.sym("h") if turned else Lin.sym("w"),
            "placedHeight": Lin.sym("w") if turned else Lin.sym("h"),
            "pinXOffset": parse_lin(spec["pin_x"][o]),
            "pinYOffset": parse_lin(spec["pin_y"][o]),
        }
        for fname, f in fns.items():
            try:
                if fname == "isTurn":
                    got = ev.call(f, [ov])
                elif fname.startswith("placed"):
                    got = ev.call(f, [Lin.sym("cell")])
                else:
                    got = ev.call(f, [Lin.sym("net"), Lin.sym("i")])
            except OutsideFragment as e:
                rep.unknown("T3", f.decl, f, "%s for orientation %s" % (fname, o), "outside the evaluable fragment: %s" % e)
                continue
            except Abort:
                rep.violation("T3", f.decl, f, "%s aborts for orientation %s" % (fname, o), "reaches a noreturn call",
                              key="%s|aborts for %s" % (f.short, o))
                continue
            what = "%s(%s) = %s" % (fname, o, got)
            if got == expect[fname] or (isinstance(got, bool) and got is expect[fname]):
                rep.holds("T3", f.decl, f, what, "matches the DEF table")
            else:
                rep.violation("T3", f.decl, f, what, "DEF semantics require %s" % (expect[fname],),
                              key="%s|wrong transform for %s" % (f.short, o))

    # ---- TW: the x and the y topology builders are each other's image --------------------
    rep.rule("TW", "IncrNetModel::xTopology / yTopology (all-cells and subset forms) are each other's X<->Y image: same calls, members, operators and literals", 1)
    from .c06 import swap_axis, name_bag
    _nt = 0
    for _a in prog.func(CQ + "IncrNetModel::xTopology", required=False) or []:
        _bs = [b for b in (prog.func(CQ + "IncrNetModel::yTopology", required=False) or []) if len(b.params) == len(_a.params)]
        if len(_bs) != 1 or _a.body is None or _bs[0].body is None:
            continue
        _b = _bs[0]
        _nt += 1
        # comparison and logical operators do not count: an equivalent test written differently on one side is not a difference
        _cmp = ("op<", "op<=", "op>", "op>=", "op==", "op!=", "op&&", "op||", "op!")
        _ba = {swap_axis(k): v for k, v in name_bag(_a).items() if k not in _cmp}
        _bb = {k: v for k, v in name_bag(_b).items() if k not in _cmp}
        if _ba == _bb:
            rep.holds("TW", _a.decl, _a, "%s/%d mirrors %s" % (_a.short, len(_a.params), _b.short), "%d distinct names/operators agree" % len(_bb))
        else:
            _diff = ["%s: %d vs %d" % (k, _ba.get(k, 0), _bb.get(k, 0)) for k in sorted(set(_ba) | set(_bb)) if _ba.get(k, 0) != _bb.get(k, 0)]
            rep.violation("TW", _b.decl, _b, "%s/%d is not the X<->Y image of %s" % (_b.short, len(_b.params), _a.short),
                          "after renaming, uses differ (x form vs y form): %s; the two models then measure different pin positions on one axis and their sum "
                          "is not the half-perimeter" % "; ".join(_diff[:6]), key="%s/%d|differs from twin" % (_b.short, len(_b.params)))
    if _nt == 0:
        rep.unknown("TW", None, None, "IncrNetModel::xTopology / yTopology", "no pair of overloads found (shape changed)")
    check_hpwl(ctx, rep)
    check_w4(ctx, rep)
    check_r5(ctx, rep)
    check_tp(ctx, rep)
    check_model_frame(ctx, rep)
    from .common import check_loop_accumulators, forwarding_target
    fs = []
    for q in ("IncrNetModel::xTopology", "IncrNetModel::yTopology", "NetModel::xTopology", "NetModel::yTopology", "Circuit::hpwl",
              "IncrNetModel::computeNetMinMaxPos", "IncrNetModel::computeValue"):
        for f_ in prog.func(CQ + q, required=False) or []:
            f2, _e = forwarding_target(ctx, f_)
            if f2 not in fs:
                fs.append(f2)
    if check_loop_accumulators(ctx, rep, "LA", fs) == 0:
        rep.unknown("LA", None, None, "per-net accumulators", "none recognised in the wirelength code (shape changed)")
    from .common import check_sentinels
    if check_sentinels(ctx, rep, "SN", fs) == 0:
        rep.unknown("SN", None, None, "running extrema", "none recognised in the wirelength code (shape changed)")
    check_net_filter(ctx, rep)
    check_pin_invariant(ctx, rep)


# ---- PI -----------------------------------------------------------------------------

def _lit_int(c):
    if c[0] == "lit":
        try:
            return int(str(c[1]).rstrip("uUlL"))
        except ValueError:
            return None
    return None


def required_pins(ctx, prog, classes, limits_field_suffix="netLimits_"):
    """Largest number of pins per net that some member function of `classes` assumes without testing it:
    a pin accessed at a constant position K (pinCell(net, K), array[netLimits_[net] + K]) outside any guard on the pin count."""
    need, where = 0, None
    for f in prog.funcs.values():
        if f.cls not in classes:
            continue
        for x in walk(f.body):
            k = None
            c = None
            if x.get("kind") == "CXXMemberCallExpr":
                ci = callee_info(x)
                nm = ci["qname"].split("::")[-1]
                if nm in ("pinCell", "pinOffset", "netPinOffset", "pinPosition") and len(ci["args"]) >= 2:
                    k = _lit_int(canon(ci["args"][1]))
            elif x.get("kind") == "CXXOperatorCallExpr" and callee_info(x)["name"] == "operator[]":
                c = expand_locals(ctx, f, canon(x))
                if c[0] == "index" and c[1][0] == "field" and c[1][1].split("::")[-1] in ("netCells_", "netPinOffsets_"):
                    idx = c[2]
                    if idx[0] == "bin" and idx[1] == "+" and idx[2][0] == "index" and idx[2][1][0] == "field" and idx[2][1][1].endswith(limits_field_suffix):
                        k = _lit_int(idx[3])
                    elif idx[0] == "index" and idx[1][0] == "field" and idx[1][1].endswith(limits_field_suffix):
                        k = 0
            if k is None:
                continue
            owner = ctx.eff.func_of_node(x) or f
            guards = ctx.guards(owner, x) or []
            counted = any("nbNetPins" in pretty(gc) or "nbPins" in pretty(gc) or "size()" in pretty(gc) or
                          (limits_field_suffix in pretty(gc) and gc[0] == "bin") for gc, _v, _a, _b in guards)
            if counted:
                continue
            if k + 1 > need:
                need, where = k + 1, (owner, x)
    return need, where


def guaranteed_pins(ctx, f):
    """Minimum number of pins of a stored net, from the filter `if (cells.size() <= M) return;` / `cells.empty()` that
    dominates the stores of the builder's addNet."""
    g = cfg_of(f)
    s = ctx.eff.summary(f)
    sites = [u.node for q, lst in s["writes"].items() if q.endswith("netCells_") for _x, u in lst]
    if not sites:
        return None
    best = 0
    n = g.node_for(sites[0])
    for ast, val, _e in g.dom_edges(n):
        c = canon(ast)
        if c[0] == "call" and c[1] == "empty" and val is False:
            best = max(best, 1)
        if c[0] == "bin" and c[2][0] == "call" and c[2][1] == "size" and _lit_int(c[3]) is not None:
            m = _lit_int(c[3])
            if c[1] == "<=" and val is False:
                best = max(best, m + 1)
            elif c[1] == "<" and val is False:
                best = max(best, m)
            elif c[1] == ">" and val is True:
                best = max(best, m + 1)
            elif c[1] == ">=" and val is True:
                best = max(best, m)
    return best


def check_pin_invariant(ctx, rep):
    prog = ctx.prog
    specs = [("incremental model", {CQ + "IncrNetModel"}, CQ + "IncrNetModelBuilder::addNet", 2),
             ("continuous net model", {CQ + "NetModel", CQ + "MatrixCreator"}, CQ + "NetModel::addNet", 3)]
    for label, classes, builder_q, nparams in specs:
        builders = [f for f in prog.func(builder_q) if len(f.params) == nparams]
        if not builders:
            rep.unknown("PI", "-", None, label, "builder %s not found" % builder_q)
            continue
        have = guaranteed_pins(ctx, builders[0])
        need, where = required_pins(ctx, prog, classes)
        if have is None:
            rep.unknown("PI", builders[0].decl, builders[0], label, "stores of the builder not found")
        elif need <= have:
            rep.holds("PI", builders[0].decl, builders[0], "%s: nets stored have >= %d pin(s); code assumes at most %d without testing" % (label, have, need))
        else:
            owner, x = where
            rep.violation("PI", x, owner, "%s: %s assumes a net has >= %d pins" % (label, owner.short, need),
                          "but %s stores nets with as few as %d pin(s): the access reads a pin of the next net (or past the end)" % (short(builder_q), have),
                          key="%s|assumes %d pins, builder guarantees %d" % (owner.short, need, have))


# ---- H1 ---------------------------------------------------------------------------

def check_hpwl(ctx, rep):
    prog = ctx.prog
    f = prog.func1(CQ + "Circuit::hpwl")
    loops = [x for x in walk(f.body) if x.get("kind") == "ForStmt"]
    infos = [for_loop_info(x) for x in loops]
    infos = [i for i in infos if i]
    pin_loop = None
    net_loop = None
    for i in infos:
        if i["hi"]:
            i["hi"] = expand_locals(ctx, f, i["hi"])
        if i["hi"] and i["hi"][0] == "call" and i["hi"][1] == CQ + "Circuit::nbPinsNet":
            pin_loop = i
        if i["hi"] and i["hi"][0] == "call" and i["hi"][1] == CQ + "Circuit::nbNets":
            net_loop = i
    if not pin_loop or not net_loop:
        rep.unknown("H1", f.decl, f, "loop structure", "net loop / pin loop not recognised")
        return
    ok_range = net_loop["lo"] == ("lit", "0") and net_loop["step"] == 1 and pin_loop["lo"] == ("lit", "0") and pin_loop["step"] == 1 \
        and pin_loop["hi"][3] == net_loop["var"]
    ee = loop_has_early_exit(pin_loop["body"])
    if ok_range and ee is None:
        rep.holds("H1", pin_loop["stmt"], f, "pin loop covers 0..nbPinsNet(net) for every net, no early exit")
    else:
        rep.violation("H1", ee or pin_loop["stmt"], f, "pin loop does not cover every pin of every net",
                      "range [%s, %s) step %s%s" % (pretty(pin_loop["lo"]), pretty(pin_loop["hi"]), pin_loop["step"],
                                                    "; early exit" if ee is not None else ""),
                      key="Circuit::hpwl|pin loop incomplete")
    # a `continue` inside the pin loop body skips a pin
    for x in walk(pin_loop["body"]):
        if x.get("kind") == "ContinueStmt":
            rep.violation("H1", x, f, "a pin can be skipped", "continue inside the pin loop", key="Circuit::hpwl|pin skipped")
    # pin positions
    net, pin = net_loop["var"], pin_loop["var"]
    cell = ("call", CQ + "Circuit::pinCell", ("this",), net, pin)
    want = {
        "X": ("bin", "+", ("call", CQ + "Circuit::x", ("this",), cell), ("call", CQ + "Circuit::pinXOffset", ("this",), net, pin)),
        "Y": ("bin", "+", ("call", CQ + "Circuit::y", ("this",), cell), ("call", CQ + "Circuit::pinYOffset", ("this",), net, pin)),
    }
    # min/max accumulation per axis (identified by what is accumulated, not by variable names)
    accs = []
    for x in walk(pin_loop["body"]):
        if x.get("kind") == "BinaryOperator" and x.get("opcode") == "=":
            l, r = children(x)
            lc, rc = canon(l), canon(r)
            if lc[0] == "var" and rc[0] == "call" and rc[1] in ("min", "max") and len(rc) == 5:
                other = [a for a in rc[3:] if a != lc]
                if len(other) == 1:
                    accs.append((rc[1], lc, x, expand_locals(ctx, f, other[0])))
    if not accs:
        rep.unknown("H1", pin_loop["stmt"], f, "bounding box", "no `v = std::min/max(v, position)` accumulation recognised")
        return
    role = {}
    for fn, var, x, val in accs:
        ax = "X" if _commut_eq(val, want["X"]) else ("Y" if _commut_eq(val, want["Y"]) else None)
        if ax is None:
            rep.violation("H1", x, f, "%s accumulates %s" % (var[2], pretty(val)), "not a pin position x(cell)+pinXOffset(net,pin) / y(cell)+pinYOffset(net,pin) of this net",
                          key="Circuit::hpwl|wrong pin position accumulated")
            continue
        role[(fn, ax)] = var
        rep.holds("H1", x, f, "%s over pins of %s" % (fn, pretty(val)))
    for ax in ("X", "Y"):
        for fn in ("min", "max"):
            if (fn, ax) not in role:
                rep.violation("H1", pin_loop["stmt"], f, "no %s of the %s pin positions is accumulated" % (fn, ax.lower()), "the bounding box of the net is incomplete",
                              key="Circuit::hpwl|%s %s not accumulated" % (fn, ax))
    # extents added to the result
    added = []
    for x in walk(net_loop["body"]):
        if x.get("kind") == "CompoundAssignOperator" and x.get("opcode") == "+=":
            l, r = children(x)
            rc = expand_locals(ctx, f, canon(r))
            if rc[0] == "bin" and rc[1] == "-" and rc[2][0] == "var" and rc[3][0] == "var":
                added.append((rc[2], rc[3], x))
    for ax in ("X", "Y"):
        mx, mn = role.get(("max", ax)), role.get(("min", ax))
        if mx is None or mn is None:
            continue
        hit = [a for a in added if a[0] == mx and a[1] == mn]
        if len(hit) == 1:
            rep.holds("H1", hit[0][2], f, "ret += (max - min) of the %s pin positions" % ax.lower())
        else:
            rep.violation("H1", net_loop["stmt"], f, "%s extent added %d time(s) to the result" % (ax.lower(), len(hit)),
                          "half-perimeter is the sum of exactly one x extent and one y extent per net", key="Circuit::hpwl|%s extent added %d times" % (ax, len(hit)))
    known = {v for v in role.values()}
    for a in added:
        if a[0] in known and a[1] in known:
            axes = {k[1] for k, v in role.items() if v in (a[0], a[1])}
            kinds = [k[0] for k, v in role.items() if v == a[0]] + [k[0] for k, v in role.items() if v == a[1]]
            if len(axes) > 1:
                rep.violation("H1", a[2], f, "mixed-axis extent %s - %s" % (a[0][2], a[1][2]), "x and y must not be combined", key="Circuit::hpwl|mixed-axis extent")


def _commut_eq(a, b):
    if a == b:
        return True
    if a[0] == "bin" and b[0] == "bin" and a[1] == b[1] == "+":
        return a[2] == b[3] and a[3] == b[2]
    return False


# ---- W4 ---------------------------------------------------------------------------

def check_w4(ctx, rep):
    allowed = {
        "cellPos_": {"IncrNetModelBuilder::build": "initial positions", "IncrNetModel::updateCellPos": "the incremental update"},
        "netMinMaxPos_": {"IncrNetModel::finalize": "from-scratch initialisation", "IncrNetModel::recomputeNet": "incremental update"},
        "value_": {"IncrNetModel::finalize": "from-scratch initialisation", "IncrNetModel::recomputeNet": "incremental update"},
    }
    for fld, ok in allowed.items():
        q = CQ + "IncrNetModel::" + fld
        from .common import check_writers
        check_writers(ctx, rep, "W4", q, ok, "IncrNetModel::%s" % fld)


# ---- R5 ---------------------------------------------------------------------------

def check_r5(ctx, rep):
    prog = ctx.prog
    f = prog.func1(CQ + "IncrNetModel::updateCellPos")
    cellp = [p for p in f.params][0]
    cv = ("var", cellp.get("id"), cellp.get("name"))
    g = cfg_of(f)
    loops = [for_loop_info(x) for x in walk(f.body) if x.get("kind") == "ForStmt"]
    loops = [l for l in loops if l and l["hi"] and l["hi"][0] == "call" and l["hi"][1] == CQ + "IncrNetModel::nbCellPins"]
    rec_calls = [x for x in walk(f.body) if x.get("kind") == "CXXMemberCallExpr" and callee_info(x)["qname"] == CQ + "IncrNetModel::recomputeNet"]
    glob = None
    if not loops:
        # the pins of the cell addressed by their global index: for (p = cellLimits_[cell]; p < cellLimits_[cell + 1]; ++p) recomputeNet(cellNets_[p])
        lim = ("field", CQ + "IncrNetModel::cellLimits_", ("this",))
        for x in walk(f.body):
            li = for_loop_info(x) if x.get("kind") == "ForStmt" else None
            if not li or li["step"] != 1 or li["hi"] is None or li["lo"] is None:
                continue
            lo_, hi_ = expand_locals(ctx, f, li["lo"]), expand_locals(ctx, f, li["hi"])
            if lo_ == ("index", lim, cv) and hi_ == ("index", lim, ("bin", "+", cv, ("lit", "1"))):
                incn = g.node_for(li["inc"])
                calls = [c for c in walk(li["body"]) if c in rec_calls]
                good = [c for c in calls if expand_locals(ctx, f, canon(callee_info(c)["args"][0])) ==
                        ("index", ("field", CQ + "IncrNetModel::cellNets_", ("this",)), li["var"]) and g.node_for(c) is not None and incn is not None
                        and g.dominates(g.node_for(c), incn)]
                if good and loop_has_early_exit(li["body"]) is None:
                    glob = li
    if glob is None and not loops:
        # std::for_each(cellNets_.begin() + cellLimits_[cell], cellNets_.begin() + cellLimits_[cell + 1], [this](int net) { recomputeNet(net); })
        lim = ("field", CQ + "IncrNetModel::cellLimits_", ("this",))
        nets = ("field", CQ + "IncrNetModel::cellNets_", ("this",))
        for x in walk(f.body):
            if x.get("kind") != "CallExpr" or not callee_info(x) or callee_info(x)["name"] != "for_each" or len(callee_info(x)["args"]) != 3:
                continue
            a0, a1 = [expand_locals(ctx, f, canon(t)) for t in callee_info(x)["args"][:2]]

            def slice_end(c_, idx):
                return c_[0] in ("bin", "op") and c_[1] in ("+", "operator+") and len(c_) == 4 and c_[2][0] == "call" and c_[2][1] in ("begin", "cbegin") and \
                    c_[2][2:] == (nets,) and c_[3] == ("index", lim, idx)
            lam = [y for y in walk(callee_info(x)["args"][2]) if y.get("kind") == "LambdaExpr"]
            if slice_end(a0, cv) and slice_end(a1, ("bin", "+", cv, ("lit", "1"))) and len(lam) == 1:
                lf = [h for h in f.lambdas if h.decl is lam[0] or h.body is not None and any(z is h.body for z in walk(lam[0]))]
                if lf and lf[0].params:
                    pv = ("var", lf[0].params[0].get("id"), lf[0].params[0].get("name"))
                    calls = [c for c in walk(lf[0].body) if c in rec_calls]
                    if len(calls) == 1 and canon(callee_info(calls[0])["args"][0]) == pv and loop_has_early_exit(lf[0].body) is None and \
                            not any(z.get("kind") in ("IfStmt", "ConditionalOperator") for z in walk(lf[0].body)):
                        glob = {"stmt": x}
    if glob is not None:
        rep.holds("R5", glob["stmt"], f, "every net cellNets_[p], p in cellLimits_[cell] .. cellLimits_[cell + 1], is recomputed (no skip)")
    elif not loops and rec_calls:
        rep.unknown("R5", f.decl, f, "loop over the pins of the moved cell", "recomputeNet is called, but the loop around it is not one of the recognised full ranges")
    elif not loops:
        rep.violation("R5", f.decl, f, "no loop over the pins of the moved cell", "nets of the cell are not recomputed",
                      key="IncrNetModel::updateCellPos|no pin loop")
    else:
        l = loops[0]
        full = l["lo"] == ("lit", "0") and l["step"] == 1 and l["hi"][3] == cv
        incn = g.node_for(l["inc"])
        calls = [x for x in walk(l["body"]) if x.get("kind") == "CXXMemberCallExpr" and callee_info(x)["qname"] == CQ + "IncrNetModel::recomputeNet"]
        good = []
        for c in calls:
            a = expand_locals(ctx, f, canon(callee_info(c)["args"][0]))
            if a == ("call", CQ + "IncrNetModel::pinNet", ("this",), cv, l["var"]):
                cn = g.node_for(c)
                if cn is not None and incn is not None and g.dominates(cn, incn):
                    good.append(c)
        ee = loop_has_early_exit(l["body"])
        if full and good and ee is None:
            rep.holds("R5", l["stmt"], f, "every net pinNet(cell, i), i in 0..nbCellPins(cell), is recomputed (no skip)")
        else:
            why = []
            if not full:
                why.append("range is [%s, %s) step %s" % (pretty(l["lo"]), pretty(l["hi"]), l["step"]))
            if not good:
                why.append("recomputeNet(pinNet(cell, i)) does not dominate the loop increment: some iterations skip it")
            if ee is not None:
                why.append("early exit at %s" % loc_str(ee))
            rep.violation("R5", l["stmt"], f, "not every net of the moved cell is recomputed", "; ".join(why),
                          key="IncrNetModel::updateCellPos|nets skipped")
    # cellPos_[cell] = pos unconditionally
    pw = [x for x in walk(f.body) if x.get("kind") == "BinaryOperator" and x.get("opcode") == "=" and
          canon(children(x)[0]) == ("index", ("field", CQ + "IncrNetModel::cellPos_", ("this",)), cv)]
    if pw and not g.dom_edges(g.node_for(pw[0])):
        rep.holds("R5", pw[0], f, "cellPos_[cell] = pos unconditionally")
    else:
        rep.violation("R5", f.decl, f, "position of the moved cell not stored unconditionally", "",
                      key="IncrNetModel::updateCellPos|position store conditional or missing")

    r = prog.func1(CQ + "IncrNetModel::recomputeNet")
    gr = cfg_of(r)
    netp = r.params[0]
    nv = ("var", netp.get("id"), netp.get("name"))
    store = [x for x in walk(r.body) if x.get("kind") in ("BinaryOperator", "CXXOperatorCallExpr") and
             canon(x)[0] in ("bin", "op") and _is_store_to(canon(x), ("index", ("field", CQ + "IncrNetModel::netMinMaxPos_", ("this",)), nv))]
    inc = [x for x in walk(r.body) if x.get("kind") == "CompoundAssignOperator" and x.get("opcode") == "+=" and
           canon(children(x)[0]) == ("field", CQ + "IncrNetModel::value_", ("this",))]
    if not store or not inc:
        rep.violation("R5", r.decl, r, "recomputeNet does not update both netMinMaxPos_[net] and value_",
                      "bound stores: %d, value increments: %d" % (len(store), len(inc)), key="IncrNetModel::recomputeNet|bound/value not both updated")
        return
    cond = [x for x in store + inc if gr.dom_edges(gr.node_for(x))]
    new_c = ("call", CQ + "IncrNetModel::computeNetMinMaxPos", ("this",), nv)
    old_c = ("index", ("field", CQ + "IncrNetModel::netMinMaxPos_", ("this",)), nv)

    def gset(x):
        return sorted((pretty(expand_locals(ctx, r, canon(a_))), v_) for a_, v_, _e in gr.dom_edges(gr.node_for(x)) if isinstance(v_, bool))

    def nothing_changes(x):
        """every dominating condition says `the new bounds differ from the stored ones` (the update is skipped only when it would be a no-op)"""
        ok_ = True
        for a_, v_, _e in gr.dom_edges(gr.node_for(x)):
            c_ = expand_locals(ctx, r, canon(a_))
            eq = c_[0] in ("bin", "op") and c_[1] in ("==", "operator==", "!=", "operator!=") and {c_[2], c_[3]} == {new_c, old_c}
            differs = eq and ((c_[1] in ("==", "operator==")) is (v_ is False))
            ok_ = ok_ and differs
        return ok_
    if not cond:
        rep.holds("R5", store[0], r, "netMinMaxPos_[net] and value_ are both updated unconditionally")
    elif gset(store[0]) == gset(inc[0]) and all(nothing_changes(x) for x in (store[0], inc[0])):
        rep.holds("R5", store[0], r, "netMinMaxPos_[net] and value_ are updated together, skipped only when the new bounds equal the stored ones")
    elif gset(store[0]) == gset(inc[0]):
        rep.unknown("R5", cond[0], r, "bound and value updated together under %s" % [g_[0][:40] for g_ in gset(store[0])], "the skip condition is not recognised as `nothing changes`")
    else:
        rep.violation("R5", cond[0], r, "bound or value updated conditionally", "the two are updated under different conditions: on some call one changes "
                      "without the other", key="IncrNetModel::recomputeNet|conditional update")
    # value_ += (new.second - new.first) - (old.second - old.first)
    from .common import inline_getters
    rhs = inline_getters(ctx, expand_locals(ctx, r, canon(children(inc[0])[1])), with_params=True)
    new = ("call", CQ + "IncrNetModel::computeNetMinMaxPos", ("this",), nv)
    old = ("index", ("field", CQ + "IncrNetModel::netMinMaxPos_", ("this",)), nv)
    hi, lo = _bound_fields(ctx, prog)
    def ext(p):
        return ("bin", "-", ("field", hi, p), ("field", lo, p))
    # structured bindings of a (min, max) pair are its two members: `auto [newMin, newMax] = computeNetMinMaxPos(net);`
    from .common import binding_source

    def unbind(c_):
        if isinstance(c_, tuple):
            if c_ and c_[0] == "var":
                bs = binding_source(r, c_[1])
                if bs is not None and bs[1] in (0, 1) and hi is not None:
                    src = bs[0]
                    while src[0] == "construct" and len(src) == 3:
                        src = src[2]
                    return ("field", lo if bs[1] == 0 else hi, src)
                return c_
            return tuple(unbind(t) for t in c_)
        return c_
    rhs = unbind(rhs)
    while rhs[0] == "cast" and len(rhs) >= 3:
        rhs = rhs[-1]
    if hi is not None and rhs == ("bin", "-", ext(new), ext(old)):
        # the old bound must be read before it is overwritten
        olds = [x for x in walk(r.body) if x.get("kind") in ("VarDecl", "DecompositionDecl") and children(x) and
                [c_ for c_ in [canon(y) for y in children(x) if y.get("kind") != "BindingDecl"] if c_ == old or (c_[0] == "construct" and c_[-1] == old)]]
        sn = gr.node_for(store[0])
        if olds and gr.dominates(gr.node_for(olds[0]), sn) and gr.node_for(olds[0]) is not sn:
            rep.holds("R5", inc[0], r, "value_ += (new extent) - (old extent), old bound read before the store")
        else:
            rep.violation("R5", inc[0], r, "old bound read after it is overwritten", "the increment would always be zero",
                          key="IncrNetModel::recomputeNet|old bound read after store")
    else:
        rep.violation("R5", inc[0], r, "value_ increment is %s" % pretty(rhs), "expected (new max - new min) - (old max - old min)",
                      key="IncrNetModel::recomputeNet|wrong value increment")


def _bound_fields(ctx, prog):
    """(name of the member holding the maximum, name of the member holding the minimum) of what computeNetMinMaxPos(net) returns:
    read off its return statement - make_pair(lo, hi) gives (second, first); a struct whose members are assigned gives their
    names - where hi is the local updated with std::max and lo the one updated with std::min."""
    fs = [f for f in prog.func(CQ + "IncrNetModel::computeNetMinMaxPos") if len(f.params) == 1]
    if len(fs) != 1:
        return None, None
    f = fs[0]
    role = {}
    for x in walk(f.body):
        if x.get("kind") == "BinaryOperator" and x.get("opcode") == "=":
            l, r = canon(children(x)[0]), canon(children(x)[1])
            if l[0] == "var" and r[0] == "call" and r[1] in ("min", "max") and l in r[3:]:
                role[l[:2]] = r[1]
    fields = {}
    for x in walk(f.body):
        if x.get("kind") == "ReturnStmt" and children(x):
            c = canon(children(x)[0])
            while c[0] == "construct" and len(c) == 3:
                c = c[2]
            if c[0] == "call" and c[1] == "make_pair" and len(c) >= 5:
                for fld, a in (("first", c[3]), ("second", c[4])):
                    if a[0] == "var" and a[:2] in role:
                        fields[role[a[:2]]] = fld
        if x.get("kind") == "BinaryOperator" and x.get("opcode") == "=":
            l, r = canon(children(x)[0]), canon(children(x)[1])
            if l[0] == "field" and l[2][0] == "var" and r[0] == "var" and r[:2] in role:
                fields[role[r[:2]]] = l[1]
    return fields.get("max"), fields.get("min")


def _is_store_to(c, target):
    if c[0] == "bin" and c[1] == "=" and c[2] == target:
        return True
    if c[0] == "op" and c[1] == "operator=" and c[2] == target:
        return True
    return False


def check_net_filter(ctx, rep):
    """NF. IncrNetModelBuilder::addNet may ignore a net only because it has fewer than two pins: every return that precedes the
    storage of the net is guarded solely by tests of the pin count (`cells.size() <= 1`, `< 2`, `.empty()`). A net whose pins sit
    on one cell at different offsets still has an extent."""
    prog = ctx.prog
    fs = [f for f in prog.func(CQ + "IncrNetModelBuilder::addNet", required=False) or []]
    if not fs:
        rep.unknown("NF", None, None, "IncrNetModelBuilder::addNet", "not found")
        return
    for f in fs:
        rets = [x for x in walk(f.body) if x.get("kind") == "ReturnStmt"]
        bad = []
        for r in rets:
            for gc, val, _a, asr in (ctx.guards(f, r) or []):
                if asr:
                    continue
                size_test = gc[0] == "bin" and gc[1] in ("<=", "<", "==") and gc[2][0] == "call" and gc[2][1] == "size" and gc[3][0] == "lit" and val is True
                if size_test:
                    try:
                        k = int(str(gc[3][1]).rstrip("uUlL"))
                    except ValueError:
                        k = 99
                    if (gc[1] == "<=" and k <= 1) or (gc[1] == "<" and k <= 2) or (gc[1] == "==" and k <= 1):
                        continue
                if gc[0] == "call" and gc[1] == "empty" and val is True:
                    continue
                bad.append((r, gc, val))
        if bad:
            r, gc, val = bad[0]
            rep.violation("NF", r, f, "%s drops a net under %s" % (f.short, pretty(gc)[:80]),
                          "only nets with fewer than two pins have no extent; any other net contributes to the wirelength the model must report",
                          key="%s|net dropped for another reason than its pin count" % f.short)
        else:
            rep.holds("NF", f.decl, f, "%s ignores a net only when it has fewer than two pins (%d early return(s))" % (f.short, len(rets)))


def check_model_frame(ctx, rep, rid="QF"):
    """The builders of the wirelength models (IncrNetModel / NetModel x/yTopology, following thin forwarders) must read pin offsets,
    positions and sizes in the placed frame (pinXOffset(), x(), placedWidth(), cellX_ ...): Circuit::hpwl() is defined on it. A raw
    member read (pinXOffsets_, cellWidth_) next to placed positions misplaces the pins of mirrored / turned cells."""
    from ..qual import check_frame
    from .common import forwarding_target
    prog = ctx.prog
    fs = []
    for q in ("IncrNetModel::xTopology", "IncrNetModel::yTopology", "NetModel::xTopology", "NetModel::yTopology"):
        for f in prog.func(CQ + q):
            f2, _env = forwarding_target(ctx, f)
            if f2 not in fs:
                fs.append(f2)
    n = check_frame(ctx, rep, rid, fs, "the model would not measure Circuit::hpwl()")
    if n == 0:
        rep.unknown(rid, None, None, "net-model builders", "no builder reading circuit geometry found (shape changed)")


# ---- TP ---------------------------------------------------------------------------

def check_tp(ctx, rep):
    prog = ctx.prog
    for q, ax, other in (("IncrNetModel::xTopology", "X", "Y"), ("IncrNetModel::yTopology", "Y", "X"),
                         ("NetModel::xTopology", "X", "Y"), ("NetModel::yTopology", "Y", "X")):
        for f0 in prog.func(CQ + q):
            from .common import forwarding_target, is_dead_under
            f, env = forwarding_target(ctx, f0)
            calls = [callee_info(x)["qname"] for x in walk(f.body) if x.get("kind") == "CXXMemberCallExpr" and not is_dead_under(x, f, env)]
            if f is not f0:
                f = f0 if not calls else f
            wrong = [c for c in calls if c in (CQ + "Circuit::pin%sOffset" % other, CQ + "Circuit::%s" % other.lower(),
                                               CQ + "Circuit::placed%s" % ("Width" if other == "X" else "Height"))]
            right = [c for c in calls if c in (CQ + "Circuit::pin%sOffset" % ax, CQ + "Circuit::%s" % ax.lower())]
            if len(f.params) == 1 and not right and f.short.startswith("IncrNetModel"):
                continue   # forwarding overload
            if wrong:
                rep.violation("TP", f.decl, f, "%s uses %s" % (f.short, sorted(set(short(w) for w in wrong))),
                              "the %s topology must only read %s positions, offsets and extents" % (ax.lower(), ax.lower()),
                              key="%s|reads other axis" % f.short)
            elif right:
                rep.holds("TP", f.decl, f, "%s reads only %s-axis accessors" % (f.short, ax.lower()))
            else:
                rep.unknown("TP", f.decl, f, f.short, "no axis accessor found (shape changed)")


# ---- MX --------------------------------------------------------------------

def check_model_index_space(ctx, rep):
    """MX. (a) The subset topologies translate circuit cell indices into model indices through a map circuit index -> model index: what is
    pushed into a net's cell list is the *mapped value* (`map[c]`, `it->second`), never the key (`it->first`, the loop's circuit index).
    (b) pinXOffset / pinYOffset are pure mirror maps `offs` / `size - offs`: a clamp (std::max / min / clamp) on their result moves pins
    that lie outside the cell outline. (c) IncrNetModelBuilder::addNet appends exactly the pins it is given: the count added to
    netLimits_ is the size of its parameter."""
    prog = ctx.prog
    n = 0
    for f in prog.funcs.values():
        if f.cls != CQ + "IncrNetModel" or f.body is None or not f.name.endswith("Topology") or len(f.params) != 2:
            continue
        maps = {y.get("id"): y.get("name") for y in walk(f.body) if y.get("kind") == "VarDecl" and "unordered_map<int, int" in qt(y).replace("std::", "") or
                (y.get("kind") == "VarDecl" and "map<int, int" in qt(y))}
        if not maps:
            continue
        for x in walk(f.body):
            if x.get("kind") != "CXXMemberCallExpr" or callee_info(x)["name"] not in ("push_back", "emplace_back") or not callee_info(x)["args"]:
                continue
            a = callee_info(x)["args"][0]
            uses_map = any(y.get("kind") == "DeclRefExpr" and (y.get("referencedDecl") or {}).get("id") in maps for y in walk(a))
            its = [y for y in walk(a) if y.get("kind") == "MemberExpr" and y.get("name") in ("first", "second")]
            from_iter = []
            for y in its:
                for z in walk(y):
                    if z.get("kind") == "DeclRefExpr":
                        d = f.unit.by_id.get((z.get("referencedDecl") or {}).get("id"))
                        init = children(d) if d is not None and d.get("kind") == "VarDecl" else []
                        if init and any(w.get("kind") == "DeclRefExpr" and (w.get("referencedDecl") or {}).get("id") in maps for w in walk(init[-1])):
                            from_iter.append(y.get("name"))
            if not uses_map and not from_iter:
                continue
            n += 1
            what = "%s pushes %s" % (f.short, pretty(canon(a))[:40])
            if "first" in from_iter:
                rep.violation("MX", x, f, what, "the *key* of the circuit-index -> model-index map, i.e. the circuit's cell index: the pin is attached to another cell of the model "
                              "(or to the pseudo-cell of the fixed pins) whenever the subset is not 0..k-1 in order", key="%s|circuit index pushed into the model" % f.short)
            else:
                rep.holds("MX", x, f, what, "the mapped model index")
    if n == 0:
        rep.unknown("MX", None, None, "subset topologies", "no push of a mapped cell index found (shape changed)")
    for q in ("Circuit::pinXOffset", "Circuit::pinYOffset"):
        for f in prog.func(CQ + q, required=False) or []:
            if f.body is None:
                continue
            cl = [y for y in walk(f.body) if y.get("kind") == "CallExpr" and callee_info(y) and callee_info(y)["name"] in ("max", "min", "clamp")]
            if cl:
                rep.violation("MX", cl[0], f, "%s clamps its result (%s)" % (f.short, callee_info(cl[0])["name"]), "the offset of a pin is a mirror map of the raw offset, also for "
                              "pins outside the cell outline: a clamp reports such a pin on the cell edge and the wirelength is no longer the geometric one",
                              key="%s|offset clamped" % f.short)
            else:
                rep.holds("MX", f.decl, f, "%s returns the (mirrored) offset unclamped" % f.short)
    for f in prog.func(CQ + "IncrNetModelBuilder::addNet", required=False) or []:
        if f.body is None or not f.params:
            continue
        p0 = ("var", f.params[0].get("id"), f.params[0].get("name"))
        adds = [y for y in walk(f.body) if y.get("kind") == "CXXMemberCallExpr" and callee_info(y)["name"] == "push_back" and
                "netLimits_" in pretty(canon(callee_info(y)["obj"]))]
        for y in adds:
            c = canon(callee_info(y)["args"][0])
            sizes = [t for t in subterms(c) if isinstance(t, tuple) and t and t[0] == "call" and t[1] == "size"]
            backs = [t for t in subterms(c) if isinstance(t, tuple) and t and t[0] == "call" and t[1] == "back"]
            exact = False
            if len(set(sizes)) == 1 and len(set(backs)) == 1:
                from .c05 import _poly_named
                names = {}
                pc_ = _poly_named(c, names)
                want = _poly_named(("bin", "+", backs[0], sizes[0]), names)
                exact = pc_ is not None and pc_ == want
            if sizes and all(t[2:] == (p0,) for t in sizes) and exact:
                rep.holds("MX", y, f, "IncrNetModelBuilder::addNet adds %s pins" % pretty(sizes[0]), "all the pins it is given")
            else:
                rep.violation("MX", y, f, "IncrNetModelBuilder::addNet adds %s" % pretty(c)[:50], "not the number of pins it was given: pins are dropped (a cell may carry several pins "
                              "of one net, each bounds the net) and the model no longer agrees with Circuit::hpwl()", key="IncrNetModelBuilder::addNet|pins dropped")
