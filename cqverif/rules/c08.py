"""C08 — placement is deterministic and independent of thread scheduling.

Z1  no mutable variable of static / thread storage duration anywhere in the library
Z2  no const_cast; a `mutable` member only as a cache (plain assignment outside the parallel region, reset by every writer
    of its inputs)
Z3  no entropy / environment / wall-clock source reaches a result
D1  every random engine member is seeded once, from the parameters' seed, in its owner's constructor
    and consumed only by the thread that owns it (never inside an asynchronous callee)
D2  the iteration order of an unordered container never reaches a result
A1  asynchronous launches share only immutable data with their parent, and are joined before the
    parent touches what they can see
D3  after construction, the algorithms never read placement coordinates back from the Circuit
    (so exporting for an observing callback cannot feed back)
"""
import os

from ..frontend import VERIF, AnalysisBroken
from ..model import Program, qt, loc_str, walk, inner, desugared
from ..expr import canon, pretty, children, strip, callee_info, ref_decl, member_decl, subterms, CALL_KINDS
from ..cfg import cfg_of
from ..effects import Effects, WRITE, ESCAPE, READ, async_callee
from .common import CQ, short

EXPLANATION = (
    "Static determinism check over the clang-resolved AST of every library unit. Z1/Z2/Z3 are zero-instance rules "
    "(mutable static storage; mutable members and const_cast; random_device/rand/time/clock/getenv, and a taint rule that lets "
    "a clock value flow only into durations streamed to an ostream), each accompanied by a positive control in "
    "/verif/selftest/c08_controls.cpp that must be reported on every run. D1: each random-engine member has exactly one seed() "
    "call, in a constructor of its class, whose argument is the seed field of the parameters, and is consumed only in functions "
    "not reachable from an asynchronous callee. D2: every variable of an unordered container type is used only through "
    "order-insensitive operations, or is range-copied into a vector that is sorted before its next use. A1: for each std::async "
    "launch the callee is a const member function (or captures nothing mutable), every other argument is decay-copied (no pointer, "
    "std::ref, std::cref), the object's class tree holds no pointer/reference member through which a const method could write, "
    "the future is joined by get() on every path, and the members whose address the thread holds are not written between launch "
    "and join. D3: no function reachable from GlobalPlacer::run / DetailedPlacer::run reads Circuit::cellX_/cellY_ (and, for "
    "detailed placement, cellOrientation_) except inside a branch guarded by isFixed on the same cell.")

DECLINED = ["bitwise reproducibility of floating-point library calls across machines / compilers (not claimed by the property)",
            "behaviour of non-observing callbacks (a callback that modifies the circuit is outside 'observing')"]

ENTROPY_CALLS = {"rand", "srand", "time", "clock", "getenv", "random", "srandom", "drand48", "lrand48", "gettimeofday",
                 "clock_gettime", "getpid", "get_id", "hardware_concurrency", "tmpnam", "mkstemp"}
ENGINE_WORDS = ("mt19937", "mersenne_twister", "default_random_engine", "minstd_rand", "ranlux", "linear_congruential",
                "knuth_b", "subtract_with_carry")
UNORDERED_OK = {"insert", "count", "find", "size", "operator[]", "at", "emplace", "erase", "clear", "empty", "reserve",
                "contains", "try_emplace", "end", "cend", "max_load_factor", "rehash", "bucket_count"}


def is_const_decl(d):
    t = qt(d).strip()
    if d.get("constexpr"):
        return True
    core = t
    if core.endswith("*"):
        return False
    if core.endswith("* const") or core.endswith("*const"):
        return True
    return core.startswith("const ") or core.endswith(" const")


def run(ctx, rep, tier):
    prog, eff = ctx.prog, ctx.eff
    rep.rule("Z1", "no mutable static / thread-local storage in the library (expected count 0)", 0)
    rep.rule("Z2", "no const_cast; mutable members only as properly invalidated caches outside the parallel region (expected count 0)", 0)
    rep.rule("Z3", "no entropy/environment source; clock values flow only into printed durations", 1)
    rep.rule("D1", "random engines: member, seeded once from the parameters' seed in the owner's constructor, consumed by the owner thread only", 1)
    rep.rule("D2", "unordered containers: order-insensitive use only (or copied and sorted)", 8)
    rep.rule("A1", "std::async launches: const callee on immutable shared data, copied arguments, joined before the parent touches shared members", 2)
    rep.rule("D3", "algorithms never read placement coordinates back from the Circuit after construction", 2)
    rep.rule("D5", "members of the global placer are assigned on every path before a step reads them (no indeterminate value reaches a result)", 2)
    rep.rule("D4", "no code runs only when the observing callback is absent (results cannot depend on its presence)", 3)
    rep.rule("CTRL", "positive controls of the zero-instance rules (selftest/c08_controls.cpp)", 5)

    n_static = check_z1(prog, rep, "Z1")
    n_mut = check_z2(prog, rep, "Z2", ctx)
    check_z3(ctx, prog, eff, rep, "Z3")
    check_d1(ctx, rep)
    check_d2(ctx, prog, eff, rep, "D2")
    check_a1(ctx, prog, eff, rep, "A1")
    check_d3(ctx, rep)
    check_d4(ctx, rep)
    from .c07 import check_di
    check_di(ctx, prog, rep, "D5")
    rep.extra["static_storage_declarations_examined"] = n_static
    rep.extra["member_declarations_examined"] = n_mut
    if not any(i["rule"] == "Z1" for i in rep.instances):
        rep.holds("Z1", "src/**", None, "no mutable static storage", "%d declaration(s) of static storage duration examined, %d function bodies scanned for local statics" % (n_static, len(prog.funcs)))
    if not any(i["rule"] == "Z2" for i in rep.instances):
        rep.holds("Z2", "src/**", None, "no mutable member, no const_cast", "%d data members of %d classes examined" % (n_mut, len(prog.records)))

    # ---- positive controls ------------------------------------------------
    ctl = Program.from_files([os.path.join(VERIF, "selftest", "c08_controls.cpp")])
    ceff = Effects(ctl)
    from ..core import Report

    class Sink:
        def __init__(self):
            self.v = []

        def rule(self, *a, **k):
            pass

        def holds(self, *a, **k):
            pass

        def note(self, *a):
            pass

        def unknown(self, rid, node, func, what, reason):
            self.v.append((rid, "UNKNOWN " + what))

        def violation(self, rid, node, func, what, reason, key=None):
            self.v.append((rid, what))

    sink = Sink()

    from ..core import SubCtx
    cctx = SubCtx(ctl, ceff)
    check_z1(ctl, sink, "Z1")
    check_z2(ctl, sink, "Z2", cctx)
    check_z3(cctx, ctl, ceff, sink, "Z3")
    check_d2(cctx, ctl, ceff, sink, "D2")
    check_a1(cctx, ctl, ceff, sink, "A1")
    expect = {"Z1": 3, "Z2": 2, "Z3": 3, "D2": 1, "A1": 1}
    for rid, n in expect.items():
        got = sum(1 for r, _w in sink.v if r == rid and not _w.startswith("UNKNOWN"))
        if got >= n:
            rep.holds("CTRL", "selftest/c08_controls.cpp", None, "rule %s reports its %d seeded control(s)" % (rid, n), "%d reported" % got)
        else:
            rep.unknown("CTRL", "selftest/c08_controls.cpp", None, "rule %s positive control" % rid,
                        "expected >= %d reports on the control file, got %d: the rule no longer matches what it must" % (n, got))


# ---- Z1 --------------------------------------------------------------------

def check_z1(prog, rep, rid):
    n = 0
    seen = set()
    for u, d in prog.globals:
        key = (loc_str(d), d.get("name"))
        if key in seen:
            continue
        seen.add(key)
        p = d.get("_p") or {}
        if p.get("kind") == "CXXRecordDecl" and d.get("storageClass") != "static":
            continue
        n += 1
        if not is_const_decl(d):
            rep.violation(rid, d, None, "mutable variable of static storage duration: %s %s" % (qt(d), d.get("_q")),
                          "state shared between runs (and threads) makes results depend on history / scheduling",
                          key="static|%s" % d.get("_q"))
    for f in prog.all_funcs(with_lambdas=False):
        for x in walk(f.body):
            if x.get("kind") == "VarDecl" and (x.get("storageClass") == "static" or x.get("tls")):
                key = (loc_str(x), x.get("name"))
                if key in seen:
                    continue
                seen.add(key)
                n += 1
                if not is_const_decl(x):
                    rep.violation(rid, x, f, "function-local static variable: %s %s" % (qt(x), x.get("name")),
                                  "initialised once per process and shared by all later runs and threads",
                                  key="%s|local static %s" % (f.short, x.get("name")))
                elif runtime_initialiser(x):
                    rep.violation(rid, x, f, "function-local static const initialised from run-time state: %s %s" % (qt(x), x.get("name")),
                                  "the value computed by the first call (from %s) is reused by every later run in the process" % runtime_initialiser(x),
                                  key="%s|local static %s" % (f.short, x.get("name")))
    if n == 0 and hasattr(rep, "extra"):
        rep.note("Z1: no declaration of static storage duration at all")
    return n


def runtime_initialiser(d):
    """Name of something non-constant (parameter, member, local variable, this) the initialiser of d depends on, or None."""
    for c in children(d):
        for y in walk(c):
            k = y.get("kind")
            if k == "CXXThisExpr":
                return "this"
            if k == "DeclRefExpr":
                rd = y.get("referencedDecl") or {}
                if rd.get("kind") == "ParmVarDecl":
                    return "parameter %s" % rd.get("name")
                if rd.get("kind") == "VarDecl":
                    full = ref_decl(y) or {}
                    if not (full.get("constexpr") or (qt(full).startswith("const ") and not runtime_initialiser(full) if full.get("_p") is not None and full is not d else False)):
                        return "variable %s" % rd.get("name")
            if k == "MemberExpr" and member_decl(y) is not None and member_decl(y).get("kind") == "FieldDecl":
                return "member %s" % y.get("name")
    return None


# ---- Z2 --------------------------------------------------------------------

def check_z2(prog, rep, rid, ctx=None):
    """A `mutable` member is shared state behind a const interface. It is compatible with the property only as a *cache*: written by
    plain assignment from the other members, never from inside the parallel region, and reset by every writer of what it is
    computed from (rule DS of common.py). Anything else makes a result depend on the history of calls or on thread timing."""
    from .common import field_writes, check_derived_state
    n = 0
    areach = None
    for q, r in prog.records.items():
        for name, fd in r["fields"].items():
            n += 1
            if not fd.get("mutable"):
                continue
            fq = q + "::" + name
            label = "mutable member %s::%s" % (short(q), name)
            if ctx is None:
                rep.violation(rid, fd, None, label, "const methods could write it", key="mutable|%s::%s" % (short(q), name))
                continue
            if areach is None:
                try:
                    areach = async_reachable(ctx)
                except Exception:
                    areach = set()
            ws = [(f, x, u) for f, x, u in field_writes(ctx, fq) if f.kind == "CXXMethodDecl" and f.is_const]
            why = []
            for f, x, u in ws:
                if f.key in areach:
                    why.append("%s, which runs inside the asynchronous solves, writes it: a data race" % f.short)
                p = u.node
                if p.get("kind") == "UnaryOperator" and p.get("opcode") in ("++", "--") or \
                        (p.get("kind") == "CompoundAssignOperator"):
                    why.append("%s accumulates into it (%s): the value depends on how often the const method was called" % (f.short, p.get("opcode")))

            class _Sink:
                def __init__(self):
                    self.v = []

                def holds(self, *a, **k):
                    pass

                def unknown(self, rid_, node, func, what, reason):
                    self.v.append(reason)

                def violation(self, rid_, node, func, what, reason, key=None):
                    self.v.append(reason)
            sk = _Sink()
            scope = {f.short for f, _x, _u in ws}
            if scope:
                check_derived_state(ctx, sk, rid, prog, scope=scope)
            why += sk.v
            if why:
                rep.violation(rid, fd, None, label, "; ".join(dict.fromkeys(why))[:500], key="mutable|%s::%s" % (short(q), name))
            else:
                rep.holds(rid, fd, None, label, "a cache: assigned (not accumulated) by %d const method(s) outside the parallel region, and reset by "
                          "every writer of the members it is computed from" % len(scope))
    seen = set()
    for f in prog.all_funcs(with_lambdas=False):
        for x in walk(f.body):
            if x.get("kind") == "CXXConstCastExpr":
                k = loc_str(x)
                if k in seen:
                    continue
                seen.add(k)
                rep.violation(rid, x, f, "const_cast", "removes the const-ness the race-freedom argument relies on",
                              key="%s|const_cast" % f.short)
    return n


# ---- Z3 --------------------------------------------------------------------

def check_z3(ctx, prog, eff, rep, rid):
    seen = set()
    for f in prog.all_funcs(with_lambdas=False):
        nows = []
        for x in walk(f.body):
            k = x.get("kind")
            if k in ("CallExpr", "CXXMemberCallExpr"):
                ci = callee_info(x)
                nm = ci["name"]
                if nm in ENTROPY_CALLS and ci["external"]:
                    key = loc_str(x) + nm
                    if key not in seen:
                        seen.add(key)
                        rep.violation(rid, x, f, "call to %s()" % nm, "entropy / environment / wall-clock source in the library",
                                      key="%s|calls %s" % (f.short, nm))
                if nm == "now" and ci["external"]:
                    nows.append(x)
            if k in ("CXXConstructExpr", "CXXTemporaryObjectExpr", "VarDecl"):
                t = qt(x)
                if "random_device" in t and k != "VarDecl":
                    key = loc_str(x) + "rd"
                    if key not in seen:
                        seen.add(key)
                        rep.violation(rid, x, f, "std::random_device", "non-deterministic entropy source",
                                      key="%s|random_device" % f.short)
        if nows:
            check_clock_taint(ctx, f, nows, rep, rid, seen)


def check_clock_taint(ctx, f, nows, rep, rid, seen):
    g = cfg_of(f)
    tainted = set()
    # fixpoint over local variables initialised / assigned from tainted expressions
    def expr_tainted(e):
        for y in walk(e):
            if y in nows or any(y is n for n in nows):
                return True
            if y.get("kind") == "DeclRefExpr":
                d = y.get("referencedDecl") or {}
                if d.get("id") in tainted:
                    return True
        return False
    changed = True
    while changed:
        changed = False
        for x in walk(f.body):
            if x.get("kind") == "VarDecl" and x.get("id") not in tainted:
                ch = children(x)
                if ch and expr_tainted(ch[-1]):
                    tainted.add(x.get("id"))
                    changed = True
    # every statement that evaluates a tainted expression
    stmts = {}
    for x in walk(f.body):
        hit = False
        if any(x is n for n in nows):
            hit = True
        elif x.get("kind") == "DeclRefExpr" and (x.get("referencedDecl") or {}).get("id") in tainted:
            hit = True
        if hit:
            cn = g.node_for(x)
            if cn is not None:
                stmts[cn.idx] = cn
    for cn in stmts.values():
        ast = cn.ast
        ok = False
        why = ""
        if cn.kind == "cond":
            why = "a clock value decides a branch"
        elif ast.get("kind") == "DeclStmt":
            ok = True
        else:
            s = strip(ast)
            # a chain of operator<< whose left-most operand is an ostream
            if s.get("kind") == "CXXOperatorCallExpr" and callee_info(s)["name"] == "operator<<":
                root = s
                while root.get("kind") == "CXXOperatorCallExpr" and callee_info(root)["name"] == "operator<<":
                    root = strip(callee_info(root)["obj"])
                t = qt(root)
                if "ostream" in t or "stringstream" in t:
                    ok = True
                else:
                    why = "clock value shifted into a non-stream"
            else:
                why = "clock value used in %s" % s.get("kind")
        key = loc_str(ast) + "clk"
        if key in seen:
            continue
        seen.add(key)
        if ok:
            rep.holds(rid, ast, f, "clock value confined to a duration / printed")
        else:
            rep.violation(rid, ast, f, "wall-clock value reaches program state", why, key="%s|clock value escapes" % f.short)


# ---- D1 --------------------------------------------------------------------

def check_d1(ctx, rep):
    prog, eff = ctx.prog, ctx.eff
    engines = []
    for q, r in prog.records.items():
        for name, fd in r["fields"].items():
            t = qt(fd) + " " + desugared(fd)
            if any(w in t for w in ENGINE_WORDS):
                engines.append((q, name, fd))
    if not engines:
        rep.note("no random engine member in the library")
    async_reach = async_reachable(ctx)
    for q, name, fd in engines:
        fq = q + "::" + name
        seeds, consumers = [], []
        for f in prog.funcs.values():
            s = eff.summary(f)
            for x, u in s["writes"].get(fq, []) + s["escapes"].get(fq, []):
                if "seed" in u.why:
                    seeds.append((f, u))
                elif u.why == "constructor initialiser":
                    continue
                else:
                    consumers.append((f, u))
        what = "engine %s::%s" % (short(q), name)
        # construction from the seed in the constructor's initialiser list (`rgen_(params_.seed)`) is the same seeding
        ctor_seed = []
        for f in prog.funcs.values():
            if f.kind == "CXXConstructorDecl" and f.cls == q:
                for ci_ in f.ctor_inits:
                    an = ci_.get("anyInit") or {}
                    if an.get("name") == name and children(ci_):
                        ic = canon(children(ci_)[-1])
                        if any(isinstance(t, tuple) and t and t[0] == "field" and t[1] == CQ + "ColoquinteParameters::seed" for t in [ic] + list(subterms(ic))):
                            ctor_seed.append((f, ci_))
        if not seeds and len(ctor_seed) == 1:
            f, ci_ = ctor_seed[0]
            rep.holds("D1", ci_, f, what, "constructed from params.seed in the initialiser list (before any use); %d consumer site(s)" % len(consumers))
            for cf, cu in consumers:
                if cf.outer.key in async_reach or in_async_lambda(cu.node):
                    rep.violation("D1", cu.node, cf, what + " consumed inside an asynchronous callee",
                                  "the order in which threads draw from one engine depends on scheduling",
                                  key="%s|consumed in async callee %s" % (fq, cf.short))
            continue
        if ctor_seed and seeds:
            rep.violation("D1", seeds[0][1].node, seeds[0][0], what, "constructed from the seed and seeded again by seed(): the stream is restarted",
                          key="%s|seed count" % fq)
            continue
        if len(seeds) != 1:
            rep.violation("D1", fd, None, what, "%d seed() call(s); exactly one is required (an unseeded or re-seeded engine changes the stream)" % len(seeds),
                          key="%s|seed count" % fq)
            continue
        f, u = seeds[0]
        ok_ctor = f.kind == "CXXConstructorDecl" and f.cls == q
        ci = callee_info(u.node) if u.node.get("kind") in CALL_KINDS else None
        arg_ok = False
        if ci and ci["args"]:
            ac = canon(ci["args"][0])
            arg_ok = any(t[0] == "field" and t[1] == CQ + "ColoquinteParameters::seed" for t in subterms(ac))
        if not ok_ctor:
            rep.violation("D1", u.node, f, what, "seeded outside the constructor of its class", key="%s|seeded outside ctor" % fq)
        elif not arg_ok:
            rep.violation("D1", u.node, f, what, "seed argument is not the parameters' seed: %s" % (pretty(canon(ci["args"][0])) if ci and ci["args"] else "?"),
                          key="%s|seed not from parameters" % fq)
        else:
            # every consumer in the constructor must come after the seed
            g = cfg_of(f)
            sn = g.node_for(u.node)
            bad = [(cf, cu) for cf, cu in consumers if cf is f and not g.dominates(sn, g.node_for(cu.node))]
            if bad:
                rep.violation("D1", bad[0][1].node, f, what, "consumed before it is seeded", key="%s|used before seed" % fq)
            else:
                rep.holds("D1", u.node, f, what, "seeded once from params.seed in the constructor; %d consumer site(s)" % len(consumers))
        for cf, cu in consumers:
            if cf.outer.key in async_reach or in_async_lambda(cu.node):
                rep.violation("D1", cu.node, cf, what + " consumed inside an asynchronous callee",
                              "the order in which threads draw from one engine depends on scheduling",
                              key="%s|consumed in async callee %s" % (fq, cf.short))


def in_async_lambda(node):
    x = node
    while x is not None:
        if x.get("kind") == "LambdaExpr":
            p = x.get("_p")
            while p is not None and p.get("kind") in ("MaterializeTemporaryExpr", "ImplicitCastExpr", "CXXBindTemporaryExpr",
                                                      "ExprWithCleanups", "CXXConstructExpr", "CXXFunctionalCastExpr"):
                p = p.get("_p")
            if p is not None and p.get("kind") == "CallExpr" and callee_info(p)["name"] == "async":
                return True
            if p is not None and p.get("kind") == "VarDecl":
                return True   # lambda stored in a variable: conservatively treated as possibly asynchronous only if passed to async
        x = x.get("_p")
    return False


def async_launches(prog):
    out = []
    for f in prog.all_funcs(with_lambdas=False):
        for x in walk(f.body):
            if x.get("kind") == "CallExpr":
                ci = callee_info(x)
                if ci["name"] == "async" and ci["external"]:
                    out.append((f, x))
            if x.get("kind") in ("CXXConstructExpr", "CXXTemporaryObjectExpr", "VarDecl") and \
                    ("std::thread" in qt(x) or "std::jthread" in qt(x)) and x.get("kind") != "VarDecl":
                out.append((f, x))
    return out


def async_reachable(ctx):
    """Keys of functions reachable from the callee of any asynchronous launch."""
    prog, eff = ctx.prog, ctx.eff
    out = set()
    trans = eff.transitive()
    for f, call in async_launches(prog):
        m = async_callee(call) if call.get("kind") == "CallExpr" else None
        if m is not None and m.get("kind") == "CXXMethodDecl":
            for g in prog.funcs_by_q.get(m.get("_q"), []):
                out.add(g.key)
                out |= trans.get(g.key, {"calls": set()})["calls"]
    return out


# ---- D2 --------------------------------------------------------------------

def check_d2(ctx, prog, eff, rep, rid):
    seen = set()
    for f in prog.all_funcs(with_lambdas=False):
        decls = []
        for x in walk(f.body):
            if x.get("kind") in ("VarDecl",) and "unordered_" in (qt(x) + desugared(x)):
                decls.append(x)
        for p in f.params:
            if "unordered_" in qt(p):
                decls.append(p)
        for d in decls:
            key = loc_str(d) + str(d.get("name"))
            if key in seen:
                continue
            seen.add(key)
            check_unordered_var(ctx, eff, f, d, rep, rid)
    for q, r in prog.records.items():
        for name, fd in r["fields"].items():
            if "unordered_" in (qt(fd) + desugared(fd)):
                rep.unknown(rid, fd, None, "unordered container member %s::%s" % (short(q), name),
                            "members of unordered type are not modelled (none existed when the rule was written)")


def check_unordered_var(ctx, eff, f, d, rep, rid):
    refs = eff.var_refs(f.outer, d.get("id"))
    what = "%s %s" % (qt(d).split("<")[0], d.get("name"))
    bad = None
    t_ = qt(d) + " " + desugared(d)
    if "iterator" in t_ or "_Node_" in t_:
        # an iterator into an unordered container (the result of find()): looking at the element found and comparing with end()
        # is order-insensitive; advancing it walks the unspecified order
        for r in refs:
            p = r.get("_p")
            while p is not None and p.get("kind") in ("ImplicitCastExpr", "ParenExpr", "MaterializeTemporaryExpr"):
                p = p.get("_p")
            k = p.get("kind") if p is not None else None
            if k == "CXXOperatorCallExpr" and callee_info(p)["name"] in ("operator!=", "operator==", "operator->", "operator*", "operator="):
                continue
            if k in ("DeclStmt", "CompoundStmt", None):
                continue
            if k == "CXXMemberCallExpr" or k == "MemberExpr":
                continue       # it->second / it.operator->()
            bad = (p, "iterator into an unordered container is advanced or handed on (%s)" % k)
            break
        init = children(d)
        ic = canon(init[-1]) if init else None
        if bad is None and not (ic is not None and ic[0] == "call" and ic[1] in ("find", "end", "cend")):
            bad = (d, "iterator into an unordered container that does not come from find()")
        if bad:
            rep.violation(rid, bad[0], f, what, bad[1], key="%s|order of %s observed" % (f.short, d.get("name")))
        else:
            rep.holds(rid, d, f, what, "result of find(): %d use(s), dereference / comparison with end() only" % len(refs))
        return
    for r in refs:
        p = r.get("_p")
        while p is not None and p.get("kind") in ("ImplicitCastExpr", "ParenExpr"):
            p = p.get("_p")
        if p is None:
            continue
        k = p.get("kind")
        if k == "MemberExpr":
            nm = p.get("name")
            if nm in UNORDERED_OK:
                continue
            if nm in ("begin", "cbegin"):
                # allowed only as the source range of a vector that is sorted next
                if copied_and_sorted(ctx, f, p):
                    continue
                bad = (p, "iteration (begin()) whose order can reach a result")
                break
            bad = (p, "member %s of an unordered container" % nm)
            break
        if k == "VarDecl" and p.get("name", "").startswith("__range"):
            stmt = p.get("_p", {}).get("_p", {})
            bad = (stmt if stmt.get("kind") == "CXXForRangeStmt" else p, "range-for over an unordered container: iteration order is unspecified")
            break
        if k in ("CallExpr", "CXXConstructExpr", "CXXMemberCallExpr", "CXXOperatorCallExpr"):
            ci = callee_info(p)
            if ci and ci["name"] in ("operator=", "swap", "operator[]") or k == "CXXConstructExpr":
                continue
            bad = (p, "passed to %s" % (ci["name"] if ci else "?"))
            break
        if k in ("DeclStmt", "CompoundStmt"):
            continue
        if k == "LambdaExpr":
            continue            # the capture itself; every use inside the lambda's body is one of the references judged here
        bad = (p, "used in %s" % k)
        break
    if bad:
        rep.violation(rid, bad[0], f, what, bad[1], key="%s|order of %s observed" % (f.short, d.get("name")))
    else:
        rep.holds(rid, d, f, what, "%d use(s), all order-insensitive (or copied and sorted)" % len(refs))


def copied_and_sorted(ctx, f, begin_member):
    """`std::vector<T> v(s.begin(), s.end()); std::sort(v.begin(), v.end());` — the begin() call is an
    argument of the construction of a local vector whose next use is a std::sort over its full range."""
    call = begin_member.get("_p")
    x = call.get("_p") if call else None
    while x is not None and x.get("kind") in ("ImplicitCastExpr", "MaterializeTemporaryExpr", "CXXBindTemporaryExpr",
                                              "ExprWithCleanups", "CXXConstructExpr") and "vector" not in qt(x):
        x = x.get("_p")
    if x is None or x.get("kind") != "CXXConstructExpr" or "vector" not in qt(x):
        return False
    v = x.get("_p")
    while v is not None and v.get("kind") in ("ExprWithCleanups", "CXXBindTemporaryExpr", "MaterializeTemporaryExpr", "ImplicitCastExpr"):
        v = v.get("_p")
    if v is None or v.get("kind") != "VarDecl":
        return False
    g = cfg_of(f.outer) if ctx.eff.func_of_node(v) is None else cfg_of(ctx.eff.func_of_node(v))
    refs = ctx.eff.var_refs(f.outer, v.get("id"))
    if not refs:
        return False
    # first use in source order must be inside a std::sort / std::stable_sort call
    def pos(r):
        return (r.get("range", {}).get("begin", {}).get("offset", 0))
    first = sorted(refs, key=pos)[0]
    y = first
    while y is not None and y.get("kind") != "CallExpr":
        y = y.get("_p")
        if y is not None and y.get("kind") in ("CompoundStmt", "DeclStmt", "ForStmt", "IfStmt"):
            return False
    if y is None:
        return False
    return callee_info(y)["name"] in ("sort", "stable_sort")


# ---- A1 --------------------------------------------------------------------

def has_indirection_member(prog, cls, seen=None):
    """Does class cls (or a library class it holds by value) have a pointer / reference / reference_wrapper /
    shared_ptr member through which a const method could modify shared state?"""
    seen = seen or set()
    if cls in seen or cls not in prog.records:
        return None
    seen.add(cls)
    for name, fd in prog.records[cls]["fields"].items():
        t = qt(fd)
        core = t.replace("const ", "")
        if t.rstrip().endswith("&") or t.rstrip().endswith("*") or "reference_wrapper" in t or "shared_ptr" in t \
                or "unique_ptr" in t or "function<" in t:
            if t.startswith("const ") and (t.rstrip().endswith("&") or t.rstrip().endswith("*")):
                continue
            return "%s::%s of type %s" % (short(cls), name, t)
        for q in prog.records:
            if q != cls and (core == q or core == short(q) or ("<" + q) in core or ("<" + short(q) + ">") in core):
                r = has_indirection_member(prog, q, seen)
                if r:
                    return r
    return None


def _launch_sites(ctx, prog, f, call):
    """A launch is judged where its future lands. Normally that is the std::async call itself. When the call is the returned
    value of a local lambda (`auto launch = [&](...) { return std::async(...); };`) every invocation of that lambda is a launch
    site: the lambda's parameters are replaced by the invocation's arguments. Returns [(site node, argument nodes)] or None
    when the call sits in a lambda that is not such a wrapper."""
    ci = callee_info(call)
    lf = ctx.eff.func_of_node(call)
    if lf is None or lf.lam_parent is None:
        return [(call, list(ci["args"]))]
    # the async call must be the operand of the lambda's return
    p = call.get("_p")
    while p is not None and p.get("kind") in ("ExprWithCleanups", "MaterializeTemporaryExpr", "CXXBindTemporaryExpr", "ImplicitCastExpr", "CXXConstructExpr"):
        p = p.get("_p")
    if p is None or p.get("kind") != "ReturnStmt":
        return None
    lam = getattr(lf, "lambda_expr", None)
    v = lam.get("_p") if lam is not None else None
    while v is not None and v.get("kind") in ("ExprWithCleanups", "MaterializeTemporaryExpr", "CXXBindTemporaryExpr", "ImplicitCastExpr", "CXXConstructExpr"):
        v = v.get("_p")
    if v is None or v.get("kind") != "VarDecl":
        return None
    pidx = {q.get("id"): i for i, q in enumerate(lf.params)}
    sites = []
    for r in ctx.eff.var_refs(f.outer, v.get("id")):
        inv = r.get("_p")
        while inv is not None and inv.get("kind") in ("ImplicitCastExpr",):
            inv = inv.get("_p")
        if inv is None or inv.get("kind") != "CXXOperatorCallExpr" or callee_info(inv)["name"] != "operator()":
            return None            # the wrapper escapes or is used in another way
        iargs = callee_info(inv)["args"]
        args = []
        for a in ci["args"]:
            sa = strip(a, casts=True)
            d = ref_decl(sa) if sa.get("kind") == "DeclRefExpr" else None
            if d is not None and d.get("id") in pidx and pidx[d.get("id")] < len(iargs):
                args.append(iargs[pidx[d.get("id")]])
            else:
                args.append(a)
        sites.append((inv, args))
    return sites or None


def check_a1(ctx, prog, eff, rep, rid):
    launches = async_launches(prog)
    expanded = []
    for f, call in launches:
        if call.get("kind") != "CallExpr":
            expanded.append((f, call, call, None))
            continue
        sites = _launch_sites(ctx, prog, f, call)
        if sites is None:
            rep.unknown(rid, call, f, "std::async launch inside a lambda", "the launch is wrapped in a helper whose uses are not all plain invocations: not decided")
            continue
        for site, args in sites:
            expanded.append((f, call, site, args))
    for f, call, site, site_args in expanded:
        if call.get("kind") != "CallExpr":
            rep.violation(rid, call, f, "raw thread launch", "std::thread is not modelled by the async discipline",
                          key="%s|raw thread" % f.short)
            continue
        m = async_callee(call)
        ci = dict(callee_info(call))
        ci["args"] = site_args
        launch_call, call = call, site
        what = "std::async launch"
        if m is None:
            rep.unknown(rid, call, f, what, "callee of std::async not recognised")
            continue
        problems = []
        obj_fields = []
        if m.get("kind") == "LambdaExpr":
            caps = lambda_captures(m)
            bad = [c for c in caps if c[1]]
            if bad:
                problems.append("lambda callee captures %s by reference / this: the thread can mutate state shared with its parent" %
                                ", ".join(c[0] for c in bad))
        elif m.get("kind") == "CXXMethodDecl":
            ft = qt(m)
            what = "std::async(%s)" % short(m.get("_q", "?"))
            if "const" not in ft[ft.rfind(")"):]:
                problems.append("callee %s is not a const member function" % short(m.get("_q")))
            cls = m.get("_ctx") or ""
            ind = has_indirection_member(prog, cls)
            if ind:
                problems.append("object class holds %s: const-ness does not protect the pointee" % ind)
        seen_callee = False
        cref_locals = []
        for a in ci["args"]:
            x = strip(a, casts=True)
            t = qt(x)
            c = canon(a)
            if x.get("kind") == "DeclRefExpr" and (x.get("referencedDecl") or {}).get("kind") == "EnumConstantDecl":
                continue
            if not seen_callee and (x.get("kind") == "LambdaExpr" or (x.get("kind") == "UnaryOperator" and "::*" in t)):
                seen_callee = True
                continue
            if x.get("kind") == "UnaryOperator" and x.get("opcode") == "&":
                oc = canon(children(x)[0])
                if oc[0] == "field":
                    obj_fields.append(oc[1])
                if m.get("kind") != "CXXMethodDecl" or len(obj_fields) > 1:
                    problems.append("pointer argument %s handed to the thread" % pretty(c))
                continue
            if x.get("kind") in ("CallExpr",) and callee_info(x)["name"] == "cref" and callee_info(x)["args"]:
                # a const reference handed to the thread: as good as a copy provided the parent does not write the object before the
                # join (members: checked below with the object's own members; locals: no write in the launch..join region)
                rc = canon(callee_info(x)["args"][0])
                if rc[0] == "field":
                    obj_fields.append(rc[1])
                elif rc[0] == "var":
                    cref_locals.append(rc)
                else:
                    problems.append("argument %s wraps a reference to something that is neither a member nor a local" % pretty(c))
                continue
            if t.rstrip().endswith("*") or "reference_wrapper" in t:
                problems.append("argument %s is a pointer / std::ref: not decay-copied" % pretty(c))
            if x.get("kind") in ("CallExpr",) and callee_info(x)["name"] in ("ref", "cref"):
                problems.append("argument %s wraps a reference" % pretty(c))
        # joined on every path, and no write to the shared members in between
        g = cfg_of(f)
        ln = g.node_for(call)
        fut = call
        while fut is not None and fut.get("kind") != "VarDecl":
            fut = fut.get("_p")
            if fut is not None and fut.get("kind") in ("CompoundStmt",):
                fut = None
        if fut is None:
            problems.append("future is not kept in a local variable (a discarded future blocks, a returned one escapes)")
        else:
            gets = []
            for r in eff.var_refs(f.outer, fut.get("id")):
                p = r.get("_p")
                if p is not None and p.get("kind") == "MemberExpr" and p.get("name") in ("get", "wait"):
                    gets.append(p)
            gn = [g.node_for(x) for x in gets]
            gn = [x for x in gn if x is not None]
            if not gn:
                problems.append("future %s is never joined with get()/wait()" % fut.get("name"))
            elif g.exit.idx in g.reachable_from([ln], avoid=gn):
                problems.append("a path from the launch to the function exit skips %s.get()" % fut.get("name"))
            else:
                region = g.reachable_from([ln], avoid=gn)
                s = eff.summary(f)
                for fq in obj_fields:
                    for x, u in s["writes"].get(fq, []) + s["escapes"].get(fq, []):
                        if u.node is call or u.node is strip(call):
                            continue
                        n = g.node_for(u.node)
                        if n is not None and n.idx in region and n is not ln:
                            problems.append("%s is written (%s) while the thread may still read it" % (short(fq), u.why))
                from .common import var_write_nodes
                for lv_ in cref_locals:
                    for wn_ in var_write_nodes(ctx, f.outer, [lv_[1]]):
                        n = g.node_for(wn_)
                        if n is not None and n.idx in region and n is not ln:
                            problems.append("local %s, passed by std::cref, is written while the thread may still read it" % lv_[2])
        if problems:
            rep.violation(rid, call, f, what, "; ".join(problems[:3]), key="%s|async discipline: %s" % (f.short, problems[0][:60]))
        else:
            rep.holds(rid, call, f, what, "const callee, copied arguments, joined; shared members %s untouched until join" % [short(x) for x in obj_fields])


def lambda_captures(lam):
    """[(name, by_reference_or_this)] for a LambdaExpr."""
    out = []
    rec = inner(lam)[0] if inner(lam) else None
    if rec is not None and rec.get("kind") == "CXXRecordDecl":
        for c in inner(rec):
            if c.get("kind") == "FieldDecl":
                t = qt(c)
                nm = c.get("name") or ("this" if t.endswith("*") else "?")
                out.append((nm, t.rstrip().endswith("&") or t.rstrip().endswith("*")))
    return out


# ---- D3 --------------------------------------------------------------------

def check_d3(ctx, rep, rid="D3", specs=None):
    prog, eff = ctx.prog, ctx.eff
    trans = eff.transitive()
    specs = specs or [("GlobalPlacer::run", ["cellX_", "cellY_"]),
                      ("DetailedPlacer::run", ["cellX_", "cellY_", "cellOrientation_"])]

    # classes that make up the algorithms' state: the two placers and everything they hold by value
    state_classes = set()
    stack = [CQ + "GlobalPlacer", CQ + "DetailedPlacer"]
    while stack:
        c = stack.pop()
        if c in state_classes or c not in prog.records:
            continue
        state_classes.add(c)
        for b in prog.records[c].get("bases", []):
            stack.append(b if b.startswith(CQ) else CQ + b)
        for name, fd in prog.records[c]["fields"].items():
            t = qt(fd)
            for q in prog.records:
                if q not in state_classes and (short(q) in t.replace("coloquinte::", "")) and q != CQ + "Circuit":
                    if short(q) in ("Rectangle", "Point", "Row", "CellPlacement") or "Parameters" in q:
                        continue
                    stack.append(q)

    def pure_exporter(g):
        """void function that (transitively) writes no member of an algorithm-state class: whatever it reads from the
        Circuit cannot reach the algorithms' state."""
        gw = {w for w in trans.get(g.key, {"writes": set()})["writes"] if any(w.startswith(c + "::") for c in state_classes)}
        return not gw and g.type.split("(")[0].strip() == "void" and g.kind != "CXXConstructorDecl"

    from .common import is_fixed_test
    from .c03 import call_chain
    for entry, flds in specs:
        f = prog.func1(CQ + entry)
        # reachability that does not look inside pure exporters
        reach, stack, exporters = {f.key}, [f], set()
        while stack:
            h = stack.pop()
            for _c, g in eff.callees(h):
                if g.key in reach:
                    continue
                if pure_exporter(g):
                    exporters.add(g.short)
                    continue
                reach.add(g.key)
                stack.append(g)
        bad = []
        for k in reach:
            g = prog.funcs.get(k)
            if g is None:
                continue
            s = eff.summary(g)
            for fl in flds:
                for x, u in s["reads"].get(CQ + "Circuit::" + fl, []):
                    owner = eff.func_of_node(x) or g
                    guards = ctx.guards(owner, x) or []
                    if any(is_fixed_test(gc) and val is True for gc, val, _a, _b in guards):
                        continue
                    bad.append((g, x, fl))
        if bad:
            g, x, fl = bad[0]
            rep.violation(rid, x, g, "%s reaches a read of Circuit::%s" % (entry, fl),
                          "placement coordinates exported for a callback can flow back into the algorithm via %s (%d read site(s))" % (
                              " -> ".join(call_chain(ctx, f, g)), len(bad)),
                          key="%s|reads back Circuit::%s in %s" % (entry, fl, g.short))
        else:
            rep.holds(rid, f.decl, f, "no read of Circuit::{%s} reachable from %s outside pure exporters" % (",".join(flds), entry),
                      "%d functions reachable; pure exporters not entered: %s" % (len(reach), sorted(exporters)))


# ---- D4 --------------------------------------------------------------------

def check_d4(ctx, rep):
    """Branches on `callback.has_value()`: whatever executes only when the callback is ABSENT must be empty (an early return),
    otherwise the result differs between a run with an observing callback and a run without."""
    prog = ctx.prog
    n = 0
    for f in prog.all_funcs(with_lambdas=False):
        g = None
        for x in walk(f.body):
            if x.get("kind") != "CXXMemberCallExpr":
                continue
            ci = callee_info(x)
            ot = (qt(ci["obj"]) + desugared(ci["obj"])) if ci["obj"] is not None else ""
            if ci["name"] != "has_value" or not ("PlacementCallback" in ot or "function<void (coloquinte::PlacementStep)>" in ot):
                continue
            g = g or cfg_of(f)
            edges = [e for e in g.nodes if e.kind == "edge" and e.ast is x and isinstance(e.val, bool)]
            if not edges:
                continue
            n += 1
            absent = [e for e in edges if e.val is False]
            bad = None
            for e in absent:
                # nodes executed only when the callback is absent: dominated by this edge
                for nd in g.nodes:
                    if nd.kind in ("stmt", "cond") and nd.ast is not None and e in g.dominators(nd):
                        k = nd.ast.get("kind")
                        if k in ("ReturnStmt", "BreakStmt", "ContinueStmt", "NullStmt"):
                            continue
                        bad = nd.ast
                        break
                if bad is not None:
                    break
            if bad is not None:
                rep.violation("D4", bad, f, "code that runs only when no callback is given",
                              "a run with an observing callback skips it: coordinates differ with and without the observer",
                              key="%s|callback-absent-only code" % f.short)
            else:
                rep.holds("D4", x, f, "nothing but an early exit depends on the absence of the callback (%s)" % f.short)
    if n == 0:
        rep.unknown("D4", "-", None, "callback tests", "no has_value() test on a PlacementCallback found (shape changed)")
