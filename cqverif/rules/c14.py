"""C14 — 1-D transportation: the rounding is memory-safe (index-domain typing).

QI   index-domain typing of Transportation1dSorter's conversions: a vector's index domain is that of
     the size it was built with; a subscript whose value domain differs from the vector's index domain is
     a violation; the returned vector has the declared index and value domains
GZ   the sorter hands the solver only sources of positive supply and sinks of positive demand (each element pushed into
     a sort list is edge-dominated by a positivity test on the same index of another input vector)
DE   the sorted / filtered view of the problem is never kept across a change of the supplies or demands (balanceDemand): a member
     derived from u, v, s, d must be re-derived by every writer of them
AW   totals (totalSupply / totalDemand and any other fold in the unit) are accumulated in 64 bits
QC   the two callers in DensityLegalizer subscript their per-bin vector with the returned sink index only
     after building the problem with one sink per bin and one source per collected cell
"""
import json
import os

from ..frontend import VERIF, AnalysisBroken
from ..model import qt, loc_str, walk, inner
from ..expr import canon, pretty, children, strip, callee_info, subterms
from ..cfg import cfg_of
from .common import CQ, short, for_loop_info, binding_source

EXPLANATION = (
    "Static index-domain typing on the clang-resolved AST of transportation_1d.cpp (global-namespace classes) and its two call "
    "sites. Domains ORIG_SRC/ORIG_SNK (indices of the caller's vectors) and SORT_SRC/SORT_SNK (indices after the sorter dropped "
    "zero entries and sorted) are seeded from rules/c14.json for the sorter's members and parameters; a local vector's index "
    "domain is the domain of the size expression it was constructed / resized with, a loop variable's domain is that of its bound, "
    "a range-for variable's domain is the value domain of the container. Every subscript V[e] inside the sorter's conversion "
    "functions must satisfy value-domain(e) == index-domain(V), and each returned vector must have the declared domains: this is "
    "what makes `ret[srcOrder[i]]` in-bounds for every input, including zero supplies and demands. QC: in DensityLegalizer::"
    "improveX/YTransport the problem is built with exactly one sink per bin of the line and one source per collected cell, and the "
    "assignment is read for exactly those cells and used to index a vector with one slot per bin.")

DECLINED = ["optimality / validity of the transportation plan (algorithmic; not visible in code shape)",
            "the bound of the sink scan in computeAssignment and reads of the solver's own arrays (numeric invariants of the sweep)"]

ANY = "ANY"


class Domains:
    def __init__(self, ctx, func, seeds):
        self.ctx = ctx
        self.func = func
        self.fields = seeds["fields"]
        self.fseed = seeds["functions"].get(func.short, {})
        self.problems = []
        self.env = {}           # parameter id of a local lambda -> canonical argument of the call being analysed

    def subst(self, c):
        if not self.env or not isinstance(c, tuple):
            return c
        if c and c[0] == "var" and c[1] in self.env:
            return self.env[c[1]]
        return tuple(self.subst(x) if isinstance(x, tuple) else x for x in c)

    # -- vectors ---------------------------------------------------------------
    def vec(self, c):
        """{'index': D or None, 'value': D or None} for a vector-valued canonical expression."""
        c = self.subst(c)
        if c[0] == "field" and c[2] == ("this",) and c[1] in self.fields:
            s = self.fields[c[1]]
            return {"index": s.get("index"), "value": s.get("value")}
        if c[0] == "field" and c[2][0] == "var":
            key = "%s.%s" % (c[2][2], c[1].split("::")[-1])
            s = self.fseed.get("objects", {}).get(key)
            if s:
                return {"index": s.get("index"), "value": s.get("value")}
        if c[0] == "var":
            s = self.fseed.get("params", {}).get(c[2])
            if s and "index" in s:
                return {"index": s.get("index"), "value": s.get("value")}
            d = self.func.unit.by_id.get(c[1])
            if d is not None and d.get("kind") == "VarDecl" and "vector" in qt(d):
                return self.local_vec(d)
        return {"index": None, "value": None}

    def local_vec(self, d):
        sizes = []
        values = []
        init = children(d)
        if init:
            ic = canon(init[-1])
            if ic[0] == "construct" and len(ic) >= 3 and ic[2] != ("defaultarg",):
                sizes.append(self.count(ic[2]))
                if len(ic) >= 4 and ic[3] != ("defaultarg",):
                    values.append(self.value(ic[3]))
        vid = d.get("id")
        for x in walk(self.func.body):
            if x.get("kind") == "CXXMemberCallExpr":
                ci = callee_info(x)
                if ci["obj"] is not None and canon(ci["obj"]) == ("var", vid, d.get("name")):
                    if ci["name"] in ("resize", "assign") and ci["args"]:
                        sizes.append(self.count(canon(ci["args"][0])))
                        if len(ci["args"]) > 1 and ci["args"][1].get("kind") != "CXXDefaultArgExpr":
                            values.append(self.value(canon(ci["args"][1])))
                    elif ci["name"] in ("push_back", "emplace_back"):
                        sizes.append("GROWN")
            if x.get("kind") in ("BinaryOperator",) and x.get("opcode") == "=":
                l, r = children(x)
                lc = canon(l)
                if lc[0] == "index" and lc[1] == ("var", vid, d.get("name")):
                    values.append(self.value(canon(r)))
        idx = None
        ss = {s for s in sizes if s is not None}
        if len(ss) == 1:
            idx = ss.pop()
        elif len(ss) > 1:
            idx = "MIX(%s)" % ",".join(sorted(ss))
        vs = {v for v in values if v not in (None, ANY)}
        val = vs.pop() if len(vs) == 1 else (("MIX(%s)" % ",".join(sorted(vs))) if vs else None)
        return {"index": idx, "value": val}

    def count(self, c):
        """Domain counted by a size expression."""
        if c[0] == "call" and c[1] == "size" and len(c) >= 3:
            return self.vec(c[2])["index"]
        if c[0] == "field" and c[2] == ("this",) and c[1] in self.fields:
            return self.fields[c[1]].get("count")
        if c[0] == "call" and c[1].endswith("nbSources"):
            return "ORIG_SRC"
        if c[0] == "call" and c[1].endswith("nbSinks"):
            return "ORIG_SNK"
        return None

    # -- integer values --------------------------------------------------------------
    def value(self, c):
        c = self.subst(c)
        if c[0] == "lit":
            return ANY
        if c[0] == "index":
            return self.vec(c[1])["value"]
        if c[0] == "call" and c[1] in ("front", "back") and len(c) >= 3:
            return self.vec(c[2])["value"]
        if c[0] == "cond":
            a, b = self.value(c[2]), self.value(c[3])
            if a == ANY:
                return b
            if b == ANY or a == b:
                return a
            return "MIX(%s,%s)" % (a, b)
        if c[0] == "elem":
            return self.vec(c[1])["value"]
        if c[0] == "var":
            d = self.func.unit.by_id.get(c[1])
            if d is None:
                return None
            if d.get("_rangevar") is not None:
                return self.vec(canon(d["_rangevar"]))["value"]
            if d.get("kind") == "ParmVarDecl":
                from .common import algo_element_container
                cont = algo_element_container(d)
                if cont is not None:
                    return self.vec(canon(cont))["value"]
                return None
            if d.get("kind") == "BindingDecl":
                bs = binding_source(self.func, c[1])
                if bs:
                    src, pos, dd = bs
                    rv = dd.get("_rangevar")
                    if rv is None and src[0] == "var":
                        # `const auto &[i, j, a] = elt;` with elt the element parameter of a lambda given to a std algorithm
                        from .common import algo_element_container
                        pd = self.func.unit.by_id.get(src[1])
                        rv = algo_element_container(pd) if pd is not None and pd.get("kind") == "ParmVarDecl" else None
                    if rv is not None:
                        rc = canon(rv)
                        s = self.fseed.get("params", {}).get(rc[2] if rc[0] == "var" else "")
                        if s and "value_tuple" in s:
                            return s["value_tuple"][pos]
                return None
            # loop variable bounded by a size
            p = d.get("_p")
            pp = p.get("_p") if p else None
            if pp is not None and pp.get("kind") == "ForStmt":
                li = for_loop_info(pp)
                if li and li["var"][1] == c[1] and li["hi"] is not None and li["lo"] == ("lit", "0"):
                    return self.count(li["hi"])
            return None
        return None


def run(ctx, rep, tier):
    prog = ctx.prog
    seeds = json.load(open(os.path.join(VERIF, "rules", "c14.json")))
    rep.rule("QI", "index-domain typing of the sorter's conversions (subscripts and returned vectors)", 8)
    rep.rule("GZ", "zero supplies / zero demands are filtered out before the solver sees them", 2)
    rep.rule("AW", "supply / demand totals accumulated in 64 bits", 2)
    rep.rule("DE", "no stale memoised preprocessing: a member derived from the problem data is re-derived by every writer of that data (expected count 0)", 0)
    rep.rule("NF", "the 1-D transportation classes compute positions and supplies in 64-bit integers (no value passes through float)", 1)
    rep.rule("EV", "no element of a vector is read at a point where nothing can have filled it yet", 1)
    rep.rule("QC", "callers index per-bin vectors with the returned sink index of a problem with one sink per bin", 2)
    for q in ("Transportation1dSorter::convertAssignmentBack", "Transportation1dSorter::convertSolutionBack",
              "Transportation1dSorter::convert"):
        f = prog.func1(q)
        check_function(ctx, rep, f, seeds)
    for q in ("DensityLegalizer::improveXTransport", "DensityLegalizer::improveYTransport"):
        check_caller(ctx, rep, prog.func1(CQ + q))
    _extra(ctx, rep)


def _extra(ctx, rep):
    check_zero_filter(ctx, rep)
    check_totals(ctx, rep)
    check_balance(ctx, rep)
    from .common import check_no_float
    nf, nb = check_no_float(ctx, rep, "NF", lambda c: "Transportation1d" in c,
                            "cumulated supplies exceed 2^24 at the legalizer's scaling (positions up to 1e8): a midpoint or position formed in float lands "
                            "in the neighbouring sink, or past the last one (out-of-range sink index)")
    if nf == 0:
        rep.unknown("NF", None, None, "Transportation1d classes", "no member function found")
    elif nb == 0:
        rep.holds("NF", "src/place_global/transportation_1d.cpp", None, "%d member functions convert nothing between integer and floating point" % nf)
    from .common import check_empty_reads
    fs = [g_ for g_ in ctx.prog.funcs.values() if g_.cls and "Transportation1d" in g_.cls and g_.body is not None]
    nobj, nel = check_empty_reads(ctx, rep, "EV", fs)
    if nobj == 0:
        rep.unknown("EV", None, None, "Transportation1d classes", "no vector that starts empty was found (shape changed)")
    elif nel == 0:
        rep.holds("EV", "src/place_global/transportation_1d.cpp", None, "%d vectors start empty in the 1-D transportation classes; none is read by element "
                  "(front / back / at / []) anywhere, they are filled and handed on" % nobj)
    from .common import check_eager_derived
    if check_eager_derived(ctx, rep, "DE", class_pred=lambda q: "Transportation1d" in q) == 0:
        rep.holds("DE", "src/place_global/transportation_1d.*", None, "the 1-D transportation classes keep no memoised function of the problem data",
                  "the sorter is rebuilt from u, v, s, d by every solve() / assign()")


def _judge(rep, f, dom, x, c):
    v = dom.vec(c[1])
    e = dom.value(c[2])
    cs = dom.subst(c)
    what = "%s" % pretty(cs)
    if True:
        if v["index"] is None:
            rep.unknown("QI", x, f, what, "index domain of %s is not determined (no seed, no sizing expression)" % pretty(c[1]))
        elif e is None:
            rep.unknown("QI", x, f, what, "value domain of the index %s is not determined" % pretty(c[2]))
        elif e == ANY or e == v["index"]:
            rep.holds("QI", x, f, what, "index in %s, vector indexed by %s" % (e, v["index"]))
        else:
            rep.violation("QI", x, f, what,
                          "subscript in domain %s used on a vector whose index domain is %s (sized from a different count): "
                          "out-of-bounds access when the two counts differ, e.g. zero supplies/demands dropped by the sorter" % (e, v["index"]),
                          key="%s|%s indexed in wrong domain" % (f.short, pretty(c[1])))


def check_function(ctx, rep, f, seeds):
    dom = Domains(ctx, f, seeds)
    from .common import local_lambda_calls
    lam_calls = local_lambda_calls(f)
    n = 0
    for x in walk(f.body):
        c = None
        if x.get("kind") == "CXXOperatorCallExpr" and callee_info(x)["name"] == "operator[]":
            c = canon(x)
        elif x.get("kind") == "ArraySubscriptExpr":
            c = canon(x)
        if c is None or c[0] != "index":
            continue
        # a subscript inside a lambda stored in a local and invoked by name is judged once per invocation, the lambda's
        # parameters standing for that invocation's arguments
        envs = [{}]
        q = x.get("_p")
        while q is not None and q is not f.body:
            if q.get("kind") == "LambdaExpr" and id(q) in lam_calls:
                lam, calls = lam_calls[id(q)]
                ps = lam["_lam"].params
                envs = [dict(e0, **{p_.get("id"): args[i] for i, p_ in enumerate(ps) if i < len(args)}) for e0 in envs for args in calls]
            q = q.get("_p")
        for env in envs:
            dom.env = env
            _judge(rep, f, dom, x, c)
            n += 1
        dom.env = {}
        continue
    rs = seeds["functions"].get(f.short, {}).get("returns")
    if rs and "index" in rs:
        for x in walk(f.body):
            if x.get("kind") == "ReturnStmt" and children(x):
                rc = canon(children(x)[0])
                v = dom.vec(rc)
                what = "returned vector %s" % pretty(rc)
                if v["index"] == rs["index"] and v["value"] in (rs["value"], None):
                    if v["value"] is None:
                        rep.unknown("QI", x, f, what, "value domain of the returned vector not determined")
                    else:
                        rep.holds("QI", x, f, what, "index domain %s, element domain %s" % (v["index"], v["value"]))
                else:
                    rep.violation("QI", x, f, what, "has index domain %s / element domain %s; callers expect one %s per %s" % (
                        v["index"], v["value"], rs["value"], rs["index"]), key="%s|returned vector in wrong domain" % f.short)
    if n == 0:
        rep.unknown("QI", f.decl, f, f.short, "no subscript found (shape changed)")


def check_caller(ctx, rep, f):
    """`Transportation1d pb(u, v, s, d); A = pb.assign(); for i < cells.size(): perBin[A[i]]...`:
    u, s and the list of collected cells are pushed together (one source per cell), v and d together (one sink per bin),
    and the assignment is read for exactly the collected cells. All variables are identified by their role, not by name."""
    g = cfg_of(f)
    pbs = [x for x in walk(f.body) if x.get("kind") == "VarDecl" and "Transportation1d" in qt(x) and children(x)]
    pbv = {("var", x.get("id"), x.get("name")) for x in pbs}
    asg = [x for x in walk(f.body) if x.get("kind") == "VarDecl" and children(x) and canon(children(x)[-1])[0] == "call"
           and canon(children(x)[-1])[1].split("::")[-1] == "assign" and canon(children(x)[-1])[2] in pbv]
    if len(pbs) != 1 or len(asg) != 1:
        rep.unknown("QC", f.decl, f, "1-D transport call", "problem construction / assign() call not found exactly once")
        return
    ic = canon(children(pbs[0])[-1])
    if ic[0] != "construct" or len(ic) < 6 or any(a[0] != "var" for a in ic[2:6]):
        rep.unknown("QC", pbs[0], f, "1-D transport call", "constructor arguments are not four local vectors")
        return
    u, v, s_, d = ic[2:6]
    pushes = {}
    for x in walk(f.body):
        if x.get("kind") == "CXXMemberCallExpr":
            ci = callee_info(x)
            if ci["name"] in ("push_back", "emplace_back") and ci["obj"] is not None:
                oc = canon(ci["obj"])
                if oc[0] == "var":
                    pushes.setdefault(oc[1], []).append(x)

    def block(var):
        lst = pushes.get(var[1], [])
        if len(lst) != 1:
            return None
        n = g.node_for(lst[0])
        return frozenset((id(a), val) for a, val, _e in g.dom_edges(n))
    bu, bs, bv, bd = block(u), block(s_), block(v), block(d)
    # the vector of collected cells: the other int vector pushed in the same block as u
    cellvars = [vid for vid, lst in pushes.items() if vid not in (u[1], s_[1], v[1], d[1]) and len(lst) == 1 and
                frozenset((id(a), val) for a, val, _e in g.dom_edges(g.node_for(lst[0]))) == bu]
    av = ("var", asg[0].get("id"), asg[0].get("name"))
    problems = []
    if None in (bu, bs, bv, bd):
        rep.unknown("QC", f.decl, f, "problem construction", "u/v/s/d are not each filled by exactly one push")
        return
    if bu != bs:
        problems.append("source positions and supplies are not pushed together")
    if bv != bd:
        problems.append("sink positions and demands are not pushed together")
    if len(cellvars) != 1:
        problems.append("no list of collected cells is filled together with the sources (index alignment lost)")
    idx_ok = False
    for x in walk(f.body):
        if x.get("kind") == "CXXOperatorCallExpr" and callee_info(x)["name"] == "operator[]":
            c = canon(x)
            if c[0] == "index" and c[2][0] == "index" and c[2][1] == av:
                i = c[2][2]
                dd = f.unit.by_id.get(i[1]) if i[0] == "var" else None
                pp = dd.get("_p", {}).get("_p") if dd else None
                li = for_loop_info(pp) if pp is not None and pp.get("kind") == "ForStmt" else None
                if li and li["lo"] == ("lit", "0") and li["hi"] and li["hi"][0] == "call" and li["hi"][1] == "size" and cellvars and \
                        li["hi"][2][0] == "var" and li["hi"][2][1] == cellvars[0]:
                    idx_ok = True
    if not idx_ok:
        problems.append("the assignment is not read over exactly the collected cells (i in 0..cells.size())")
    if problems:
        rep.violation("QC", f.decl, f, "problem/assignment index alignment broken", "; ".join(problems), key="%s|assignment alignment" % f.short)
    else:
        rep.holds("QC", f.decl, f, "one source per collected cell, one sink per bin; assignment read for exactly those cells")


def check_solver_inputs(ctx, rep):
    """GZ (who may build the solver). Transportation1dSolver assumes sorted positions and strictly positive supplies and demands (its
    rounding walks `D` past every sink until the supply of the source is exhausted): it may only be constructed from what the sorter
    hands out. A construction from the raw problem data - a fast path for inputs that happen to be sorted - lets zero supplies and zero
    demands through and the rounding reads past the end of its tables."""
    prog = ctx.prog
    n = 0
    for f in prog.all_funcs(with_lambdas=False):
        if f.body is None or (f.cls or "").endswith("Transportation1dSolver"):
            continue
        for x in walk(f.body):
            if x.get("kind") not in ("CXXConstructExpr", "CXXTemporaryObjectExpr") or "Transportation1dSolver" not in qt(x):
                continue
            args = children(x)
            if len(args) < 4:
                continue
            n += 1
            from_sorter = 0
            for a_ in args:
                if any(y.get("kind") == "CXXMemberCallExpr" and "Transportation1dSorter" in qt(callee_info(y)["obj"] or {}) for y in walk(a_)):
                    from_sorter += 1
            what = "%s builds a Transportation1dSolver" % f.short
            if (f.cls or "").endswith("Transportation1dSorter"):
                rep.holds("GZ", x, f, what, "inside the sorter, from its sorted and filtered vectors")
            elif from_sorter == len(args):
                rep.holds("GZ", x, f, what, "from the four vectors of a Transportation1dSorter (sorted, zero entries removed)")
            else:
                rep.violation("GZ", x, f, what, "%d of its %d arguments do not come from a Transportation1dSorter: zero supplies / demands and unsorted or duplicate "
                              "positions reach a solver whose rounding relies on their absence" % (len(args) - from_sorter, len(args)),
                              key="%s|solver built from unfiltered data" % f.short)
    if n == 0:
        rep.unknown("GZ", None, None, "constructions of Transportation1dSolver", "none found (shape changed)")


def check_zero_filter(ctx, rep):
    check_solver_inputs(ctx, rep)
    prog = ctx.prog
    ctors = [f for f in prog.funcs.values() if f.kind == "CXXConstructorDecl" and f.qname.endswith("Transportation1dSorter::Transportation1dSorter") and f.body is not None]
    if len(ctors) != 1:
        rep.unknown("GZ", None, None, "Transportation1dSorter constructor", "found %d" % len(ctors))
        return
    ctor = ctors[0]

    def sites_in(f):
        """(call node, position expr, filtered?) for every push of `positions[i]` of a parameter vector into a sort list."""
        pids = {p.get("id"): p.get("name") for p in f.params}
        out = []
        for x in walk(f.body):
            if x.get("kind") != "CXXMemberCallExpr":
                continue
            ci = callee_info(x)
            if not ci or ci["name"] not in ("emplace_back", "push_back") or len(ci["args"]) < 2:
                continue
            a0 = canon(ci["args"][0])
            if not (a0[0] == "index" and a0[1][0] == "var" and a0[1][1] in pids):
                continue
            idx = a0[2]
            ok = False
            for gc, val, _a, _as in (ctx.guards(f, x) or []):
                if gc[0] == "bin" and gc[1] in (">", "!=") and val is True and gc[3][0] == "lit" and str(gc[3][1]).rstrip("L") == "0":
                    l = gc[2]
                    if l[0] == "index" and l[1][0] == "var" and l[1][1] in pids and l[1][1] != a0[1][1] and l[2] == idx:
                        ok = True
            out.append((x, a0, ok, f))
        return out

    sites = sites_in(ctor)
    # a helper that receives (positions, quantities) of the constructor's parameters and builds the list for them
    cp = {p.get("id") for p in ctor.params}
    for x in [y_ for root_ in [ctor.body] + list(ctor.ctor_inits) for y_ in walk(root_)]:
        if x.get("kind") in ("CallExpr", "CXXMemberCallExpr"):
            ci = callee_info(x)
            if ci and sum(1 for a in ci["args"] if canon(a)[0] == "var" and canon(a)[1] in cp) >= 2:
                _c, hs = ctx.eff.resolve_callee(x)
                for h in hs:
                    if h.body is not None and h.key != ctor.key:
                        sites += sites_in(h)
    n = 0
    for x, a0, ok, f in sites:
        n += 1
        what = "position %s enters the sorted problem (%s)" % (pretty(a0), f.short)
        if ok:
            rep.holds("GZ", x, f, what, "only under a positivity test on the same index of the matching quantity vector")
        else:
            rep.violation("GZ", x, f, what, "entries of zero supply / demand are not filtered out: the solver's sweep assumes every source and "
                          "sink has room (it either refuses the instance or scans past the last sink)", key="Transportation1dSorter::Transportation1dSorter|zero entries kept")
    if n < 2:
        rep.unknown("GZ", ctor.decl, ctor, "sort lists", "expected the source and the sink list to be filled from the position vectors, found %d fill site(s)" % n)


def check_totals(ctx, rep):
    from .common import check_accumulators
    prog = ctx.prog
    fs = [f for f in prog.all_funcs(with_lambdas=False) if loc_str(f.decl).startswith("src/place_global/transportation_1d")]
    n = check_accumulators(ctx, rep, "AW", fs)
    # hand-written folds: the accumulator returned by totalSupply / totalDemand is 64-bit
    for q in ("Transportation1d::totalSupply", "Transportation1d::totalDemand"):
        for f in [g for g in prog.funcs.values() if g.qname.endswith(q)]:
            rets = [y for y in walk(f.body) if y.get("kind") == "ReturnStmt" and children(y)]
            for r in rets:
                c = canon(children(r)[0])
                if c[0] == "var":
                    d = f.unit.by_id.get(c[1])
                    t = qt(d).replace("const ", "") if d is not None else "?"
                    n += 1
                    if t in ("long long", "long", "unsigned long", "unsigned long long", "double"):
                        rep.holds("AW", r, f, "%s accumulates in %s" % (q, t))
                    else:
                        rep.violation("AW", r, f, "%s accumulates in %s" % (q, t), "supplies are scaled areas: their total exceeds 2^31",
                                      key="%s|narrow accumulator" % q)
    if n == 0:
        rep.unknown("AW", None, None, "totals", "no fold found in transportation_1d.cpp")


def check_balance(ctx, rep):
    """QI (balanceDemand). Transportation1d::balanceDemand spreads the missing demand over the sinks: an equal share `missing / K` to
    every sink and one unit more to the first `missing - share * K` of them. That remainder is below K, so it stays inside d only when K is
    the number of sinks: every count that enters the arithmetic or bounds a loop over d belongs to the sink domain (nbSinks(), v.size(),
    d.size()). A source count makes the remainder loop run past the end of d whenever there are more sources than sinks."""
    prog = ctx.prog
    fs = [f for f in prog.funcs.values() if f.qname.endswith("Transportation1d::balanceDemand") and f.body is not None]
    if len(fs) != 1:
        rep.unknown("QI", None, None, "Transportation1d::balanceDemand", "not found")
        return
    f = fs[0]

    def dom(c):
        if c[0] == "call" and isinstance(c[1], str):
            nm = c[1].split("::")[-1]
            if nm == "nbSinks":
                return "ORIG_SNK"
            if nm == "nbSources":
                return "ORIG_SRC"
            if nm == "size" and len(c) == 3 and c[2][0] == "field":
                fld = c[2][1].split("::")[-1]
                return {"u": "ORIG_SRC", "s": "ORIG_SRC", "v": "ORIG_SNK", "d": "ORIG_SNK"}.get(fld)
        return None
    n = 0
    for x in walk(f.body):
        cs = []
        if x.get("kind") in ("BinaryOperator", "CompoundAssignOperator") and x.get("opcode") in ("/", "*", "%", "/=", "*=", "%=", "<", "<="):
            cs = [canon(c_) for c_ in children(x)]
        for c in cs:
            dmn = dom(c)
            if dmn is None:
                continue
            n += 1
            what = "balanceDemand: count %s in %s" % (pretty(c), pretty(canon(x))[:50])
            if dmn == "ORIG_SNK":
                rep.holds("QI", x, f, what, "the number of sinks, the index domain of d")
            else:
                rep.violation("QI", x, f, what, "a count of the *source* domain shares out demand that is added to the sinks: the remainder loop `for i < missing - "
                              "share * count` indexes d with up to count - 1 and runs past its end when there are more sources than sinks",
                              key="Transportation1d::balanceDemand|source count used for the sinks")
    if n == 0:
        rep.unknown("QI", f.decl, f, "balanceDemand", "no count of sinks / sources found in its arithmetic (shape changed)")
    # conservation: what the share loop hands out is what the remainder assumes it handed out. The share goes to every sink the loop
    # reaches; `missing - share * K` is what is left only if K is the number of those sinks.
    from .common import for_loop_info, expand_locals
    for x in walk(f.body):
        if x.get("kind") != "CompoundAssignOperator" or x.get("opcode") != "+=":
            continue
        l, r = children(x)
        lc, rc = canon(l), canon(r)
        if not (lc[0] == "index" and lc[1][0] == "field" and str(lc[1][1]).endswith("::d") and rc[0] == "var"):
            continue
        share = rc
        lp = x.get("_p")
        while lp is not None and lp.get("kind") != "ForStmt":
            lp = lp.get("_p")
        li = for_loop_info(lp) if lp is not None else None
        if not li:
            continue
        own = []
        q = x.get("_p")
        while q is not None and q is not lp:
            if q.get("kind") in ("IfStmt", "ConditionalOperator", "SwitchStmt", "WhileStmt", "ForStmt"):
                own.append((canon(children(q)[0]), True))
            q = q.get("_p")
        own += [(("lit", y.get("kind")), True) for y in walk(li["body"]) if y.get("kind") in ("ContinueStmt", "BreakStmt", "ReturnStmt")]
        # where the share is multiplied back
        mults = []
        for y in walk(f.body):
            if y.get("kind") == "BinaryOperator" and y.get("opcode") == "*":
                a, b = [canon(c_) for c_ in children(y)]
                if a == share or b == share:
                    mults.append((y, b if a == share else a))
        for y, K in mults:
            what = "balanceDemand: the share %s goes to the sinks of the loop over %s, the remainder is computed from %s * %s" % (share[2], pretty(li["hi"])[:20], share[2], pretty(K)[:20])
            full = li["lo"] == ("lit", "0") and li.get("step") == 1 and not own
            if full and expand_locals(ctx, f, K) == expand_locals(ctx, f, li["hi"]):
                rep.holds("QI", y, f, what, "every sink receives the share and the remainder counts them all")
            elif not full and expand_locals(ctx, f, K) == expand_locals(ctx, f, li["hi"]):
                rep.violation("QI", y, f, what, "the share is handed out only under %s, yet the remainder subtracts it once per sink of the whole range: less demand is added than "
                              "was missing, and the supply still exceeds the demand after balancing" % [pretty(g_)[:40] for g_, _v in own],
                              key="Transportation1d::balanceDemand|remainder counts sinks that received no share")
            else:
                rep.unknown("QI", y, f, what, "the multiplier of the share is not the bound of the loop that hands it out")
