"""C18 — cell expansion never touches fixed cells (frame clause) and expansion factors are 1 for fixed cells.

W5   expandCellsToDensity / expandCellsByFactor write no Circuit member other than cellWidth_
G15  each of those writes is edge-dominated by !cellIsFixed_[i] / !isFixed(i) on the same index
SK   a binary search over the region map must use the key the map was sorted by
NN   non-narrowing: the value stored into cellWidth_[i] is provably >= the old width (or the old width times a factor
     provably >= 1) from the branch conditions that dominate it, in the positive-orthant domain of order.py; a loop-invariant
     min-clamp is the "width cap" the property exempts
RM   the list of congested regions scanned for each cell is only ever grown or permuted (push/emplace, sort) after it is
     filled: erase / unique / remove / resize / pop_back on it drops regions a cell may intersect
DS   a cached result kept by a const function on the expansion path is invalidated by every writer of what it reads
CY   expandCellsToDensity: the stored width depends on a local that lives across the iterations of the cell loop and is updated in
     it (the rounding carry): necessary for "within one cell height of target x available area"
G16  computeCellExpansion is const (writes nothing); per cell exactly one factor is pushed; on the fixed branch it is the
     literal 1; on the other branch it is a running maximum started at 1
"""
from ..frontend import AnalysisBroken
from ..model import qt, loc_str, walk, inner
from ..expr import canon, pretty, children, strip, callee_info
from ..cfg import cfg_of
from .common import CQ, short, is_fixed_test, vars_in, stable_between, for_loop_info, loop_has_early_exit
from .c03 import write_target

EXPLANATION = (
    "Static frame check on the clang-resolved AST of coloquinte.cpp. W5: the use classification (read/write/escape) of every "
    "Circuit member occurrence in expandCellsToDensity and expandCellsByFactor (callees included) shows cellWidth_ as the only "
    "member written. G15: each element write cellWidth_[i] is edge-dominated by a fixedness test on the same, unmodified index "
    "with the movable polarity. G16: computeCellExpansion is a const member that writes no member; inside its full-range cell loop "
    "every path pushes exactly one factor, the literal 1 under isFixed(i), otherwise a variable initialised to 1 and only ever "
    "replaced by max(itself, e): so the factor is >= 1, equals 1 when nothing intersects, and is the largest intersecting factor "
    "provided the region scan is complete (the scan's completeness is recorded, not decided, when it is not a plain range-for).")

DECLINED = ["all density / rounding arithmetic (utilisation caps; of the rounding carry only its existence across iterations is decided, rule CY)",
            "completeness of a region scan that is not a plain loop over the whole map (e.g. a binary search)"]


def run(ctx, rep, tier):
    prog, eff = ctx.prog, ctx.eff
    rep.rule("W5", "expansion functions write no Circuit member other than cellWidth_", 2)
    rep.rule("G15", "cellWidth_ writes edge-dominated by the movable test on the same index", 2)
    rep.rule("SK", "binary searches over the congestion regions use the key the regions are sorted by", 1)
    rep.rule("NN", "no movable cell is made narrower: stored width >= old width, proved from the dominating guards", 2)
    rep.rule("CY", "expandCellsToDensity: the area lost by rounding a width is carried from cell to cell", 1)
    rep.rule("PV", "the available area is computed on the obstruction-free rows (computeRows), not on the raw rows", 1)
    rep.rule("RM", "the scanned region list is only grown or permuted, never pruned", 1)
    rep.rule("DS", "derived state on the expansion path is invalidated by every writer of its inputs", 1)
    rep.rule("G16", "computeCellExpansion: const, one factor per cell, 1 for fixed cells, running max from 1 otherwise", 3)
    trans = eff.transitive()
    for q in ("Circuit::expandCellsToDensity", "Circuit::expandCellsByFactor"):
        f = prog.func1(CQ + q)
        tw = {w for w in trans[f.key]["writes"] if w.startswith(CQ + "Circuit::")}
        import json as _json, os as _os
        from ..frontend import VERIF as _V
        schema = _json.load(open(_os.path.join(_V, "rules", "c03.json")))
        observable = {CQ + "Circuit::" + m for m in schema["protected_members"] + ["cellX_", "cellY_", "cellOrientation_"]}
        extra = (tw - {CQ + "Circuit::cellWidth_"}) & observable
        if extra:
            for w in sorted(extra):
                rep.violation("W5", f.decl, f, "%s may write %s" % (f.short, short(w)), "expansion changes only the widths of movable cells",
                              key="%s|writes %s" % (f.short, short(w)))
        else:
            rep.holds("W5", f.decl, f, "%s writes only %s" % (f.short, sorted(short(w) for w in tw)))
        s = eff.summary(f)
        ws = s["writes"].get(CQ + "Circuit::cellWidth_", []) + s["escapes"].get(CQ + "Circuit::cellWidth_", [])
        if not ws:
            rep.unknown("G15", f.decl, f, "width write", "no write to cellWidth_ found (shape changed)")
        for x, u in ws:
            tgt = write_target(x)
            if tgt is None:
                rep.violation("G15", u.node, f, "whole-container write to cellWidth_ (%s)" % u.why, "cannot be restricted to movable cells",
                              key="%s|whole-container width write" % f.short)
                continue
            c = canon(tgt)
            idx = c[2]
            g = cfg_of(f)
            site = g.node_for(u.node)
            ok = False
            for ast, val, en in g.dom_edges(site):
                t = is_fixed_test(canon(ast))
                if t and t[1] == idx and val is False:
                    st, w = stable_between(ctx, f, vars_in(idx), en, site)
                    ok = st
            if ok:
                rep.holds("G15", u.node, f, "cellWidth_[%s] written only for movable cells" % pretty(idx))
            else:
                rep.violation("G15", u.node, f, "cellWidth_[%s] written without a dominating movable test on that index" % pretty(idx),
                              "a fixed cell's width could change", key="%s|unguarded width write" % f.short)
    # ---- NN ----
    for q in ("Circuit::expandCellsToDensity", "Circuit::expandCellsByFactor"):
        check_non_narrowing(ctx, rep, prog.func1(CQ + q))
    # ---- CY ----
    check_rounding_carry(ctx, rep, prog.func1(CQ + "Circuit::expandCellsToDensity"))
    # ---- DS ----
    from .common import check_derived_state
    scope = set()
    for q in ("Circuit::expandCellsToDensity", "Circuit::expandCellsByFactor", "Circuit::computeCellExpansion"):
        f0 = prog.func1(CQ + q)
        for k in trans[f0.key]["calls"] | {f0.key}:
            g0 = prog.funcs.get(k)
            if g0 is not None and g0.kind == "CXXMethodDecl" and g0.is_const:
                scope.add(g0.short)
    before = len(rep.instances) if hasattr(rep, "instances") else None
    nds = check_derived_state(ctx, rep, "DS", prog, scope=scope)
    if nds == 0:
        rep.unknown("DS", None, None, "const functions on the expansion path", "none found (shape changed)")
    elif not any(i.get("rule") == "DS" for i in getattr(rep, "instances", [])):
        rep.holds("DS", "-", None, "%d const functions reachable from the expansion entry points keep no derived state" % nds)
    # ---- PV (shared with C15) ----
    from .c15 import check_pv
    check_pv(ctx, rep, "PV", only=("Circuit::computeRowPlacementArea",))
    # ---- MA: one margin convention for every caller of computeRowPlacementArea ----
    check_margin_convention(ctx, rep)
    # ---- RM ----
    check_region_list(ctx, rep, prog.func1(CQ + "Circuit::computeCellExpansion"))
    # ---- SK ----
    from .common import check_sort_keys
    n = check_sort_keys(ctx, rep, "SK", [prog.func1(CQ + "Circuit::computeCellExpansion")])
    if n == 0:
        rep.holds("SK", "-", None, "computeCellExpansion performs no binary search (plain scan of the sorted region map)")
    # ---- G16 ----
    f = prog.func1(CQ + "Circuit::computeCellExpansion")
    tw = {w for w in trans[f.key]["writes"] if w.startswith(CQ + "Circuit::")}
    if f.is_const and not tw:
        rep.holds("G16", f.decl, f, "computeCellExpansion is const and writes no member")
    else:
        rep.violation("G16", f.decl, f, "computeCellExpansion modifies the circuit", "const: %s, writes: %s" % (f.is_const, sorted(tw)),
                      key="Circuit::computeCellExpansion|not pure")
    loops = [for_loop_info(x) for x in walk(f.body) if x.get("kind") == "ForStmt"]
    loops = [l for l in loops if l and l["hi"] == ("call", CQ + "Circuit::nbCells", ("this",))]
    if not loops:
        rep.unknown("G16", f.decl, f, "cell loop", "loop over 0..nbCells() not found")
        return
    l = loops[0]
    g = cfg_of(f)
    pushes = [x for x in walk(l["body"]) if x.get("kind") == "CXXMemberCallExpr" and callee_info(x)["name"] in ("push_back", "emplace_back")
              and canon(callee_info(x)["obj"])[0] == "var" and canon(callee_info(x)["obj"])[2] == "expansions"]
    if not pushes:
        # name-free fallback: pushes into the vector the function returns
        rets = [canon(children(y)[0]) for y in walk(f.body) if y.get("kind") == "ReturnStmt" and children(y)]
        rv = rets[-1] if rets else None
        pushes = [x for x in walk(l["body"]) if x.get("kind") == "CXXMemberCallExpr" and callee_info(x)["name"] in ("push_back", "emplace_back")
                  and rv is not None and canon(callee_info(x)["obj"]) == rv]
    if not pushes:
        rep.unknown("G16", l["stmt"], f, "expansion factors", "no push into the returned vector inside the cell loop (shape changed)")
        return
    incn = g.node_for(l["inc"])
    # exactly one push on every path: each path body-entry -> increment crosses exactly one push:
    # (a) the increment is not reachable from the loop head when all pushes are removed, (b) no push reaches another push without passing the increment
    pn = [g.node_for(p) for p in pushes]
    full = l["lo"] == ("lit", "0") and l["step"] == 1 and loop_has_early_exit(l["body"]) is None
    head = [n for n in g.nodes if n.kind == "join" and n.ast is l["stmt"]]
    one = False
    if head and pn and incn is not None:
        reach_wo = g.reachable_from([head[0]], avoid=pn)
        a = incn.idx not in reach_wo
        b = all(not any(q is not p and q.idx in g.reachable_from([p], avoid=[incn]) for q in pn) for p in pn)
        one = a and b
    if full and one:
        rep.holds("G16", l["stmt"], f, "every cell gets exactly one expansion factor (full-range loop, one push per path)")
    else:
        rep.violation("G16", l["stmt"], f, "not exactly one factor per cell", "full range: %s, one push per path: %s" % (full, one),
                      key="Circuit::computeCellExpansion|factor count")
    for x in pushes:
        guards = ctx.guards(f, x) or []
        fx = [val for gc, val, _a, _b in guards if is_fixed_test(gc, idx=l["var"])]
        arg = canon(callee_info(x)["args"][0])
        if fx and fx[0] is True:
            if arg[0] == "lit" and str(arg[1]).rstrip("fF") in ("1", "1.0", "1."):
                rep.holds("G16", x, f, "fixed cells get the literal factor %s" % arg[1])
            else:
                rep.violation("G16", x, f, "fixed cells get factor %s" % pretty(arg), "must be the literal 1", key="Circuit::computeCellExpansion|fixed factor")
        elif fx and fx[0] is False:
            if arg[0] != "var":
                rep.unknown("G16", x, f, "movable factor %s" % pretty(arg), "not a local accumulator")
                continue
            d = f.unit.by_id.get(arg[1])
            init = canon(children(d)[-1]) if d is not None and children(d) else None
            from .common import assignments_to
            asg = assignments_to(f, arg[1])
            okinit = init is not None and init[0] == "lit" and str(init[1]).rstrip("fF") in ("1", "1.0", "1.")
            okmax = all(canon(r)[0] == "call" and canon(r)[1] == "max" and arg in canon(r)[3:] for _x, r in asg)
            if okinit and okmax:
                rep.holds("G16", x, f, "movable cells get max(1, intersecting factors) (%d update site(s))" % len(asg))
            else:
                rep.violation("G16", x, f, "movable factor is not a running maximum started at 1",
                              "initial value %s; updates %s" % (pretty(init) if init else "?", [pretty(canon(r)) for _x, r in asg]),
                              key="Circuit::computeCellExpansion|movable factor")
        else:
            rep.violation("G16", x, f, "factor pushed without a fixedness test", "", key="Circuit::computeCellExpansion|push outside fixedness test")


PERMUTE_OR_READ = {"sort", "stable_sort", "reverse", "shuffle", "lower_bound", "upper_bound", "partition_point", "binary_search",
                   "equal_range", "find", "find_if", "for_each", "max_element", "min_element", "accumulate", "count_if", "any_of",
                   "all_of", "none_of", "is_sorted"}
PRUNING = {"unique", "remove", "remove_if", "erase", "erase_if", "partition", "stable_partition", "copy_if", "fill", "transform", "swap_ranges"}
GROW = {"push_back", "emplace_back", "reserve", "begin", "end", "cbegin", "cend", "size", "empty", "operator[]", "at", "front", "back",
        "data", "insert", "shrink_to_fit", "capacity"}
SHRINK = {"erase", "pop_back", "resize", "clear", "assign", "swap", "operator="}


def check_region_list(ctx, rep, f):
    """RM: find the local container scanned for intersecting regions (the range of a loop / search inside the cell loop whose
    elements are tested with Rectangle::intersects) and classify every use of that container."""
    from ..model import desugared
    conts = {}
    for x in walk(f.body):
        if x.get("kind") == "CXXMemberCallExpr":
            ci = callee_info(x)
            if ci and ci["name"] == "intersects":
                # climb to the enclosing range-for and take its range
                p = x.get("_p")
                while p is not None and p is not f.body:
                    if p.get("kind") == "CXXForRangeStmt":
                        ch = [c for c in inner(p) if isinstance(c, dict)]
                        rng = ch[1] if len(ch) > 1 else None
                        vd = [d for d in inner(rng) if d.get("kind") == "VarDecl"] if rng and rng.get("kind") == "DeclStmt" else []
                        if vd and children(vd[0]):
                            c = canon(children(vd[0])[-1])
                            if c[0] == "var":
                                conts[c[1]] = c
                        break
                    if p.get("kind") == "ForStmt":
                        info = for_loop_info(p)
                        if info and info["hi"] and info["hi"][0] == "call" and info["hi"][1] == "size" and info["hi"][2][0] == "var":
                            conts[info["hi"][2][1]] = info["hi"][2]
                        break
                    p = p.get("_p")
    # the scan must visit every region: an early exit needs an ordering argument that a sort by (minX, minY) does not give
    for x in walk(f.body):
        if x.get("kind") == "CXXMemberCallExpr" and callee_info(x) and callee_info(x)["name"] == "intersects":
            p = x.get("_p")
            while p is not None and p is not f.body and p.get("kind") not in ("CXXForRangeStmt", "ForStmt"):
                p = p.get("_p")
            if p is not None and p is not f.body:
                body = [c_ for c_ in inner(p) if isinstance(c_, dict) and c_.get("kind")][-1]
                ee = loop_has_early_exit(body)
                if ee is not None:
                    rep.violation("RM", ee, f, "the per-cell scan of the congested regions stops early",
                                  "the regions are ordered by (minX, minY): the ones a cell intersects are not contiguous in that order, so a region with "
                                  "a larger factor can come after the point where the scan stops", key="%s|region scan stops early" % f.short)
                break
    if not conts:
        # a binary-search based scan: the container handed to the search
        for x in walk(f.body):
            if x.get("kind") == "CallExpr":
                ci = callee_info(x)
                if ci and ci["name"] in ("lower_bound", "upper_bound", "partition_point", "equal_range") and ci["args"]:
                    a = canon(ci["args"][0])
                    if a[0] == "call" and a[1] in ("begin", "cbegin") and a[2][0] == "var":
                        conts[a[2][1]] = a[2]
    # a binary search that bounds the scan skips regions: the skipped ones must be disjoint from the cell for *every* cell and region
    for x in walk(f.body):
        if x.get("kind") != "CallExpr":
            continue
        ci = callee_info(x)
        if not ci or ci["name"] not in ("lower_bound", "upper_bound") or len(ci["args"]) < 4:
            continue
        a0 = canon(ci["args"][0])
        if not (a0[0] == "call" and a0[1] in ("begin", "cbegin") and a0[2][0] == "var" and (not conts or a0[2][1] in conts)):
            continue
        conts.setdefault(a0[2][1], a0[2])
        V = _expand(ctx, f, canon(ci["args"][2]))
        lam = strip(ci["args"][3], casts=True)
        while lam.get("kind") in ("CXXConstructExpr", "MaterializeTemporaryExpr", "CXXBindTemporaryExpr") and children(lam):
            lam = strip(children(lam)[0], casts=True)
        lf = lam.get("_lam") if lam.get("kind") == "LambdaExpr" else None
        rets = [r for r in walk(lf.body) if r.get("kind") == "ReturnStmt" and children(r)] if lf is not None and lf.body is not None else []
        what = "%s bounds the scan of the congested regions (value %s)" % (ci["name"], pretty(V)[:40])

        def bound_of(c):
            """('min'|'max', axis) if c is a Rectangle bound member."""
            if c[0] == "field" and c[1].split("::")[-1] in ("minX", "maxX", "minY", "maxY"):
                n_ = c[1].split("::")[-1]
                return n_[:3], n_[3]
            return None
        if lf is None or len(rets) != 1 or len(lf.params) != 2:
            rep.unknown("RM", x, f, what, "comparator is not a two-parameter lambda with a single return")
            continue
        rc = canon(children(rets[0])[0])
        pids = [p_.get("id") for p_ in lf.params]
        if not (rc[0] == "bin" and rc[1] in ("<", "<=")):
            rep.unknown("RM", x, f, what, "comparator is not a `<` comparison")
            continue
        sides = [rc[2], rc[3]]
        keyside = [t for t in sides if bound_of(t) is not None]
        vb = bound_of(V)
        if len(keyside) != 1 or vb is None:
            rep.unknown("RM", x, f, what, "search value / key are not rectangle bounds")
            continue
        kb = bound_of(keyside[0])
        # upper_bound(value, comp(value, elem)) keeps [begin, it) and skips the elements with value < key;
        # lower_bound(value, comp(elem, value)) skips the prefix of elements with key < value
        if ci["name"] == "upper_bound":
            sound = kb[0] == "min" and vb[0] == "max" and kb[1] == vb[1]
            skipped = "regions whose %s%s lies beyond the cell's %s%s" % (kb[0], kb[1], vb[0], vb[1])
        else:
            sound = kb[0] == "max" and vb[0] == "min" and kb[1] == vb[1]
            skipped = "regions whose %s%s lies before the cell's %s%s" % (kb[0], kb[1], vb[0], vb[1])
        if sound:
            rep.holds("RM", x, f, what, "skips only %s: they cannot intersect the cell" % skipped)
        else:
            rep.violation("RM", x, f, what, "skips %s, which can still intersect the cell (a region that starts inside the cell's span): the cell "
                          "does not get the largest factor among the regions it intersects" % skipped, key="%s|region scan bounded by an unsound search" % f.short)
    if not conts:
        rep.unknown("RM", f.decl, f, "region scan", "no loop or search over a local region list that tests Rectangle::intersects was found")
        return
    for vid, c in conts.items():
        d = f.unit.by_id.get(vid)
        if d is None or d.get("kind") == "ParmVarDecl":
            rep.holds("RM", f.decl, f, "the scan runs over the parameter %s itself" % c[2], "nothing to prune")
            continue
        bad, unk, n = [], [], 0
        for r in ctx.eff.var_refs(f, vid):
            n += 1
            p = r.get("_p")
            while p is not None and p.get("kind") in ("ImplicitCastExpr", "ParenExpr", "MaterializeTemporaryExpr"):
                p = p.get("_p")
            if p is None:
                continue
            k = p.get("kind")
            if k == "MemberExpr":
                call = p.get("_p")
                name = p.get("name")
                if name in SHRINK:
                    bad.append((call or p, name))
                elif name in ("begin", "end", "cbegin", "cend"):
                    # which algorithm receives the iterator?
                    q = call
                    while q is not None and q.get("kind") not in ("CallExpr", "CXXMemberCallExpr", "CXXConstructExpr", "DeclStmt", "CompoundStmt") or q is call:
                        q = q.get("_p") if q is not None else None
                        if q is None:
                            break
                    if q is not None and q.get("kind") in ("CallExpr", "CXXMemberCallExpr"):
                        ci = callee_info(q)
                        nm = ci["name"] if ci else None
                        if nm in PRUNING or nm in SHRINK:
                            bad.append((q, nm))
                        elif nm not in PERMUTE_OR_READ and nm not in GROW:
                            unk.append((q, nm))
                elif name not in GROW:
                    unk.append((call or p, name))
            elif k == "CXXOperatorCallExpr":
                ci = callee_info(p)
                if ci and ci["name"] == "operator=" and strip(children(p)[1]) is strip(r):
                    bad.append((p, "operator="))
        for x, nm in bad:
            rep.violation("RM", x, f, "the region list %s is pruned with %s before the per-cell scan" % (c[2], nm),
                          "a region a cell intersects can be dropped, so the cell does not get the largest factor", key="%s|region list pruned (%s)" % (f.short, nm))
        for x, nm in unk:
            rep.unknown("RM", x, f, "use of the region list %s through %s" % (c[2], nm), "not a known growing, permuting or reading operation")
        if not bad and not unk:
            rep.holds("RM", d, f, "%d uses of the region list %s only grow, permute or read it" % (n, c[2]))


# ---- NN: non-narrowing -----------------------------------------------------------------------

PROVED, REFUTED, UNDECIDED = "proved", "refuted", "undecided"


def _expand(ctx, f, c, depth=0):
    """expand_locals, except that a local whose elements are assigned somewhere (directly or through a by-reference loop
    variable) is not a single-definition value and stays an atom."""
    from .common import var_write_nodes
    if depth > 12 or not isinstance(c, tuple):
        return c
    if c and c[0] == "var":
        d = f.unit.by_id.get(c[1])
        if d is not None and d.get("kind") == "VarDecl" and d.get("_rangevar") is None:
            init = children(d)
            if init and not var_write_nodes(ctx, f, [c[1]]) and \
                    not _assign_nodes(f, lambda lc: lc[0] in ("elem", "index") and lc[1] == c):
                return _expand(ctx, f, canon(init[-1]), depth + 1)
        return c
    return tuple(_expand(ctx, f, x, depth + 1) if isinstance(x, tuple) else x for x in c)


def _facts_at(ctx, f, node, hyp=None):
    from ..order import Facts
    expand_locals = _expand
    F = Facts()
    g = cfg_of(f)
    site = g.node_for(node)
    if site is None:
        return F
    for ast, val, en in g.dom_edges(site):
        if not isinstance(val, bool):
            continue
        c = canon(ast)
        st, _w = stable_between(ctx, f, vars_in(c), en, site)
        if not st:
            continue
        F.add_cond(expand_locals(ctx, f, c), val)
    for k, v in (hyp or {}).items():
        F.hyp_lb[k] = v
    return F


def _assign_nodes(f, pred):
    """(node, lhs canon, op, rhs canon or None) for every assignment-like node in f whose LHS satisfies pred."""
    out = []
    for x in walk(f.body):
        k = x.get("kind")
        if k in ("BinaryOperator", "CompoundAssignOperator") and x.get("opcode") in ("=", "+=", "-=", "*=", "/="):
            l, r = children(x)
            lc = canon(l)
            if pred(lc):
                out.append((x, lc, x.get("opcode"), canon(r)))
        elif k == "UnaryOperator" and x.get("opcode") in ("++", "--"):
            lc = canon(children(x)[0])
            if pred(lc):
                out.append((x, lc, x.get("opcode"), None))
    return out


def _loop_invariant(ctx, f, c, site_node):
    """All local variables in c are declared outside every loop that encloses site_node."""
    loops = []
    p = site_node.get("_p")
    while p is not None and p is not f.body:
        if p.get("kind") in ("ForStmt", "CXXForRangeStmt", "WhileStmt", "DoStmt"):
            loops.append(p)
        p = p.get("_p")
    if not loops:
        return False
    outer = loops[-1]
    inside = {id(x) for x in walk(outer)}
    for vid in vars_in(c):
        d = f.unit.by_id.get(vid)
        if d is None or id(d) in inside:
            return False
    return True


def _prove_lb(ctx, f, term, bound, site, hyp, depth=0, trail=()):
    """Decide term >= bound at AST node `site`. Returns (verdict, explanation)."""
    from ..order import Prover, leaves
    expand_locals = _expand
    if depth > 6:
        return UNDECIDED, "definition chain too deep"
    F = _facts_at(ctx, f, site, hyp)
    P = Prover(F)
    t = expand_locals(ctx, f, term)
    b = expand_locals(ctx, f, bound)
    if P.prove_ge(t, b):
        return PROVED, "%s >= %s from %d dominating fact(s)" % (pretty(t)[:60], pretty(b)[:30], len(F.facts))
    # a leaf with several definitions: every definition must satisfy the bound
    multi = None
    for a in leaves(t):
        if a[0] == "var":
            d = f.unit.by_id.get(a[1])
            if d is not None and d.get("kind") == "VarDecl" and a not in trail and \
                    _assign_nodes(f, lambda lc, a=a: lc == a or (lc[0] in ("elem", "index") and lc[1] == a)):
                multi = a
                break
        if a[0] in ("elem", "index") and a[1][0] == "var" and a not in trail:
            d = f.unit.by_id.get(a[1][1])
            if d is not None and d.get("kind") == "VarDecl":
                multi = a
                break
    if multi is not None and t == multi:
        return _prove_defs(ctx, f, multi, b, hyp, depth, trail + (multi,))
    if multi is not None:
        # the term mentions a local with several definitions (or an element of a local vector): establish the best literal
        # lower bound all its definitions keep (1, else 0) and retry with it as a hypothesis
        for lb in (("lit", "1"), ("lit", "0")):
            v, why = _prove_defs(ctx, f, multi, lb, hyp, depth + 1, trail + (multi,))
            if v == PROVED:
                h2 = dict(hyp)
                h2[multi] = _as_fraction(lb)
                F2 = _facts_at(ctx, f, site, h2)
                if Prover(F2).prove_ge(t, b):
                    return PROVED, "%s >= %s given %s >= %s (%s)" % (pretty(t)[:60], pretty(b)[:30], pretty(multi), lb[1], why[:160])
                P = Prover(F2)
                break
            if v == REFUTED and lb == ("lit", "1"):
                continue
    cm = P.countermodel(t, b)
    if cm is not None and not any(a[0] == "call" and "::" in str(a[1]) and False for a in leaves(t)):
        env, va, vb = cm
        return REFUTED, "not implied by the dominating guards: e.g. %s gives %.4g < %.4g" % (
            ", ".join("%s=%s" % kv for kv in sorted(env.items())[:6]), va, vb)
    return UNDECIDED, "neither provable nor refutable here: %s >= %s" % (pretty(t)[:80], pretty(b)[:30])


def _prove_defs(ctx, f, atom, bound, hyp, depth, trail):
    """Every definition of the local `atom` (a scalar variable, or the elements of a local container) keeps it >= bound."""
    results = []
    if atom[0] == "var":
        d = f.unit.by_id.get(atom[1])
        init = children(d)
        if not init:
            return UNDECIDED, "%s has no initialiser" % atom[2]
        results.append(_prove_lb(ctx, f, canon(init[-1]), bound, d, hyp, depth + 1, trail))
        defs = _assign_nodes(f, lambda lc: lc == atom)
        same = atom
    else:
        cont = atom[1]
        d = f.unit.by_id.get(cont[1])
        init = children(d)
        ic = canon(init[-1]) if init else None
        pd = f.unit.by_id.get(ic[1]) if ic is not None and ic[0] == "var" else None
        if pd is not None and pd.get("kind") == "ParmVarDecl" and ("param-elems", ic[1]) in hyp:
            lb = hyp[("param-elems", ic[1])]
            from ..order import lit_value
            bv = lit_value(bound)
            if bv is not None and lb >= bv:
                results.append((PROVED, "initial elements are those of parameter %s (>= %s by the property's domain)" % (ic[2], lb)))
            else:
                results.append((UNDECIDED, "initial elements come from parameter %s" % ic[2]))
        else:
            results.append((UNDECIDED, "initial elements of %s are not those of a parameter with a stated domain" % cont[2]))
        defs = _assign_nodes(f, lambda lc: lc[0] in ("elem", "index") and lc[1] == cont)
        # `std::transform(v.begin(), v.end(), v.begin(), [..](T e) { return g(e); })` rewrites every element in place: e = g(e)
        inplace = []
        for x in walk(f.body):
            if x.get("kind") != "CallExpr":
                continue
            ci = callee_info(x)
            if not ci or ci["name"] != "transform" or len(ci["args"]) != 4:
                continue
            beg = ("call", "begin", cont)
            if canon(ci["args"][0]) != beg or canon(ci["args"][2]) != beg or canon(ci["args"][1]) != ("call", "end", cont):
                continue
            lam = strip(ci["args"][3], casts=True)
            while lam.get("kind") in ("CXXConstructExpr", "MaterializeTemporaryExpr", "CXXBindTemporaryExpr") and children(lam):
                lam = strip(children(lam)[0], casts=True)
            lf = lam.get("_lam") if lam.get("kind") == "LambdaExpr" else None
            rets = [r for r in walk(lf.body) if r.get("kind") == "ReturnStmt" and children(r)] if lf is not None and lf.body is not None else []
            if lf is None or len(lf.params) != 1 or len(rets) != 1:
                continue
            pv = ("var", lf.params[0].get("id"), lf.params[0].get("name"))
            el = ("elem", cont)

            def sub(c):
                if c == pv:
                    return el
                if isinstance(c, tuple):
                    return tuple(sub(y) if isinstance(y, tuple) else y for y in c)
                return c
            defs.append((x, el, "=", sub(canon(children(rets[0])[0]))))
            inplace.append(x)
        # whole-container writes / escapes other than by-reference iteration are not understood
        for r in ctx.eff.var_refs(f, cont[1]):
            for u in ctx.eff.uses(r, ctx.eff.func_of_node(r) or f):
                if u.kind != "read" and not any(x is u.node or any(y is u.node for y in walk(x)) for x, _l, _o, _r in defs) and \
                        not any(any(y is r for y in walk(t_)) for t_ in inplace):
                    p = u.node
                    if p.get("kind") in ("VarDecl", "CXXForRangeStmt", "DeclStmt"):
                        continue
                    results.append((UNDECIDED, "%s is modified through %s at %s" % (cont[2], u.why, loc_str(u.node))))
        same = None
    for x, lc, op, rc in defs:
        h2 = dict(hyp)
        cur = lc
        h2[cur] = _as_fraction(bound)
        if op == "=":
            # min-clamp by a loop-invariant bound: `if (v > C) v = C;`  -> the property's width cap
            g = cfg_of(f)
            site = g.node_for(x)
            clamp = False
            for ast, val, _en in g.dom_edges(site):
                c = canon(ast)
                if c[0] == "bin" and val is True and ((c[1] in (">", ">=") and c[2] == lc and c[3] == rc) or (c[1] in ("<", "<=") and c[3] == lc and c[2] == rc)):
                    clamp = True
            cap = rc
            if rc[0] == "call" and rc[1] == "min" and len(rc) == 5 and lc in rc[3:]:
                # `v = std::min(v, C)`: the same cap written with the standard algorithm
                cap = rc[4] if rc[3] == lc else rc[3]
                clamp = True
            if clamp and _loop_invariant(ctx, f, cap, x):
                results.append((PROVED, "%s = %s is a loop-invariant min-clamp: the width cap the property exempts" % (pretty(lc), pretty(rc))))
                continue
            if False:
                results.append((PROVED, "%s = %s is a loop-invariant min-clamp: the width cap the property exempts" % (pretty(lc), pretty(rc))))
                continue
            results.append(_prove_lb(ctx, f, rc, bound, x, h2 if h2[cur] is not None else hyp, depth + 1, trail))
        elif op in ("++",):
            results.append((PROVED, "%s++ only increases it" % pretty(lc)))
        elif op == "+=":
            results.append(_relabel(_prove_lb(ctx, f, rc, ("lit", "0"), x, hyp, depth + 1, trail), "increment"))
        elif op == "*=":
            results.append(_relabel(_prove_lb(ctx, f, rc, ("lit", "1"), x, hyp, depth + 1, trail), "multiplier"))
        else:
            results.append((UNDECIDED, "%s %s ... can decrease it" % (pretty(lc), op)))
    if any(v == REFUTED for v, _e in results):
        return REFUTED, "; ".join(e for v, e in results if v == REFUTED)
    if all(v == PROVED for v, _e in results):
        return PROVED, "all %d definition(s) of %s keep the bound: %s" % (len(results), pretty(atom), "; ".join(e for _v, e in results)[:300])
    return UNDECIDED, "; ".join(e for v, e in results if v == UNDECIDED)


def _relabel(res, label):
    return res[0], "%s: %s" % (label, res[1])


def _as_fraction(c):
    from ..order import lit_value
    return lit_value(c)


LOOPS = ("ForStmt", "CXXForRangeStmt", "WhileStmt", "DoStmt")


def _var_ids(node):
    out = set()
    for y in walk(node):
        if y.get("kind") == "DeclRefExpr":
            d = y.get("referencedDecl") or {}
            if d.get("kind") in ("VarDecl", "ParmVarDecl"):
                out.add(d.get("id"))
    return out


def check_rounding_carry(ctx, rep, f):
    """"Within one cell height of target x available area": each width is a real number rounded to an integer, so the loss of a cell
    (less than one column of its height) has to be handed on to the next cells; with per-cell rounding the losses add up to the sum of the
    heights. Structural necessary condition: the stored width depends (by data or control) on a local that lives across the iterations of
    the cell loop, is updated inside it, and is not reset at the top of every iteration."""
    width = CQ + "Circuit::cellWidth_"
    writes = _assign_nodes(f, lambda lc: lc[0] == "index" and lc[1][0] == "field" and lc[1][1] == width)
    if not writes:
        rep.unknown("CY", f.decl, f, "width write", "no element assignment to cellWidth_ found (shape changed)")
        return
    all_loops = [x for x in walk(f.body) if x.get("kind") in LOOPS]
    for x, lc, op, rc in writes:
        outer = [l for l in all_loops if any(y is x for y in walk(l))]
        if not outer:
            rep.unknown("CY", x, f, "width write outside any loop", "shape changed")
            continue
        L = outer[0]
        inside = {id(y) for y in walk(L)}
        parent = {}
        for y in walk(L):
            for c in children(y):
                parent[id(c)] = y
        decl_inside = {y.get("id") for y in walk(L) if y.get("kind") == "VarDecl"}
        # definitions of locals inside the loop: (var id, defining AST, node)
        defs = {}
        for y in walk(L):
            k = y.get("kind")
            if k == "VarDecl" and children(y):
                defs.setdefault(y.get("id"), []).append((y, children(y)[-1], False))
            elif k in ("BinaryOperator", "CompoundAssignOperator") and (y.get("opcode") == "=" or k == "CompoundAssignOperator"):
                l, r = children(y)
                c = canon(l, refs=False)
                if c[0] == "var":
                    defs.setdefault(c[1], []).append((y, r, k == "CompoundAssignOperator"))
            elif k == "UnaryOperator" and y.get("opcode") in ("++", "--"):
                c = canon(children(y)[0], refs=False)
                if c[0] == "var":
                    defs.setdefault(c[1], []).append((y, y, True))
        rhs_node = children(x)[-1]
        closure, work, exprs = set(), list(_var_ids(rhs_node)), [rhs_node]
        while work:
            v = work.pop()
            if v in closure:
                continue
            closure.add(v)
            for y, r, _c in defs.get(v, []):
                exprs.append(r)
                new = set(_var_ids(r))
                a = parent.get(id(y))
                while a is not None and a is not L:
                    if a.get("kind") in ("IfStmt", "WhileStmt", "ForStmt", "DoStmt", "ConditionalOperator"):
                        cs = children(a)
                        cond = cs[0] if a.get("kind") in ("IfStmt", "WhileStmt", "ConditionalOperator") else (cs[-1] if a.get("kind") == "DoStmt" else (cs[2] if len(cs) > 2 else None))
                        if cond is not None:
                            new |= _var_ids(cond)
                            exprs.append(cond)
                    a = parent.get(id(a))
                work.extend(new - closure)
        rounding = [y for e in exprs for y in walk(e) if y.get("castKind") == "FloatingToIntegral" or
                    (y.get("kind") == "CallExpr" and callee_info(y)["name"] in ("round", "lround", "llround", "floor", "ceil", "trunc", "lrint", "nearbyint", "rint"))]
        if not rounding:
            rep.unknown("CY", x, f, "stored width %s" % pretty(rc)[:40], "no conversion from floating point on its definition chain: the rounding step was not recognised")
            continue
        g = cfg_of(f)
        carried, resets = [], []
        for v in sorted(closure):
            if v in decl_inside:
                continue
            d = f.unit.by_id.get(v)
            if d is None or d.get("kind") != "VarDecl":
                continue
            ds = defs.get(v, [])
            if not ds:
                continue
            plain = [y for y, r, comp in ds if not comp and v not in _var_ids(r)]
            reads = [y for y in walk(L) if y.get("kind") == "DeclRefExpr" and (y.get("referencedDecl") or {}).get("id") == v
                     and not any(parent.get(id(y)) is a and children(a)[0] is y for a, _r, comp in ds if not comp)]
            reset = False
            for a in plain:
                an = g.node_for(a)
                rn = [g.node_for(r) for r in reads]
                if an is not None and rn and all(q is None or q is an or g.dominates(an, q) for q in rn):
                    reset = True
            (resets if reset else carried).append(d.get("name"))
        # the carry is brought back below one column *after* the current cell's loss has been added: an addition that can reach the end
        # of the iteration without passing the handing-out loop leaves up to two columns pending, and the last cells' share is lost
        late = []
        for v in sorted(closure):
            d = f.unit.by_id.get(v)
            if v in decl_inside or d is None or d.get("name") not in carried:
                continue
            whiles = [y for y in walk(L) if y.get("kind") == "WhileStmt" and v in _var_ids(children(y)[0]) and
                      any(z.get("kind") == "CompoundAssignOperator" and z.get("opcode") == "-=" and canon(children(z)[0], refs=False)[:2] == ("var", v) for z in walk(children(y)[-1]))]
            if not whiles:
                continue
            wn = [g.node_for(children(y)[0]) for y in whiles]
            wn = [n_ for n_ in wn if n_ is not None]
            linfo = for_loop_info(L) if L.get("kind") == "ForStmt" else None
            endn = g.node_for(linfo["inc"]) if linfo and linfo.get("inc") is not None else None
            if not wn or endn is None:
                continue
            for y, r, comp in defs.get(v, []):
                if not (comp and y.get("opcode") == "+=") or any(any(z is y for z in walk(w_)) for w_ in whiles):
                    continue
                an = g.node_for(y)
                if an is not None and endn.idx in g.reachable_from([an], avoid=wn):
                    late.append((y, d.get("name")))
        # the carry is an *area*: it is compared with and reduced by the cell's height (one column of it), so what is added to it is that same
        # height times the lost fraction of a column. Another factor (the width) changes the unit of the carry.
        unit = []
        for v in sorted(closure):
            d = f.unit.by_id.get(v)
            if v in decl_inside or d is None or d.get("name") not in carried:
                continue
            thr = set()
            for y in walk(L):
                if y.get("kind") == "WhileStmt" and v in _var_ids(children(y)[0]):
                    c_ = canon(children(y)[0])
                    if c_[0] == "bin" and c_[1] in (">=", ">") and c_[2][:2] == ("var", v):
                        thr.add(c_[3])
            if len(thr) != 1:
                continue
            t_ = list(thr)[0]
            for y, r, comp in defs.get(v, []):
                if not (comp and y.get("opcode") == "+="):
                    continue
                rc_ = canon(r)
                if rc_[0] == "bin" and rc_[1] == "*":
                    facs = [rc_[2], rc_[3]]
                    plain = [t for t in facs if t[0] == "var"]
                    if plain and t_ not in facs and t_[0] == "var":
                        unit.append((y, d.get("name"), pretty(plain[0]), pretty(t_)))
        if unit:
            y, nm, got, want = unit[0]
            rep.violation("CY", y, f, "%s is increased by %s x (lost fraction) but handed out in units of %s" % (nm, got, want),
                          "the carry counts area in columns of height %s (it is compared with and reduced by %s): the lost fraction of a column is worth %s of area, "
                          "not %s - cells wider than high over-credit the carry and the movable area overshoots the target" % (want, want, want, got),
                          key="%s|carry accumulated in another unit than it is handed out" % f.short)
        elif late:
            rep.violation("CY", late[0][0], f, "%s is increased after the loop that hands the pending columns out" % late[0][1],
                          "the iteration can end with more than one column pending (the invariant %s < height no longer holds between cells): what is pending "
                          "after the last cell is lost, up to two cell heights instead of one" % late[0][1], key="%s|carry increased after it is handed out" % f.short)
        elif carried:
            rep.holds("CY", x, f, "the stored width depends on %s, which lives across the iterations of the cell loop and is updated in it" % ", ".join(carried))
        else:
            rep.violation("CY", x, f, "the width is rounded cell by cell: nothing is carried from one cell to the next%s" % (" (%s is reset in every iteration)" % ", ".join(resets) if resets else ""),
                          "each cell loses up to one column of its height to the rounding; without a carry the losses add up to the sum of the cell heights, "
                          "not to one cell height as stated", key="%s|no rounding carry" % f.short)


def check_non_narrowing(ctx, rep, f):
    width = CQ + "Circuit::cellWidth_"
    # a per-cell expansion factor is a real number >= 1: converting it to an integer (explicitly or implicitly) before it is applied
    # turns 1.9 into 1 - the predicted area, and with it the cap on the density, is computed for other factors than the ones applied
    for x in walk(f.body):
        if x.get("kind") in ("CStyleCastExpr", "CXXStaticCastExpr", "CXXFunctionalCastExpr", "ImplicitCastExpr") and x.get("castKind") == "FloatingToIntegral" or \
                (x.get("kind") in ("CStyleCastExpr", "CXXStaticCastExpr", "CXXFunctionalCastExpr") and
                 any(y.get("kind") == "ImplicitCastExpr" and y.get("castKind") == "FloatingToIntegral" for y in children(x))):
            src = x
            while src.get("kind") in ("CStyleCastExpr", "CXXStaticCastExpr", "CXXFunctionalCastExpr", "ImplicitCastExpr", "ParenExpr") and children(src):
                src = children(src)[0]
            sc = canon(src)
            if sc[0] in ("index", "elem") and sc[1][0] == "var":
                d = f.unit.by_id.get(sc[1][1])
                t = qt(d) if d is not None else ""
                if "vector<float" in t or "vector<double" in t:
                    rep.violation("NN", x, f, "expansion factor %s converted to an integer" % pretty(sc)[:40],
                                  "the fractional part of the factor is dropped where the expanded area is predicted, while the widths are multiplied by the "
                                  "real factor: the density cap is checked against another expansion than the one applied",
                                  key="%s|expansion factor truncated" % f.short)
    from .common import extremal_key_mismatches
    for node, k1, k2 in extremal_key_mismatches(f):
        rep.violation("NN", node, f, "%s() of the row that is extremal for %s" % (k2, k1),
                      "this is not the extremal %s: the width cap derived from it can be far below the widest row, and the clamp then makes cells "
                      "narrower although they are under the real cap" % k2, key="%s|cap from the wrong extremal row" % f.short)
    writes = _assign_nodes(f, lambda lc: lc[0] == "index" and lc[1][0] == "field" and lc[1][1] == width)
    if not writes:
        rep.unknown("NN", f.decl, f, "width write", "no element assignment to cellWidth_ found (shape changed)")
        return
    # the property's domain: per-cell factor vectors handed in by the caller are >= 1
    hyp = {}
    for p in f.params:
        t = (p.get("type") or {}).get("qualType", "")
        if "vector<float>" in t or "vector<double>" in t:
            hyp[("param-elems", p.get("id"))] = 1
    for x, lc, op, rc in writes:
        if op == "=":
            v, why = _prove_lb(ctx, f, rc, lc, x, hyp)
            what = "%s = %s keeps the width >= the old width" % (pretty(lc), pretty(rc)[:40])
        elif op == "*=":
            v, why = _prove_lb(ctx, f, rc, ("lit", "1"), x, hyp)
            what = "%s *= %s multiplies the width by a factor >= 1" % (pretty(lc), pretty(rc)[:40])
        elif op in ("+=", "++"):
            v, why = (PROVED, "increment") if op == "++" else _prove_lb(ctx, f, rc, ("lit", "0"), x, hyp)
            what = "%s %s only increases the width" % (pretty(lc), op)
        else:
            v, why = UNDECIDED, "operator %s" % op
            what = "%s %s ..." % (pretty(lc), op)
        if v == PROVED:
            rep.holds("NN", x, f, what, why[:400])
        elif v == REFUTED:
            rep.violation("NN", x, f, "%s: a movable cell can be made narrower" % what.split(" keeps")[0].split(" multiplies")[0], why[:400],
                          key="%s|width can shrink" % f.short)
        else:
            rep.unknown("NN", x, f, what, why[:400])


# ---- MA ---------------------------------------------------------------------------------------------
def check_margin_convention(ctx, rep):
    """The free row area both expansion entry points cap against comes from Circuit::computeRowPlacementArea(margin). The cap
    'placed area <= maxDensity x free area after the side margin' means the same thing in expandCellsToDensity and in
    expandCellsByFactor only if both hand their own rowSideMargin parameter to the helper in the same form: the argument, with
    locals expanded and the caller's parameter abstracted, must be one expression for all callers."""
    from .common import calls_to, expand_locals
    from ..expr import canon, children, pretty
    rep.rule("MA", "every caller of computeRowPlacementArea passes its side-margin parameter in the same form (one unit convention for the margin)", 2)
    forms = []
    for f in ctx.prog.funcs.values():
        if f.body is None or f.cls != CQ + "Circuit":
            continue
        pids = {p.get("id") for p in f.params}
        for c in calls_to(f, "Circuit::computeRowPlacementArea"):
            args = children(c)[1:]
            if not args or args[0].get("kind") == "CXXDefaultArgExpr":
                continue
            form = expand_locals(ctx, f, canon(args[0]))

            def absp(t):
                if isinstance(t, tuple):
                    if t and t[0] == "var" and t[1] in pids:
                        return ("param",)
                    return tuple(absp(x) for x in t)
                return t
            forms.append((absp(form), c, f, pretty(canon(args[0]))))
    if len(forms) < 2:
        rep.unknown("MA", None, None, "callers of computeRowPlacementArea with a margin", "fewer than two found (shape changed)")
        return
    ref = forms[0]
    for form, c, f, txt in forms:
        if form == ref[0]:
            rep.holds("MA", c, f, "%s passes the margin as %s" % (f.short, txt))
        else:
            rep.violation("MA", c, f, "%s passes the margin as %s, %s as %s" % (f.short, txt, ref[2].short, ref[3]),
                          "the helper removes one amount per unit of its argument: the two entry points then cap the density against different free areas, "
                          "one of them not the area left after the side margin", key="%s|margin form differs from %s" % (f.short, ref[2].short))
