"""C18 — cell expansion never touches fixed cells (frame clause) and expansion factors are 1 for fixed cells.

W5   expandCellsToDensity / expandCellsByFactor write no Circuit member other than cellWidth_
G15  each of those writes is edge-dominated by !cellIsFixed_[i] / !isFixed(i) on the same index
SK   a binary search over the region map must use the key the map was sorted by
G16  computeCellExpansion is const (writes nothing); per cell exactly one factor is pushed; on the fixed branch it is the
     literal 1; on the other branch it is a running maximum started at 1
"""
from ..frontend import AnalysisBroken
from ..model import qt, loc_str, walk, inner
from ..expr import canon, pretty, children, strip, callee_info
from ..cfg import cfg_of
from .common import CQ, short, is_fixed_test, vars_in, stable_between, for_loop_info, loop_has_early_exit
from .c03 import write_target

EXPLANATION = (
    "Static frame check on the clang-resolved AST of coloquinte.cpp. W5: the use classification (read/write/escape) of every "
    "Circuit member occurrence in expandCellsToDensity and expandCellsByFactor (callees included) shows cellWidth_ as the only "
    "member written. G15: each element write cellWidth_[i] is edge-dominated by a fixedness test on the same, unmodified index "
    "with the movable polarity. G16: computeCellExpansion is a const member that writes no member; inside its full-range cell loop "
    "every path pushes exactly one factor, the literal 1 under isFixed(i), otherwise a variable initialised to 1 and only ever "
    "replaced by max(itself, e): so the factor is >= 1, equals 1 when nothing intersects, and is the largest intersecting factor "
    "provided the region scan is complete (the scan's completeness is recorded, not decided, when it is not a plain range-for).")

DECLINED = ["all density / rounding arithmetic (utilisation caps, carry of rounding error)",
            "completeness of a region scan that is not a plain loop over the whole map (e.g. a binary search)"]


def run(ctx, rep, tier):
    prog, eff = ctx.prog, ctx.eff
    rep.rule("W5", "expansion functions write no Circuit member other than cellWidth_", 2)
    rep.rule("G15", "cellWidth_ writes edge-dominated by the movable test on the same index", 2)
    rep.rule("SK", "binary searches over the congestion regions use the key the regions are sorted by", 1)
    rep.rule("G16", "computeCellExpansion: const, one factor per cell, 1 for fixed cells, running max from 1 otherwise", 3)
    trans = eff.transitive()
    for q in ("Circuit::expandCellsToDensity", "Circuit::expandCellsByFactor"):
        f = prog.func1(CQ + q)
        tw = {w for w in trans[f.key]["writes"] if w.startswith(CQ + "Circuit::")}
        import json as _json, os as _os
        from ..frontend import VERIF as _V
        schema = _json.load(open(_os.path.join(_V, "rules", "c03.json")))
        observable = {CQ + "Circuit::" + m for m in schema["protected_members"] + ["cellX_", "cellY_", "cellOrientation_"]}
        extra = (tw - {CQ + "Circuit::cellWidth_"}) & observable
        if extra:
            for w in sorted(extra):
                rep.violation("W5", f.decl, f, "%s may write %s" % (f.short, short(w)), "expansion changes only the widths of movable cells",
                              key="%s|writes %s" % (f.short, short(w)))
        else:
            rep.holds("W5", f.decl, f, "%s writes only %s" % (f.short, sorted(short(w) for w in tw)))
        s = eff.summary(f)
        ws = s["writes"].get(CQ + "Circuit::cellWidth_", []) + s["escapes"].get(CQ + "Circuit::cellWidth_", [])
        if not ws:
            rep.unknown("G15", f.decl, f, "width write", "no write to cellWidth_ found (shape changed)")
        for x, u in ws:
            tgt = write_target(x)
            if tgt is None:
                rep.violation("G15", u.node, f, "whole-container write to cellWidth_ (%s)" % u.why, "cannot be restricted to movable cells",
                              key="%s|whole-container width write" % f.short)
                continue
            c = canon(tgt)
            idx = c[2]
            g = cfg_of(f)
            site = g.node_for(u.node)
            ok = False
            for ast, val, en in g.dom_edges(site):
                t = is_fixed_test(canon(ast))
                if t and t[1] == idx and val is False:
                    st, w = stable_between(ctx, f, vars_in(idx), en, site)
                    ok = st
            if ok:
                rep.holds("G15", u.node, f, "cellWidth_[%s] written only for movable cells" % pretty(idx))
            else:
                rep.violation("G15", u.node, f, "cellWidth_[%s] written without a dominating movable test on that index" % pretty(idx),
                              "a fixed cell's width could change", key="%s|unguarded width write" % f.short)
    # ---- SK ----
    from .common import check_sort_keys
    n = check_sort_keys(ctx, rep, "SK", [prog.func1(CQ + "Circuit::computeCellExpansion")])
    if n == 0:
        rep.holds("SK", "-", None, "computeCellExpansion performs no binary search (plain scan of the sorted region map)")
    # ---- G16 ----
    f = prog.func1(CQ + "Circuit::computeCellExpansion")
    tw = {w for w in trans[f.key]["writes"] if w.startswith(CQ + "Circuit::")}
    if f.is_const and not tw:
        rep.holds("G16", f.decl, f, "computeCellExpansion is const and writes no member")
    else:
        rep.violation("G16", f.decl, f, "computeCellExpansion modifies the circuit", "const: %s, writes: %s" % (f.is_const, sorted(tw)),
                      key="Circuit::computeCellExpansion|not pure")
    loops = [for_loop_info(x) for x in walk(f.body) if x.get("kind") == "ForStmt"]
    loops = [l for l in loops if l and l["hi"] == ("call", CQ + "Circuit::nbCells", ("this",))]
    if not loops:
        rep.unknown("G16", f.decl, f, "cell loop", "loop over 0..nbCells() not found")
        return
    l = loops[0]
    g = cfg_of(f)
    pushes = [x for x in walk(l["body"]) if x.get("kind") == "CXXMemberCallExpr" and callee_info(x)["name"] in ("push_back", "emplace_back")
              and canon(callee_info(x)["obj"])[0] == "var" and canon(callee_info(x)["obj"])[2] == "expansions"]
    if not pushes:
        # name-free fallback: pushes into the vector the function returns
        rets = [canon(children(y)[0]) for y in walk(f.body) if y.get("kind") == "ReturnStmt" and children(y)]
        rv = rets[-1] if rets else None
        pushes = [x for x in walk(l["body"]) if x.get("kind") == "CXXMemberCallExpr" and callee_info(x)["name"] in ("push_back", "emplace_back")
                  and rv is not None and canon(callee_info(x)["obj"]) == rv]
    if not pushes:
        rep.unknown("G16", l["stmt"], f, "expansion factors", "no push into the returned vector inside the cell loop (shape changed)")
        return
    incn = g.node_for(l["inc"])
    # exactly one push on every path: each path body-entry -> increment crosses exactly one push:
    # (a) the increment is not reachable from the loop head when all pushes are removed, (b) no push reaches another push without passing the increment
    pn = [g.node_for(p) for p in pushes]
    full = l["lo"] == ("lit", "0") and l["step"] == 1 and loop_has_early_exit(l["body"]) is None
    head = [n for n in g.nodes if n.kind == "join" and n.ast is l["stmt"]]
    one = False
    if head and pn and incn is not None:
        reach_wo = g.reachable_from([head[0]], avoid=pn)
        a = incn.idx not in reach_wo
        b = all(not any(q is not p and q.idx in g.reachable_from([p], avoid=[incn]) for q in pn) for p in pn)
        one = a and b
    if full and one:
        rep.holds("G16", l["stmt"], f, "every cell gets exactly one expansion factor (full-range loop, one push per path)")
    else:
        rep.violation("G16", l["stmt"], f, "not exactly one factor per cell", "full range: %s, one push per path: %s" % (full, one),
                      key="Circuit::computeCellExpansion|factor count")
    for x in pushes:
        guards = ctx.guards(f, x) or []
        fx = [val for gc, val, _a, _b in guards if is_fixed_test(gc, idx=l["var"])]
        arg = canon(callee_info(x)["args"][0])
        if fx and fx[0] is True:
            if arg[0] == "lit" and str(arg[1]).rstrip("fF") in ("1", "1.0", "1."):
                rep.holds("G16", x, f, "fixed cells get the literal factor %s" % arg[1])
            else:
                rep.violation("G16", x, f, "fixed cells get factor %s" % pretty(arg), "must be the literal 1", key="Circuit::computeCellExpansion|fixed factor")
        elif fx and fx[0] is False:
            if arg[0] != "var":
                rep.unknown("G16", x, f, "movable factor %s" % pretty(arg), "not a local accumulator")
                continue
            d = f.unit.by_id.get(arg[1])
            init = canon(children(d)[-1]) if d is not None and children(d) else None
            from .common import assignments_to
            asg = assignments_to(f, arg[1])
            okinit = init is not None and init[0] == "lit" and str(init[1]).rstrip("fF") in ("1", "1.0", "1.")
            okmax = all(canon(r)[0] == "call" and canon(r)[1] == "max" and arg in canon(r)[3:] for _x, r in asg)
            if okinit and okmax:
                rep.holds("G16", x, f, "movable cells get max(1, intersecting factors) (%d update site(s))" % len(asg))
            else:
                rep.violation("G16", x, f, "movable factor is not a running maximum started at 1",
                              "initial value %s; updates %s" % (pretty(init) if init else "?", [pretty(canon(r)) for _x, r in asg]),
                              key="Circuit::computeCellExpansion|movable factor")
        else:
            rep.violation("G16", x, f, "factor pushed without a fixedness test", "", key="Circuit::computeCellExpansion|push outside fixedness test")
