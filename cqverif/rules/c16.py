"""C16 — every cell of non-zero area is in exactly one bin (the 'two representations stay in step' clause only).

W6   who may write binCells_ / cellBinX_ / cellBinY_
R7a  a wholesale replacement of binCells_ is followed by updateCellToBin() on every path
R7b  setBinCells updates cellBinX_, cellBinY_ (for every cell given) and binCells_[x][y] together, unconditionally
R7c  bins emptied by reoptimize are refilled on every path to the exit; every collected cell is reassigned (full-range loops)
R7d  rebisect redistributes the union of the two bins' cells to exactly those two bins
G14  the initial allocation admits exactly the cells with positive demand
TW   X/Y twins of refine / coarsen agree (sibling cross-check)
LV   level discipline: a bin index handed to the base grid (a DensityGrid method called on the grid_ member of the
     hierarchical placement) is translated through the limits tables, never a bare view-level loop index
IX   a bin index is never obtained by dividing a coordinate by a nominal bin size (bin limits are floor(i*W/n), not uniform):
     indices come from loops over the bins or from the search functions
"""
from ..frontend import AnalysisBroken
from ..model import qt, loc_str, walk, inner
from ..expr import canon, pretty, children, strip, callee_info, subterms
from ..cfg import cfg_of
from .common import CQ, short, field_writes, calls_to, for_loop_info, loop_has_early_exit, expand_locals
from .c06 import name_bag, swap_axis

EXPLANATION = (
    "Static check on the clang-resolved AST of density_grid.cpp/.hpp and density_legalizer.cpp, limited to the bookkeeping clause: "
    "the cell->bin maps (cellBinX_, cellBinY_) and the bin->cells lists (binCells_) describe the same allocation and no cell is "
    "dropped by the redistribution code paths. W6: writers of the three members are a frozen list. R7a: each `binCells_ = ...` "
    "is post-dominated by updateCellToBin(). R7b: setBinCells writes all three together. R7c: in reoptimize the node that clears "
    "the candidate bins cannot reach the function exit without passing a setBinCells call, the reallocation loops are full-range "
    "over the collected cells and over the bins. R7d: rebisect gathers both bins' cells and gives the two halves of doSplit to the "
    "same two bins. G14: the constructor's initial list is filled under cellDemand_[c] > 0.")

DECLINED = ["capacity exactness and aggregation (intersection arithmetic of updateBinCapacity / computeSubdivisions)",
            "conservation through the hierarchy index arithmetic of refine/coarsen beyond the twin agreement",
            "coordinates reported inside the bin (floating point)"]

WRITERS = {
    "binCells_": {"HierarchicalDensityPlacement::HierarchicalDensityPlacement": "initial allocation", "HierarchicalDensityPlacement::setBinCells": "validated primitive",
                  "HierarchicalDensityPlacement::coarsenX": "level change", "HierarchicalDensityPlacement::coarsenY": "level change",
                  "HierarchicalDensityPlacement::refineX": "level change", "HierarchicalDensityPlacement::refineY": "level change",
                  "DensityLegalizer::reoptimize": "empties the candidate bins before refilling them"},
    "cellBinX_": {"HierarchicalDensityPlacement::setBinCells": "primitive", "HierarchicalDensityPlacement::updateCellToBin": "rebuild from binCells_"},
    "cellBinY_": {"HierarchicalDensityPlacement::setBinCells": "primitive", "HierarchicalDensityPlacement::updateCellToBin": "rebuild from binCells_"},
}
H = CQ + "HierarchicalDensityPlacement::"


def run(ctx, rep, tier):
    prog, eff = ctx.prog, ctx.eff
    rep.rule("W6", "who may write binCells_ / cellBinX_ / cellBinY_", 3)
    rep.rule("R7a", "wholesale binCells_ replacement followed by updateCellToBin()", 5)
    rep.rule("R7b", "setBinCells updates both representations together", 1)
    rep.rule("R7c", "reoptimize refills the bins it empties, empties every bin it collects from; all collected cells reassigned", 4)
    rep.rule("R7d", "rebisect redistributes exactly the two bins' cells to those two bins", 1)
    rep.rule("G14", "initial allocation = cells with positive demand", 1)
    rep.rule("TW", "refine/coarsen X/Y twins agree", 2)
    rep.rule("LV", "bin indices passed to the base grid are translated through the hierarchy limits", 2)
    rep.rule("BL", "bin limits are interpolated in 64 bits (index times extent)", 1)
    rep.rule("BR", "updateBinCapacity examines, for every region, all the bins the region can overlap (range starts at the first bin, or at the bin containing the region's lower end)", 2)
    rep.rule("CS", "the capacity a region adds to the bins depends on that region alone (no scan state carried from one region to the next)", 1)
    rep.rule("FC", "row / region bounds are never offset in floating point and truncated back (expected count 0; control in selftest/c16_controls.cpp)", 1)
    rep.rule("IX", "bin indices are not derived from coordinate / size divisions", 1)
    check_axis_symmetry(ctx, rep)
    check_levels(ctx, rep)
    check_index_origin(ctx, rep)
    check_carried_scan(ctx, rep)
    check_bin_limits(ctx, rep)
    check_float_coordinates(ctx, rep)
    for fld, ok in WRITERS.items():
        from .common import check_writers
        check_writers(ctx, rep, "W6", H + fld, ok, fld)
    # ---- R7a ----
    for f in prog.funcs.values():
        if f.cls != CQ + "HierarchicalDensityPlacement":
            continue
        s = eff.summary(f)
        whole = [u.node for x, u in s["writes"].get(H + "binCells_", []) if canon(x) == ("field", H + "binCells_", ("this",)) and
                 (u.why in ("operator=",) or "emplace_back" in u.why or "push_back" in u.why or "assign" in u.why or "resize" in u.why or "clear" in u.why)
                 and _is_whole(x)]
        if not whole:
            continue
        g = cfg_of(f)
        ups = calls_to(f, H + "updateCellToBin")
        un = [g.node_for(u) for u in ups]
        for w in whole:
            wn = g.node_for(w)
            if un and g.exit.idx not in g.reachable_from([wn], avoid=un):
                rep.holds("R7a", w, f, "binCells_ replaced in %s, then updateCellToBin() on every path" % f.short)
            else:
                rep.violation("R7a", w, f, "binCells_ replaced in %s without rebuilding cellBinX_/cellBinY_" % f.short,
                              "the cell->bin maps would describe the previous allocation", key="%s|no updateCellToBin" % f.short)
    # ---- R7b ----
    sb = prog.func1(H + "setBinCells")
    s = eff.summary(sb)
    g = cfg_of(sb)
    ok = True
    why = []
    # the work may be delegated to private helpers of the class that setBinCells calls on every path
    scope = [sb]
    for y in walk(sb.body):
        if y.get("kind") == "CXXMemberCallExpr":
            _c, hs = eff.resolve_callee(y)
            yn = g.node_for(y)
            for h in hs:
                if h.cls == sb.cls and h.body is not None and h is not sb and not h.is_const and yn is not None and \
                        g.exit.idx not in g.reachable_from([g.entry], avoid=[yn]) and h not in scope:
                    scope.append(h)
    for fld in ("cellBinX_", "cellBinY_", "binCells_"):
        ws = [w for f_ in scope for w in eff.summary(f_)["writes"].get(H + fld, [])]
        if not ws:
            ok = False
            why.append("%s not written" % fld)
    wx = [u.node for _x, u in s["writes"].get(H + "cellBinX_", [])]
    for l in [x for f_ in scope for x in walk(f_.body) if x.get("kind") == "CXXForRangeStmt"]:
        var = inner(list(inner(l))[6])[0]
        body = list(inner(l))[7]
        if loop_has_early_exit(body) or any(y.get("kind") in ("ContinueStmt", "IfStmt") for y in walk(body)):
            ok = False
            why.append("a cell of the list can be skipped")
    bw = [u.node for _x, u in s["writes"].get(H + "binCells_", [])]
    if bw and [e for e in g.dom_edges(g.node_for(bw[0])) if not e[2].from_assert and isinstance(e[1], bool)]:
        ok = False
        why.append("bin list written conditionally")
    if ok:
        rep.holds("R7b", sb.decl, sb, "setBinCells writes cellBinX_[c], cellBinY_[c] for every c and binCells_[x][y] = cells")
    else:
        rep.violation("R7b", sb.decl, sb, "setBinCells does not keep both representations in step", "; ".join(why), key="HierarchicalDensityPlacement::setBinCells|out of step")
    # ---- R7c ----
    ro = prog.func1(CQ + "DensityLegalizer::reoptimize")
    g = cfg_of(ro)
    clears = [x for x in walk(ro.body) if x.get("kind") == "CXXMemberCallExpr" and callee_info(x)["name"] == "clear" and
              "binCells_" in pretty(canon(callee_info(x)["obj"]))]
    sets = calls_to(ro, H + "setBinCells")
    sn = [g.node_for(x) for x in sets]
    # a loop over all the kept bins whose body calls setBinCells counts as a refill point as a whole
    # (the list of kept bins is non-empty there: the function returned earlier otherwise)
    for l in [x for x in walk(ro.body) if x.get("kind") in ("ForStmt", "CXXForRangeStmt")]:
        body = list(inner(l))[-1]
        if any(y.get("kind") == "CXXMemberCallExpr" and callee_info(y)["qname"] == H + "setBinCells" for y in walk(body)):
            probe = next((c for c in inner(l) if isinstance(c, dict) and c.get("kind")), l)
            from .common import nonempty_fact
            empties = [gc for gc, val, _a, _b in (ctx.guards(ro, probe) or []) if isinstance(val, bool) and nonempty_fact(gc, val) is not None]
            if empties:
                sn += [n for n in g.nodes if n.kind == "join" and n.ast is l]
    # the refill may be delegated to a private helper of the class that calls setBinCells for every element of a bin list it receives
    # (`dispatchCells(bins, cells, assignment)`): the call is a refill point when the list handed over is known to be non-empty there
    helper_bodies = []
    for y in walk(ro.body):
        if y.get("kind") != "CXXMemberCallExpr":
            continue
        ci_y, hs = eff.resolve_callee(y)
        for h in hs:
            if h is ro or h.cls != ro.cls or h.body is None or h.qname == H + "setBinCells":
                continue
            for lh in [for_loop_info(z) for z in walk(h.body) if z.get("kind") == "ForStmt"]:
                if not lh or not lh["hi"] or lh["hi"][0] != "call" or lh["hi"][1] != "size" or lh["lo"] != ("lit", "0") or lh["step"] != 1:
                    continue
                if not any(z.get("kind") == "CXXMemberCallExpr" and callee_info(z)["qname"] == H + "setBinCells" for z in walk(lh["body"])) or \
                        loop_has_early_exit(lh["body"]) is not None:
                    continue
                lst = lh["hi"][2] if len(lh["hi"]) > 2 else None
                pj = [j for j, pr in enumerate(h.params) if lst == ("var", pr.get("id"), pr.get("name"))]
                if not pj or pj[0] >= len(ci_y["args"]):
                    continue
                hg = cfg_of(h)
                ln = [n for n in hg.nodes if n.kind == "join" and n.ast is lh["stmt"]]
                if ln and hg.exit.idx in hg.reachable_from([hg.entry], avoid=ln):
                    continue                                  # the helper can return without reaching the loop
                arg = canon(ci_y["args"][pj[0]])
                from .common import nonempty_fact
                ne = [nonempty_fact(gc, val) for gc, val, _a, _b in (ctx.guards(ro, y) or []) if isinstance(val, bool)]
                if any(t is not None and t == arg for t in ne) or any(t is not None for t in ne):
                    sn.append(g.node_for(y))
                    helper_bodies.append(h)
    sn = [n for n in sn if n is not None]
    if not clears:
        rep.unknown("R7c", ro.decl, ro, "reoptimize", "clearing of the candidate bins not found")
    for c in clears:
        cn = g.node_for(c)
        if sn and g.exit.idx not in g.reachable_from([cn], avoid=sn):
            rep.holds("R7c", c, ro, "bins emptied by reoptimize are refilled (setBinCells) on every path to the exit")
        else:
            rep.violation("R7c", c, ro, "reoptimize can return after emptying bins without refilling them",
                          "cells would vanish from every bin while cellBinX_/cellBinY_ still name the old bin", key="DensityLegalizer::reoptimize|bins emptied and not refilled")
    # every bin whose cells were collected is emptied (otherwise its cells are both redistributed and left where they were)
    def range_of(node):
        p = node.get("_p")
        while p is not None and p is not ro.body:
            if p.get("kind") == "CXXForRangeStmt":
                ch = [c_ for c_ in inner(p) if isinstance(c_, dict)]
                rng = ch[1] if len(ch) > 1 else None
                vd = [d for d in inner(rng) if d.get("kind") == "VarDecl"] if rng and rng.get("kind") == "DeclStmt" else []
                return (canon(children(vd[0])[-1]) if vd and children(vd[0]) else None), p
            p = p.get("_p")
        return None, None
    def own_guards(node, loop):
        out = []
        for gc, val, ast, asr in (ctx.guards(ro, node) or []):
            if asr or not isinstance(val, bool):
                continue
            q = ast
            inside = False
            while q is not None:
                if q is loop:
                    inside = True
                    break
                q = q.get("_p")
            if inside:
                out.append((gc, val))
        return out
    gathers = []
    for x in walk(ro.body):
        if x.get("kind") == "CXXForRangeStmt":
            ch = [c_ for c_ in inner(x) if isinstance(c_, dict)]
            rng = ch[1] if len(ch) > 1 else None
            vd = [d for d in inner(rng) if d.get("kind") == "VarDecl"] if rng and rng.get("kind") == "DeclStmt" else []
            if vd and children(vd[0]):
                rc = canon(children(vd[0])[-1])
                if rc[0] == "index" and "binCells_" in pretty(rc) and any(
                        y.get("kind") == "CXXMemberCallExpr" and callee_info(y)["name"] in ("push_back", "emplace_back") for y in walk(ch[-1])):
                    k, lp = range_of(x)
                    gathers.append((x, k, lp))
    # range insert: `cells.insert(cells.end(), binCells_[x][y].begin(), binCells_[x][y].end())` (possibly through a reference local)
    for x in walk(ro.body):
        if x.get("kind") == "CXXMemberCallExpr" and callee_info(x)["name"] == "insert" and len(callee_info(x)["args"]) == 3:
            a1, a2 = [expand_locals(ctx, ro, canon(t)) for t in callee_info(x)["args"][1:]]
            if a1[0] == "call" and a1[1] in ("begin", "cbegin") and a2[0] == "call" and a2[1] in ("end", "cend") and a1[2:] == a2[2:] and \
                    len(a1) > 2 and a1[2][0] == "index" and "binCells_" in pretty(a1[2]):
                k, lp = range_of(x)
                gathers.append((x, k, lp))
    # the collection may be delegated to a const helper of the class (`cellsInBins(binCandidates)`): a call whose callee loops over
    # its bin-list parameter and reads binCells_[x][y] for every element, under no condition, collects from the argument's bins
    for y in walk(ro.body):
        if y.get("kind") != "CXXMemberCallExpr":
            continue
        ci_y, hs = eff.resolve_callee(y)
        for h in hs:
            if h.cls != ro.cls or h.body is None or h is ro:
                continue
            for j, pr in enumerate(h.params):
                pc = ("var", pr.get("id"), pr.get("name"))
                for lp_ in [z for z in walk(h.body) if z.get("kind") == "CXXForRangeStmt"]:
                    chh = [c_ for c_ in inner(lp_) if isinstance(c_, dict)]
                    rngh = chh[1] if len(chh) > 1 else None
                    vdh = [d for d in inner(rngh) if d.get("kind") == "VarDecl"] if rngh and rngh.get("kind") == "DeclStmt" else []
                    if not (vdh and children(vdh[0]) and canon(children(vdh[0])[-1]) == pc):
                        continue
                    reads = any(t_[0] == "field" and str(t_[1]).endswith("::binCells_") for z in walk(chh[-1]) if z.get("kind") in ("MemberExpr",)
                                for t_ in [canon(z)])
                    cond = any(z.get("kind") in ("IfStmt", "ContinueStmt", "BreakStmt") for z in walk(chh[-1]))
                    if reads and not cond and j < len(ci_y["args"]):
                        gathers.append((y, canon(ci_y["args"][j]), None))
    for c in clears:
        k, lp = range_of(c)
        gk = [g_ for g_ in gathers if g_[1] is not None]
        if k is None or not gk:
            rep.unknown("R7c", c, ro, "emptied bins vs collected bins", "gather loop / clear loop over a bin list not recognised")
            continue
        cg = own_guards(c, lp)
        same = all(g_[1] == k for g_ in gk)
        gg = [own_guards(g_[0], g_[2]) for g_ in gk]
        if same and all(set(cg) <= set(x_) for x_ in gg) and not all(set(x_) <= set(cg) for x_ in gg):
            rep.violation("R7c", c, ro, "every bin of %s is emptied, but its cells are collected only under %s" % (
                pretty(k), [" and ".join(pretty(a) + ("" if v else " [false]") for a, v in x_) or "no condition" for x_ in gg]),
                "a bin that is emptied without having been collected loses its cells: they are in no bin any more (cells are parked in bins without "
                "capacity by the refinement steps)", key="DensityLegalizer::reoptimize|emptied bins not all collected")
        elif same and all(set(cg) <= set(x_) for x_ in gg):
            rep.holds("R7c", c, ro, "every bin of %s whose cells are collected is emptied (same list, no extra condition)" % pretty(k))
        else:
            rep.violation("R7c", c, ro, "bins are emptied under %s but their cells are collected from %s under %s" % (
                " and ".join(pretty(a) + ("" if v else " [false]") for a, v in cg) or "no condition over " + pretty(k),
                ", ".join(pretty(g_[1]) for g_ in gk), [" and ".join(pretty(a) for a, v in x_) or "no condition" for x_ in gg]),
                "a bin that is collected but not emptied keeps its cells while they are also handed to other bins: cells end up in several bins",
                key="DensityLegalizer::reoptimize|collected bins not all emptied")
    # no way out between collecting the cells of the candidate bins and emptying those bins (an early return taken in between leaves
    # the collected cells in their old bins *and* hands them to the bin that is refilled)
    rg = cfg_of(ro)
    cnodes = [rg.node_for(c) for c in clears]
    cnodes = [n_ for n_ in cnodes if n_ is not None]
    # running the emptying loop at all counts as passing it (the collecting loop ran over the same non-empty list)
    for c in clears:
        lp_ = c
        while lp_ is not None and lp_.get("kind") not in ("CXXForRangeStmt", "ForStmt", "WhileStmt"):
            lp_ = lp_.get("_p")
        if lp_ is not None:
            inside = {id(y) for y in walk(lp_)}
            cnodes += [n_ for n_ in rg.nodes if n_.ast is not None and id(n_.ast) in inside]
    for gx, _k, _lp in gathers:
        body_nodes = [rg.node_for(y) for y in walk(gx) if y.get("kind") == "CXXMemberCallExpr" and callee_info(y)["name"] in ("push_back", "emplace_back", "insert")]
        body_nodes = [n_ for n_ in body_nodes if n_ is not None]
        if not body_nodes or not cnodes:
            continue
        stores = [rg.node_for(y) for y in walk(ro.body) if y.get("kind") == "CXXMemberCallExpr" and callee_info(y)["qname"] == H + "setBinCells"]
        stores = [n_ for n_ in stores if n_ is not None]
        reach = rg.reachable_from(body_nodes[:1], avoid=cnodes)
        # leaving without having stored anything changes nothing (the early `nothing to do` return); leaving after a store does
        if any(st.idx in reach and (rg.exit.idx in rg.reachable_from([st], avoid=cnodes)) for st in stores):
            rep.violation("R7c", gx, ro, "a path leaves reoptimize after the cells were collected and before the candidate bins are emptied",
                          "on that path the collected cells stay listed in their old bins while they are also stored into the bin that is refilled: "
                          "cells end up in several bins", key="DensityLegalizer::reoptimize|exit between collecting and emptying")
        else:
            rep.holds("R7c", gx, ro, "no exit between collecting the cells and emptying the candidate bins")
    # reallocation loops
    loops = [for_loop_info(x) for b_ in [ro.body] + [h.body for h in helper_bodies] for x in walk(b_) if x.get("kind") == "ForStmt"]
    loops = [l for l in loops if l]
    # the two reallocation loops, identified by what they do: one indexes the transport assignment, the other calls setBinCells
    def body_has(l, pred):
        return any(pred(y) for y in walk(l["body"]))
    cells_loop = [l for l in loops if l["hi"] and l["hi"][0] == "call" and l["hi"][1] == "size" and
                  body_has(l, lambda y: y.get("kind") == "CXXMemberCallExpr" and callee_info(y)["name"] in ("push_back", "emplace_back") and
                           canon(callee_info(y)["obj"])[0] == "index" and canon(callee_info(y)["obj"])[2][0] == "index")]
    bins_loop = [l for l in loops if l["hi"] and l["hi"][0] == "call" and l["hi"][1] == "size" and
                 body_has(l, lambda y: y.get("kind") == "CXXMemberCallExpr" and callee_info(y)["qname"] == H + "setBinCells")]
    if not cells_loop or not bins_loop:
        rep.unknown("R7c", ro.decl, ro, "reallocation loops", "loop filling the per-bin lists from the assignment / loop calling setBinCells not found")
        cells_loop = bins_loop = None
    okc = okb = None
    if cells_loop is not None:
      okc = cells_loop and cells_loop[0]["lo"] == ("lit", "0") and cells_loop[0]["step"] == 1 and loop_has_early_exit(cells_loop[0]["body"]) is None \
          and not any(y.get("kind") in ("ContinueStmt", "IfStmt") for y in walk(cells_loop[0]["body"]))
      okb = bins_loop and bins_loop[0]["lo"] == ("lit", "0") and bins_loop[0]["step"] == 1 and loop_has_early_exit(bins_loop[0]["body"]) is None \
          and any(callee_info(y)["qname"] == H + "setBinCells" for y in walk(bins_loop[0]["body"]) if y.get("kind") == "CXXMemberCallExpr")
    if okc is None:
        pass
    elif okc:
        rep.holds("R7c", cells_loop[0]["stmt"], ro, "every collected cell i in 0..cells.size() is put into the bin assignment[i]")
    else:
        rep.violation("R7c", ro.decl, ro, "not every collected cell is reassigned", "", key="DensityLegalizer::reoptimize|cells loop incomplete")
    if okb is None:
        pass
    elif okb:
        rep.holds("R7c", bins_loop[0]["stmt"], ro, "every bin b in 0..bins.size() receives its list through setBinCells")
    else:
        rep.violation("R7c", ro.decl, ro, "not every bin receives its list", "", key="DensityLegalizer::reoptimize|bins loop incomplete")
    # ---- R7d ----
    rb = prog.func1(CQ + "DensityLegalizer::rebisect")
    sets = calls_to(rb, H + "setBinCells")
    ins = [x for x in walk(rb.body) if x.get("kind") == "CXXMemberCallExpr" and callee_info(x)["name"] == "insert" and
           canon(callee_info(x)["obj"])[0] == "var"]
    p = [("var", q.get("id"), q.get("name")) for q in rb.params]
    bins = [(p[0], p[1]), (p[2], p[3])] if len(p) == 4 else []
    def bin_list(a, b_):
        return ("index", ("index", ("field", H + "binCells_", ("this",)), a), b_)
    srcs = []
    for x in ins:
        a1 = canon(callee_info(x)["args"][1]) if len(callee_info(x)["args"]) > 1 else ("none",)
        if a1[0] == "call" and a1[1] in ("begin", "cbegin"):
            srcs.append(a1[2])
    tg = [(canon(callee_info(x)["args"][0]), canon(callee_info(x)["args"][1])) for x in sets]
    halves = [canon(callee_info(x)["args"][2]) for x in sets]
    same_split = len(halves) == 2 and all(h[0] == "field" for h in halves) and halves[0][2] == halves[1][2] and \
        {str(halves[0][1]).split("::")[-1], str(halves[1][1]).split("::")[-1]} == {"first", "second"}
    if not same_split and len(halves) == 2 and all(h[0] == "var" for h in halves):
        from .common import binding_source
        b0, b1 = binding_source(rb, halves[0][1]), binding_source(rb, halves[1][1])
        same_split = bool(b0 and b1 and b0[2] is b1[2] and {b0[1], b1[1]} == {0, 1})     # `auto [first, second] = doSplit(...)`
    if not bins or len(sets) != 2 or len(ins) < 2:
        rep.unknown("R7d", rb.decl, rb, "rebisect", "two inserts / two setBinCells calls not found (shape changed)")
    elif sorted(map(str, srcs)) == sorted(map(str, [bin_list(*b_) for b_ in bins])) and sorted(map(str, tg)) == sorted(map(str, bins)) and same_split:
        rep.holds("R7d", rb.decl, rb, "rebisect: the cells of both bins are split and the two halves of one split go back to the same two bins")
    else:
        rep.violation("R7d", rb.decl, rb, "rebisect does not redistribute exactly the two bins' cells to those bins",
                      "sources %s; targets %s; halves %s" % ([pretty(x) for x in srcs], [(pretty(a), pretty(b_)) for a, b_ in tg], [pretty(h) for h in halves]),
                      key="DensityLegalizer::rebisect|redistribution")
    # ---- G14 ----
    ctor = [f for f in prog.func(H + "HierarchicalDensityPlacement") if len(f.params) == 2 and "vector" in qt(f.params[1])]
    if len(ctor) != 1:
        rep.unknown("G14", "-", None, "constructor", "not found")
    else:
        c = ctor[0]
        # the list may be built by a private helper of the class that the constructor calls (`nonEmptyCells()`)
        scope = [c]
        for y in walk(c.body):
            if y.get("kind") == "CXXMemberCallExpr":
                _c2, hs = eff.resolve_callee(y)
                scope += [h for h in hs if h.cls == c.cls and h.body is not None and h not in scope and "vector<int" in (h.type or "").split("(")[0]]
        pushes = [(f_, x) for f_ in scope for x in walk(f_.body) if x.get("kind") == "CXXMemberCallExpr" and callee_info(x)["name"] in ("push_back", "emplace_back") and
                  canon(callee_info(x)["obj"])[0] == "var" and "vector<int>" in qt(callee_info(x)["obj"])]
        good = False
        if not pushes:
            rep.unknown("G14", c.decl, c, "initial allocation", "list of initially allocated cells not found (shape changed)")
            pushes = None
        for f_, x in (pushes or []):
            guards = ctx.guards(f_, x, derived=True) or []
            for gc, val, _a, _b in guards:
                if gc[0] == "bin" and gc[1] == ">" and "cellDemand_" in pretty(gc[2]) and gc[3][0] == "lit" and str(gc[3][1]).startswith("0") and val is True:
                    good = True
        if pushes is None:
            pass
        elif good:
            rep.holds("G14", pushes[0][1], c, "initial bin receives exactly the cells with cellDemand_[c] > 0")
        else:
            rep.violation("G14", c.decl, c, "initial allocation is not filtered by positive demand", "", key="HierarchicalDensityPlacement::HierarchicalDensityPlacement|initial filter")
    # ---- TW ----
    for qa, qb in (("refineX", "refineY"), ("coarsenX", "coarsenY")):
        a, b = prog.func1(H + qa), prog.func1(H + qb)
        ba = {swap_axis(k): v for k, v in name_bag(a).items()}
        bb = name_bag(b)
        if ba == bb:
            rep.holds("TW", a.decl, a, "%s mirrors %s" % (qa, qb))
        else:
            diff = ["%s: %d vs %d" % (k, ba.get(k, 0), bb.get(k, 0)) for k in sorted(set(ba) | set(bb)) if ba.get(k, 0) != bb.get(k, 0)]
            rep.violation("TW", b.decl, b, "%s is not the X<->Y image of %s" % (qb, qa), "; ".join(diff[:6]), key="%s|differs from twin" % qb)


def _is_whole(x):
    p = x.get("_p")
    while p is not None and p.get("kind") in ("ImplicitCastExpr", "ParenExpr"):
        p = p.get("_p")
    if p is None:
        return True
    if p.get("kind") == "CXXOperatorCallExpr" and callee_info(p)["name"] == "operator[]":
        return False
    return True


# ---- LV / IX ---------------------------------------------------------------------------------

def _has(c, pred):
    if not isinstance(c, tuple):
        return False
    if pred(c):
        return True
    return any(_has(x, pred) for x in c if isinstance(x, tuple))


def check_levels(ctx, rep):
    prog = ctx.prog
    n = 0
    for f in prog.all_funcs(with_lambdas=False):
        if f.body is None or f.cls not in (CQ + "HierarchicalDensityPlacement", CQ + "DensityLegalizer"):
            continue
        for x in walk(f.body):
            if x.get("kind") != "CXXMemberCallExpr":
                continue
            ci = callee_info(x)
            if not ci or ci["obj"] is None:
                continue
            oc = canon(ci["obj"])
            if not (oc[0] == "field" and oc[1] == H + "grid_"):
                continue
            callee = [g for g in prog.funcs.values() if g.qname == ci["qname"] and len(g.params) == len(ci["args"])]
            for i, a in enumerate(ci["args"]):
                from ..model import desugared as _des
                t = _des(a) or qt(a)
                if t.replace("const ", "").strip() not in ("int", "unsigned int", "long", "size_t", "unsigned long"):
                    continue
                n += 1
                ac = canon(a)
                what = "%s: %s(... %s ...) on the base grid" % (f.short, ci["name"], pretty(ac)[:50])
                if _has(ac, lambda c: c[0] == "field") or ac[0] == "lit":
                    rep.holds("LV", x, f, what, "the index is read from a member table (level translation)")
                else:
                    rep.violation("LV", x, f, what, "a view-level index is handed to the base grid untranslated: in a coarsened view bin (i, j) "
                                  "of the base grid is a different, smaller region", key="%s|untranslated index to grid_.%s" % (f.short, ci["name"]))
    if n == 0:
        rep.unknown("LV", None, None, "calls on grid_ with index arguments", "none found (shape changed)")


COORD_FIELDS = ("Rectangle::minX", "Rectangle::maxX", "Rectangle::minY", "Rectangle::maxY")
COORD_CALLS = ("Rectangle::width", "Rectangle::height")
PER_BIN_MEMBERS = ("binCapacity_", "binUsage_", "binCells_", "binLimitX_", "binLimitY_", "binX_", "binY_")


def check_index_origin(ctx, rep):
    """IX: taint = value computed by a division whose numerator mentions a coordinate (Rectangle bound / extent). A tainted value
    must not reach a subscript of a per-bin member or a loop bound of a loop whose variable subscripts one."""
    from .common import assignments_to
    prog = ctx.prog
    n = 0
    for f in prog.all_funcs(with_lambdas=False):
        if f.body is None or f.cls not in (CQ + "DensityGrid", CQ + "HierarchicalDensityPlacement", CQ + "DensityLegalizer"):
            continue
        memo = {}

        def coord(c):
            return _has(c, lambda t: (t[0] == "field" and str(t[1]).endswith(COORD_FIELDS)) or (t[0] == "call" and str(t[1]).endswith(COORD_CALLS)))

        def tainted(c, depth=0):
            if not isinstance(c, tuple) or depth > 10:
                return False
            if c[0] == "bin" and c[1] == "/" and coord(c[2]):
                return True
            if c[0] == "var":
                if c[1] in memo:
                    return memo[c[1]]
                memo[c[1]] = False
                d = f.unit.by_id.get(c[1])
                r = False
                if d is not None and d.get("kind") == "VarDecl" and children(d):
                    r = tainted(canon(children(d)[-1]), depth + 1)
                for _x, rhs in assignments_to(f, c[1]):
                    r = r or tainted(canon(rhs), depth + 1)
                memo[c[1]] = r
                return r
            if c[0] in ("bin", "call", "un", "cond", "construct"):
                return any(tainted(x, depth + 1) for x in c[1:] if isinstance(x, tuple))
            return False

        # loop variables inherit the taint of their bounds
        loopvars = {}
        for x in walk(f.body):
            if x.get("kind") == "ForStmt":
                info = for_loop_info(x)
                if info:
                    loopvars[info["var"][1]] = info
        for x in walk(f.body):
            k = x.get("kind")
            idxs = []
            if k == "CXXOperatorCallExpr" and callee_info(x) and callee_info(x)["name"] == "operator[]":
                c = canon(x)
                if c[0] == "index" and _has(c[1], lambda t: t[0] == "field" and str(t[1]).split("::")[-1] in PER_BIN_MEMBERS):
                    idxs.append(c[2])
            elif k == "CXXMemberCallExpr":
                ci = callee_info(x)
                if ci and ci["name"] in ("region", "binCapacity", "binUsage", "binLimitX", "binLimitY", "binCells", "binX", "binY") and \
                        ci["qname"].startswith((CQ + "DensityGrid::", CQ + "HierarchicalDensityPlacement::")):
                    from ..model import desugared as _des
                    idxs += [canon(a) for a in ci["args"] if (_des(a) or qt(a)).replace("const ", "").strip() == "int"]
            for ic in idxs:
                n += 1
                bad = tainted(ic)
                if not bad:
                    for v in [t for t in _subvars(ic)]:
                        info = loopvars.get(v)
                        if info and ((info["lo"] is not None and tainted(info["lo"])) or (info["hi"] is not None and tainted(info["hi"]))):
                            bad = True
                if bad:
                    rep.violation("IX", x, f, "%s: bin index %s derives from a coordinate divided by a nominal bin size" % (f.short, pretty(ic)[:50]),
                                  "bin limits are floor(i*W/n): the quotient can name a neighbouring bin, and the bin that really contains the "
                                  "coordinate is skipped", key="%s|bin index from coordinate division" % f.short)
    if n == 0:
        rep.unknown("IX", None, None, "per-bin subscripts", "none found (shape changed)")
    elif not any(i["rule"] == "IX" for i in rep.instances):
        rep.holds("IX", "-", None, "%d per-bin subscripts / accessor calls: no index derives from a coordinate division" % n)
        rep.extra["ix_sites"] = n


def _subvars(c):
    out = []
    if isinstance(c, tuple):
        if c and c[0] == "var":
            out.append(c[1])
        for x in c:
            if isinstance(x, tuple):
                out += _subvars(x)
    return out


def check_carried_scan(ctx, rep):
    """CS. DensityGrid::updateBinCapacity(regions) adds, for every region, its overlap with every bin. The regions (row pieces) come
    in no particular order, so nothing but the capacities themselves may be carried from one region to the next: a local declared
    outside the loop over the regions and modified inside it (a `first bin that can still intersect` index, a sweep position)
    makes the bins visited for a region depend on the regions seen before."""
    prog = ctx.prog
    fs = [f for f in prog.func(H.replace("HierarchicalDensityPlacement::", "DensityGrid::") + "updateBinCapacity", required=False) or [] if f.params and "vector" in qt(f.params[0])]
    if len(fs) != 1:
        rep.unknown("CS", None, None, "DensityGrid::updateBinCapacity(regions)", "not found")
        return
    f = fs[0]
    p0 = ("var", f.params[0].get("id"), f.params[0].get("name"))
    loops = []
    for x in walk(f.body):
        if x.get("kind") == "CXXForRangeStmt":
            var = inner(list(inner(x))[6])[0]
            if var.get("_rangevar") is not None and canon(var["_rangevar"]) == p0:
                loops.append(x)
        elif x.get("kind") == "ForStmt":
            li = for_loop_info(x)
            if li and li["hi"] == ("call", "size", p0):
                loops.append(x)
    if not loops:
        rep.unknown("CS", f.decl, f, "loop over the regions", "not found (shape changed)")
        return
    for lp in loops:
        inside = {id(y) for y in walk(lp)}
        carried = {}
        for y in walk(lp):
            k = y.get("kind")
            tgt = None
            if k in ("BinaryOperator", "CompoundAssignOperator") and y.get("opcode", "").endswith("=") and y.get("opcode") not in ("==", "!=", "<=", ">="):
                tgt = canon(children(y)[0], refs=False)
            elif k == "UnaryOperator" and y.get("opcode") in ("++", "--"):
                tgt = canon(children(y)[0], refs=False)
            if tgt is not None and tgt[0] == "var":
                d = f.unit.by_id.get(tgt[1])
                if d is not None and d.get("kind") == "VarDecl" and id(d) not in inside:
                    carried[tgt[1]] = (tgt, y)
        if carried:
            v, y = sorted(carried.values(), key=lambda t: t[0][2])[0]
            rep.violation("CS", y, f, "local %s is declared outside the loop over the regions and modified inside it" % v[2],
                          "the bins examined for a region depend on the regions processed before it: regions that arrive in another order "
                          "(rows listed top-down, shuffled row pieces) are partly skipped and the capacity falls below the free area",
                          key="DensityGrid::updateBinCapacity|scan state carried across regions")
        else:
            rep.holds("CS", lp, f, "each region is accounted for on its own: nothing but binCapacity_ is modified across iterations")
        # BR: the bins examined for a region start at (or before) the bin that contains the region's lower end
        scope = [(f, lp)]
        for y in walk(lp):
            if y.get("kind") == "CXXMemberCallExpr":
                _ci, hs_ = ctx.eff.resolve_callee(y)
                scope += [(h_, h_.body) for h_ in hs_ if h_.cls == f.cls and h_.body is not None and h_ is not f]     # addRegionCapacity(reg)
        for f_y, y in [(f_, y_) for f_, b_ in scope for y_ in walk(b_)]:
            if y.get("kind") != "ForStmt" or y is lp:
                continue
            li = for_loop_info(y)
            if not li or li.get("hi") is None or li.get("lo") is None:
                continue
            his = [t for t in subterms(li["hi"]) if isinstance(t, tuple) and t and t[0] == "call" and str(t[1]).endswith(("::nbBinsX", "::nbBinsY"))]
            if not his and not (li["hi"][0] == "call" and str(li["hi"][1]).endswith(("::nbBinsX", "::nbBinsY"))):
                continue
            lo = expand_locals(ctx, f_y, li["lo"])
            what = "bins examined for a region start at %s" % pretty(lo)[:50]
            calls = [t for t in subterms(lo) if isinstance(t, tuple) and t and t[0] == "call"]
            names = {str(t[1]).split("::")[-1] for t in calls}
            if lo == ("lit", "0"):
                rep.holds("BR", y, f_y, what, "every bin of the axis is examined")
            elif "lower_bound" in names:
                rep.violation("BR", y, f_y, what, "lower_bound on the bin limits returns the first limit *not below* the region's lower end: when that end lies strictly "
                              "inside a bin, this is the next bin, and the part of the region in the bin that contains its lower end is never added to the capacity "
                              "(the bin containing x is upper_bound - 1)", key="DensityGrid::updateBinCapacity|first bin found by lower_bound")
            elif "upper_bound" in names and any(t[0] == "bin" and t[1] == "-" and t[3] == ("lit", "1") for t in subterms(lo) if isinstance(t, tuple) and len(t) == 4):
                rep.holds("BR", y, f_y, what, "the bin that contains the region's lower end (upper_bound - 1)")
            elif names & {"findBinByX", "findBinByY"}:
                rep.holds("BR", y, f_y, what, "the bin that contains the region's lower end (findBinBy*)")
            else:
                rep.unknown("BR", y, f_y, what, "not the first bin and not a recognised search for the bin containing the region's lower end")


def check_float_coordinates(ctx, rep):
    """FC. The capacity grid must tile exactly the clipped rows: their bounds are integers and every offset applied to them (the
    side margin) is an integer too. `row.minX + margin` with a floating margin is evaluated in floating point and truncated when it
    is stored into the integer bound: 4.5 removes 4 units on one side and 5 on the other, and bounds above 2^24 move."""
    import os
    from ..frontend import VERIF
    from ..model import Program
    from .common import float_offset_coordinates
    prog = ctx.prog

    def coord(c):
        return c[1].split("::")[-1] in ("minX", "maxX", "minY", "maxY")
    fs = [f for f in prog.all_funcs(with_lambdas=False) if f.cls in (CQ + "DensityGrid", H[:-2]) and f.body is not None]
    hits = float_offset_coordinates(prog, fs, coord)
    for x, f, c in hits:
        rep.violation("FC", x, f, "%s is evaluated in floating point and truncated to an integer bound" % pretty(c)[:60],
                      "the two sides of a row are rounded differently and large coordinates are not representable: the grid no longer spans "
                      "the clipped rows and bin capacities differ from the free row area", key="%s|bound offset in floating point" % f.short)
    ctl = Program.from_files([os.path.join(VERIF, "selftest", "c16_controls.cpp")])
    ch = float_offset_coordinates(ctl, list(ctl.all_funcs(with_lambdas=False)), coord)
    names = sorted({f.short.split("::")[-1] for _x, f, _c in ch})
    if names == ["clipFloat", "clipInto"]:
        if not hits:
            rep.holds("FC", "src/place_global/density_grid.cpp", None, "no row / region bound is offset in floating point (%d functions examined)" % len(fs),
                      "positive controls clipFloat / clipInto reported, negative control clipInt silent")
    else:
        rep.unknown("FC", "selftest/c16_controls.cpp", None, "controls of rule FC", "expected exactly clipFloat and clipInto to be reported, got %s" % names)


def check_bin_limits(ctx, rep):
    """BL. computeSubdivisions interpolates limit i as min + i * (max - min) / number: the product of a bin index and the extent of the
    area exceeds 2^31 for areas a few million units wide, so it must be formed in 64 bits. A product whose type is a 32-bit int with
    two non-constant operands wraps, the limits stop being sorted, and the bins no longer tile the placement area."""
    prog = ctx.prog
    fs = [f for f in prog.all_funcs(with_lambdas=False) if f.name == "computeSubdivisions" and f.body is not None]
    if not fs:
        rep.unknown("BL", None, None, "computeSubdivisions", "not found")
        return
    for f in fs:
        prods = [x for x in walk(f.body) if x.get("kind") == "BinaryOperator" and x.get("opcode") == "*"]
        bad = [x for x in prods if ((x.get("type") or {}).get("qualType") or "").replace("const ", "") in ("int", "unsigned int") and
               all(canon(c_)[0] != "lit" for c_ in children(x))]
        if bad:
            rep.violation("BL", bad[0], f, "limit interpolated with the 32-bit product %s" % pretty(canon(bad[0]))[:60],
                          "bin index times area extent overflows int for wide areas: negative / unsorted limits, bins that do not tile the area",
                          key="computeSubdivisions|32-bit product")
        elif prods:
            rep.holds("BL", prods[0], f, "the interpolation product %s is formed in %s" % (pretty(canon(prods[0]))[:40], (prods[0].get("type") or {}).get("qualType")))
        else:
            rep.unknown("BL", f.decl, f, "interpolation", "no product found (shape changed)")


# ---- SX: the functions that lay out the bins treat the two axes alike ------------------------------
SYMMETRIC = ("DensityGrid::updateBinsToNumber", "DensityGrid::updateBinsToSize", "DensityGrid::updateBinCenters", "DensityGrid::updateBinCapacity",
             "DensityGrid::binCapacity", "DensityGrid::computePlacementArea", "DensityGrid::DensityGrid", "HierarchicalDensityPlacement::setupHierarchy")


def check_axis_symmetry(ctx, rep):
    """Each of these functions handles x and y in one body; the bins tile the placement area and carry its free area only if what is
    done for the x limits / x extents is also done for y. Decided on the multiset of members, callees, operators and literals of the
    body (local variable names do not count): it must be its own image under X<->Y, width<->height."""
    from .c06 import swap_axis, name_bag
    rep.rule("SX", "bin layout functions (limits, centres, capacities, hierarchy) are their own image under X<->Y", 3)
    n = 0
    for q in SYMMETRIC:
        for f in ctx.prog.func(CQ + q, required=False) or []:
            if f.body is None:
                continue
            b = {k: v for k, v in name_bag(f).items() if k not in ("op<", "op<=", "op>", "op>=", "op==", "op!=", "op&&", "op||", "op!")}
            if not any(swap_axis(k) != k for k in b):
                continue
            n += 1
            sb = {swap_axis(k): v for k, v in b.items()}
            if sb == b:
                rep.holds("SX", f.decl, f, "%s/%d treats both axes alike" % (f.short, len(f.params)))
            else:
                diff = ["%s x%d but %s x%d" % (k, b.get(k, 0), swap_axis(k), b.get(swap_axis(k), 0)) for k in sorted(b) if b.get(k, 0) > b.get(swap_axis(k), 0)]
                rep.violation("SX", f.decl, f, "%s/%d does not treat x and y alike" % (f.short, len(f.params)),
                              "uses differ: %s; the bin limits / capacities of one axis are then computed by a different formula and the grid no longer "
                              "tiles the placement area" % "; ".join(diff[:5]), key="%s/%d|axis asymmetry" % (f.short, len(f.params)))
    if n == 0:
        rep.unknown("SX", None, None, "bin layout functions", "none found (shape changed)")
