"""C16 — every cell of non-zero area is in exactly one bin (the 'two representations stay in step' clause only).

W6   who may write binCells_ / cellBinX_ / cellBinY_
R7a  a wholesale replacement of binCells_ is followed by updateCellToBin() on every path
R7b  setBinCells updates cellBinX_, cellBinY_ (for every cell given) and binCells_[x][y] together, unconditionally
R7c  bins emptied by reoptimize are refilled on every path to the exit; every collected cell is reassigned (full-range loops)
R7d  rebisect redistributes the union of the two bins' cells to exactly those two bins
G14  the initial allocation admits exactly the cells with positive demand
TW   X/Y twins of refine / coarsen agree (sibling cross-check)
"""
from ..frontend import AnalysisBroken
from ..model import qt, loc_str, walk, inner
from ..expr import canon, pretty, children, strip, callee_info
from ..cfg import cfg_of
from .common import CQ, short, field_writes, calls_to, for_loop_info, loop_has_early_exit
from .c06 import name_bag, swap_axis

EXPLANATION = (
    "Static check on the clang-resolved AST of density_grid.cpp/.hpp and density_legalizer.cpp, limited to the bookkeeping clause: "
    "the cell->bin maps (cellBinX_, cellBinY_) and the bin->cells lists (binCells_) describe the same allocation and no cell is "
    "dropped by the redistribution code paths. W6: writers of the three members are a frozen list. R7a: each `binCells_ = ...` "
    "is post-dominated by updateCellToBin(). R7b: setBinCells writes all three together. R7c: in reoptimize the node that clears "
    "the candidate bins cannot reach the function exit without passing a setBinCells call, the reallocation loops are full-range "
    "over the collected cells and over the bins. R7d: rebisect gathers both bins' cells and gives the two halves of doSplit to the "
    "same two bins. G14: the constructor's initial list is filled under cellDemand_[c] > 0.")

DECLINED = ["capacity exactness and aggregation (intersection arithmetic of updateBinCapacity / computeSubdivisions)",
            "conservation through the hierarchy index arithmetic of refine/coarsen beyond the twin agreement",
            "coordinates reported inside the bin (floating point)"]

WRITERS = {
    "binCells_": {"HierarchicalDensityPlacement::HierarchicalDensityPlacement": "initial allocation", "HierarchicalDensityPlacement::setBinCells": "validated primitive",
                  "HierarchicalDensityPlacement::coarsenX": "level change", "HierarchicalDensityPlacement::coarsenY": "level change",
                  "HierarchicalDensityPlacement::refineX": "level change", "HierarchicalDensityPlacement::refineY": "level change",
                  "DensityLegalizer::reoptimize": "empties the candidate bins before refilling them"},
    "cellBinX_": {"HierarchicalDensityPlacement::setBinCells": "primitive", "HierarchicalDensityPlacement::updateCellToBin": "rebuild from binCells_"},
    "cellBinY_": {"HierarchicalDensityPlacement::setBinCells": "primitive", "HierarchicalDensityPlacement::updateCellToBin": "rebuild from binCells_"},
}
H = CQ + "HierarchicalDensityPlacement::"


def run(ctx, rep, tier):
    prog, eff = ctx.prog, ctx.eff
    rep.rule("W6", "who may write binCells_ / cellBinX_ / cellBinY_", 3)
    rep.rule("R7a", "wholesale binCells_ replacement followed by updateCellToBin()", 5)
    rep.rule("R7b", "setBinCells updates both representations together", 1)
    rep.rule("R7c", "reoptimize refills the bins it empties; all collected cells reassigned", 3)
    rep.rule("R7d", "rebisect redistributes exactly the two bins' cells to those two bins", 1)
    rep.rule("G14", "initial allocation = cells with positive demand", 1)
    rep.rule("TW", "refine/coarsen X/Y twins agree", 2)
    for fld, ok in WRITERS.items():
        from .common import check_writers
        check_writers(ctx, rep, "W6", H + fld, ok, fld)
    # ---- R7a ----
    for f in prog.funcs.values():
        if f.cls != CQ + "HierarchicalDensityPlacement":
            continue
        s = eff.summary(f)
        whole = [u.node for x, u in s["writes"].get(H + "binCells_", []) if canon(x) == ("field", H + "binCells_", ("this",)) and
                 (u.why in ("operator=",) or "emplace_back" in u.why or "push_back" in u.why or "assign" in u.why or "resize" in u.why or "clear" in u.why)
                 and _is_whole(x)]
        if not whole:
            continue
        g = cfg_of(f)
        ups = calls_to(f, H + "updateCellToBin")
        un = [g.node_for(u) for u in ups]
        for w in whole:
            wn = g.node_for(w)
            if un and g.exit.idx not in g.reachable_from([wn], avoid=un):
                rep.holds("R7a", w, f, "binCells_ replaced in %s, then updateCellToBin() on every path" % f.short)
            else:
                rep.violation("R7a", w, f, "binCells_ replaced in %s without rebuilding cellBinX_/cellBinY_" % f.short,
                              "the cell->bin maps would describe the previous allocation", key="%s|no updateCellToBin" % f.short)
    # ---- R7b ----
    sb = prog.func1(H + "setBinCells")
    s = eff.summary(sb)
    g = cfg_of(sb)
    ok = True
    why = []
    for fld in ("cellBinX_", "cellBinY_", "binCells_"):
        ws = s["writes"].get(H + fld, [])
        if not ws:
            ok = False
            why.append("%s not written" % fld)
    wx = [u.node for _x, u in s["writes"].get(H + "cellBinX_", [])]
    for l in [x for x in walk(sb.body) if x.get("kind") == "CXXForRangeStmt"]:
        var = inner(list(inner(l))[6])[0]
        body = list(inner(l))[7]
        if loop_has_early_exit(body) or any(y.get("kind") in ("ContinueStmt", "IfStmt") for y in walk(body)):
            ok = False
            why.append("a cell of the list can be skipped")
    bw = [u.node for _x, u in s["writes"].get(H + "binCells_", [])]
    if bw and [e for e in g.dom_edges(g.node_for(bw[0])) if not e[2].from_assert and isinstance(e[1], bool)]:
        ok = False
        why.append("bin list written conditionally")
    if ok:
        rep.holds("R7b", sb.decl, sb, "setBinCells writes cellBinX_[c], cellBinY_[c] for every c and binCells_[x][y] = cells")
    else:
        rep.violation("R7b", sb.decl, sb, "setBinCells does not keep both representations in step", "; ".join(why), key="HierarchicalDensityPlacement::setBinCells|out of step")
    # ---- R7c ----
    ro = prog.func1(CQ + "DensityLegalizer::reoptimize")
    g = cfg_of(ro)
    clears = [x for x in walk(ro.body) if x.get("kind") == "CXXMemberCallExpr" and callee_info(x)["name"] == "clear" and
              "binCells_" in pretty(canon(callee_info(x)["obj"]))]
    sets = calls_to(ro, H + "setBinCells")
    sn = [g.node_for(x) for x in sets]
    # a loop over all the kept bins whose body calls setBinCells counts as a refill point as a whole
    # (the list of kept bins is non-empty there: the function returned earlier otherwise)
    for l in [x for x in walk(ro.body) if x.get("kind") in ("ForStmt", "CXXForRangeStmt")]:
        body = list(inner(l))[-1]
        if any(y.get("kind") == "CXXMemberCallExpr" and callee_info(y)["qname"] == H + "setBinCells" for y in walk(body)):
            probe = next((c for c in inner(l) if isinstance(c, dict) and c.get("kind")), l)
            empties = [gc for gc, val, _a, _b in (ctx.guards(ro, probe) or []) if gc[0] == "call" and gc[1] == "empty" and val is False]
            if empties:
                sn += [n for n in g.nodes if n.kind == "join" and n.ast is l]
    if not clears:
        rep.unknown("R7c", ro.decl, ro, "reoptimize", "clearing of the candidate bins not found")
    for c in clears:
        cn = g.node_for(c)
        if sn and g.exit.idx not in g.reachable_from([cn], avoid=sn):
            rep.holds("R7c", c, ro, "bins emptied by reoptimize are refilled (setBinCells) on every path to the exit")
        else:
            rep.violation("R7c", c, ro, "reoptimize can return after emptying bins without refilling them",
                          "cells would vanish from every bin while cellBinX_/cellBinY_ still name the old bin", key="DensityLegalizer::reoptimize|bins emptied and not refilled")
    # reallocation loops
    loops = [for_loop_info(x) for x in walk(ro.body) if x.get("kind") == "ForStmt"]
    loops = [l for l in loops if l]
    # the two reallocation loops, identified by what they do: one indexes the transport assignment, the other calls setBinCells
    def body_has(l, pred):
        return any(pred(y) for y in walk(l["body"]))
    cells_loop = [l for l in loops if l["hi"] and l["hi"][0] == "call" and l["hi"][1] == "size" and
                  body_has(l, lambda y: y.get("kind") == "CXXMemberCallExpr" and callee_info(y)["name"] == "push_back" and
                           canon(callee_info(y)["obj"])[0] == "index" and canon(callee_info(y)["obj"])[2][0] == "index")]
    bins_loop = [l for l in loops if l["hi"] and l["hi"][0] == "call" and l["hi"][1] == "size" and
                 body_has(l, lambda y: y.get("kind") == "CXXMemberCallExpr" and callee_info(y)["qname"] == H + "setBinCells")]
    if not cells_loop or not bins_loop:
        rep.unknown("R7c", ro.decl, ro, "reallocation loops", "loop filling the per-bin lists from the assignment / loop calling setBinCells not found")
        cells_loop = bins_loop = None
    okc = okb = None
    if cells_loop is not None:
      okc = cells_loop and cells_loop[0]["lo"] == ("lit", "0") and cells_loop[0]["step"] == 1 and loop_has_early_exit(cells_loop[0]["body"]) is None \
          and not any(y.get("kind") in ("ContinueStmt", "IfStmt") for y in walk(cells_loop[0]["body"]))
      okb = bins_loop and bins_loop[0]["lo"] == ("lit", "0") and bins_loop[0]["step"] == 1 and loop_has_early_exit(bins_loop[0]["body"]) is None \
          and any(callee_info(y)["qname"] == H + "setBinCells" for y in walk(bins_loop[0]["body"]) if y.get("kind") == "CXXMemberCallExpr")
    if okc is None:
        pass
    elif okc:
        rep.holds("R7c", cells_loop[0]["stmt"], ro, "every collected cell i in 0..cells.size() is put into the bin assignment[i]")
    else:
        rep.violation("R7c", ro.decl, ro, "not every collected cell is reassigned", "", key="DensityLegalizer::reoptimize|cells loop incomplete")
    if okb is None:
        pass
    elif okb:
        rep.holds("R7c", bins_loop[0]["stmt"], ro, "every bin b in 0..bins.size() receives its list through setBinCells")
    else:
        rep.violation("R7c", ro.decl, ro, "not every bin receives its list", "", key="DensityLegalizer::reoptimize|bins loop incomplete")
    # ---- R7d ----
    rb = prog.func1(CQ + "DensityLegalizer::rebisect")
    sets = calls_to(rb, H + "setBinCells")
    ins = [x for x in walk(rb.body) if x.get("kind") == "CXXMemberCallExpr" and callee_info(x)["name"] == "insert" and
           canon(callee_info(x)["obj"])[0] == "var"]
    p = [("var", q.get("id"), q.get("name")) for q in rb.params]
    bins = [(p[0], p[1]), (p[2], p[3])] if len(p) == 4 else []
    def bin_list(a, b_):
        return ("index", ("index", ("field", H + "binCells_", ("this",)), a), b_)
    srcs = []
    for x in ins:
        a1 = canon(callee_info(x)["args"][1]) if len(callee_info(x)["args"]) > 1 else ("none",)
        if a1[0] == "call" and a1[1] in ("begin", "cbegin"):
            srcs.append(a1[2])
    tg = [(canon(callee_info(x)["args"][0]), canon(callee_info(x)["args"][1])) for x in sets]
    halves = [canon(callee_info(x)["args"][2]) for x in sets]
    same_split = len(halves) == 2 and all(h[0] == "field" for h in halves) and halves[0][2] == halves[1][2] and \
        {str(halves[0][1]).split("::")[-1], str(halves[1][1]).split("::")[-1]} == {"first", "second"}
    if not bins or len(sets) != 2 or len(ins) < 2:
        rep.unknown("R7d", rb.decl, rb, "rebisect", "two inserts / two setBinCells calls not found (shape changed)")
    elif sorted(map(str, srcs)) == sorted(map(str, [bin_list(*b_) for b_ in bins])) and sorted(map(str, tg)) == sorted(map(str, bins)) and same_split:
        rep.holds("R7d", rb.decl, rb, "rebisect: the cells of both bins are split and the two halves of one split go back to the same two bins")
    else:
        rep.violation("R7d", rb.decl, rb, "rebisect does not redistribute exactly the two bins' cells to those bins",
                      "sources %s; targets %s; halves %s" % ([pretty(x) for x in srcs], [(pretty(a), pretty(b_)) for a, b_ in tg], [pretty(h) for h in halves]),
                      key="DensityLegalizer::rebisect|redistribution")
    # ---- G14 ----
    ctor = [f for f in prog.func(H + "HierarchicalDensityPlacement") if len(f.params) == 2 and "vector" in qt(f.params[1])]
    if len(ctor) != 1:
        rep.unknown("G14", "-", None, "constructor", "not found")
    else:
        c = ctor[0]
        pushes = [x for x in walk(c.body) if x.get("kind") == "CXXMemberCallExpr" and callee_info(x)["name"] == "push_back" and
                  canon(callee_info(x)["obj"])[0] == "var" and "vector<int>" in qt(callee_info(x)["obj"])]
        good = False
        if not pushes:
            rep.unknown("G14", c.decl, c, "initial allocation", "list of initially allocated cells not found (shape changed)")
            pushes = None
        for x in (pushes or []):
            guards = ctx.guards(c, x) or []
            for gc, val, _a, _b in guards:
                if gc[0] == "bin" and gc[1] == ">" and "cellDemand_" in pretty(gc[2]) and gc[3][0] == "lit" and str(gc[3][1]).startswith("0") and val is True:
                    good = True
        if pushes is None:
            pass
        elif good:
            rep.holds("G14", pushes[0], c, "initial bin receives exactly the cells with cellDemand_[c] > 0")
        else:
            rep.violation("G14", c.decl, c, "initial allocation is not filtered by positive demand", "", key="HierarchicalDensityPlacement::HierarchicalDensityPlacement|initial filter")
    # ---- TW ----
    for qa, qb in (("refineX", "refineY"), ("coarsenX", "coarsenY")):
        a, b = prog.func1(H + qa), prog.func1(H + qb)
        ba = {swap_axis(k): v for k, v in name_bag(a).items()}
        bb = name_bag(b)
        if ba == bb:
            rep.holds("TW", a.decl, a, "%s mirrors %s" % (qa, qb))
        else:
            diff = ["%s: %d vs %d" % (k, ba.get(k, 0), bb.get(k, 0)) for k in sorted(set(ba) | set(bb)) if ba.get(k, 0) != bb.get(k, 0)]
            rep.violation("TW", b.decl, b, "%s is not the X<->Y image of %s" % (qb, qa), "; ".join(diff[:6]), key="%s|differs from twin" % qb)


def _is_whole(x):
    p = x.get("_p")
    while p is not None and p.get("kind") in ("ImplicitCastExpr", "ParenExpr"):
        p = p.get("_p")
    if p is None:
        return True
    if p.get("kind") == "CXXOperatorCallExpr" and callee_info(p)["name"] == "operator[]":
        return False
    return True
