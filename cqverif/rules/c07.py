"""C07 — placement calls return or throw; never crash or invoke undefined behaviour (structural clauses).

M1   no product evaluated in 32-bit int and widened to 64 bits afterwards (producer contradicts consumer)
M2   no 64-bit cost / area / demand narrowed to int implicitly: results of library functions (two listed exceptions) and
     any other long long expression (listed exceptions; a remainder modulo an int is accepted)
M3   inventory of 32-bit products of two non-constant operands: each is listed with a bound argument
M4   std::accumulate-style folds use an initial value at least as wide as the elements they add up
AS   stated beliefs: an assert(a != b) contradicts the function's own handling of a sentinel when both a and b are tested
     against the same literal elsewhere in the function (both may hold it at once), unless the assert admits that case
PF   parameter forwarding: when a field of a *Parameters struct is copied into another struct that has a field of the same
     name, it is copied into that field (the step / overlap bounds that make the reoptimisation strides non-zero are validated
     on the user-facing names)
DI   definite initialisation of the placement vectors of GlobalPlacer: a member vector that a step of run() reads has been
     assigned on *every* path before (by the constructor or by an earlier step, not inside a loop that may run zero times)
VB   validate before commit: in a member function (not a constructor) a throwing test that reads member M is not reachable
     from a write of M in the same function - otherwise the test sees the new value (it compares it with itself) and a rejected
     call has already changed the object
DE   a member that memoises a function of other members of the same object (assigned only from an argument-less const
     method, or initialised from constructor arguments that are also stored) is re-derived by every writer of those members
FP   the reoptimisation strides `size - overlap` are non-zero because check() validates overlap < size *per family*: wherever a
     ...ReoptSize meets a ...ReoptOverlap (operands of one operator, arguments of one call) both belong to the same family
SW   an argument read from a parameter struct (`params.sideMargin`) is not passed in the slot of another parameter of the same type
     that carries exactly its name while the slot of that parameter receives something else (exchanged arguments)
DZ   a cell dimension (may be zero) never becomes an integer divisor, locally or through call arguments, without a dominating
     positivity test
E1   'last element' indices: size()-1 evaluated unsigned without a non-emptiness guard; a function that can
     return size()-1 == -1 for an empty container must not feed a subscript
E2   loops with a computed step: the step is provably non-zero (or listed with the reason)
"""
import json
import os
import re as _re

from ..frontend import VERIF, AnalysisBroken
from ..model import Program, qt, loc_str, walk, inner
from ..expr import canon, pretty, children, strip, callee_info, subterms, CALL_KINDS
from ..cfg import cfg_of
from ..effects import Effects
from ..intervals import env_at, eval_int, TOP
from .common import CQ, short, for_loop_info, var_write_nodes, expand_locals

EXPLANATION = (
    "Static checks on the clang-resolved AST of every library unit for the clauses of C07 that are visible in code shape. "
    "M1: a `*` whose type is 32-bit int and whose value is implicitly converted to a 64-bit integer (or combined with one) is a "
    "contradiction between producer and consumer -- the consumer's type states the value may exceed 32 bits. M2: an implicit "
    "conversion of the long long result of a library function (costs, areas, norms) to int. M3: every int*int product with two "
    "non-constant operands must be listed in rules/c07.json with a bound argument; a product that is not listed is reported. "
    "E1: `c.size() - k` evaluated in an unsigned type and used as a bound/index without a dominating non-emptiness test; and an "
    "interprocedural may-be-minus-one taint from functions that return `size() - 1` without an emptiness guard to vector "
    "subscripts. DZ: forward may-be-zero taint from the Circuit's per-cell width / height vectors to integer divisors, through locals, "
    "min/products, call and constructor arguments, sanitised by edge-dominating positivity tests. E2: for-loops stepping by a computed amount need a step that interval evaluation under the dominating guards "
    "proves non-zero, or a listed reason. M1/M2/AS/VB/DZ/E1/E2 have positive controls in selftest/c07_controls.cpp.")

DECLINED = ["out-of-bounds freedom of arbitrary subscripts, assertion unreachability and division by zero other than by a cell dimension "
            "(no abstract interpreter in the image can ingest these units; goto-cc fails on libstdc++)",
            "termination of the numerical iterations beyond the structural step rule",
            "optimality-related asserts in the transportation self-checks"]


def des(n):
    return (n.get("type") or {}).get("desugaredQualType") or qt(n)


I64 = ("long long", "long", "const long long", "const long")
U64 = ("unsigned long", "unsigned long long", "size_t", "std::size_t", "std::vector::size_type", "const unsigned long")


def run(ctx, rep, tier):
    cfgd = json.load(open(os.path.join(VERIF, "rules", "c07.json")))
    rep.rule("M1", "no int*int product widened to 64 bits after the multiplication (expected count 0)", 0)
    rep.rule("M2", "no 64-bit cost/area/demand implicitly narrowed to int (listed exceptions)", 4)
    rep.rule("M3", "every 32-bit product of two non-constant operands is listed with a bound argument", 5)
    rep.rule("M4", "fold accumulators are as wide as the elements", 3)
    rep.rule("AS", "no assert(a != b) that excludes a sentinel value both a and b are allowed to take (expected count 0)", 0)
    rep.rule("PF", "same-named parameter fields are forwarded to each other", 8)
    rep.rule("DI", "placement vectors of the global placer are assigned on every path before a step reads them", 2)
    rep.rule("VB", "no throwing validation of a member after that member was overwritten in the same function (expected count 0)", 0)
    rep.rule("DE", "memoised members (derived from other members) are re-derived by every writer of their inputs (expected count 0)", 0)
    rep.rule("FP", "window size and overlap of the rough-legalization passes are always taken from the same family (line / diag / square)", 6)
    rep.rule("SW", "no parameter-struct member is passed in the slot of a differently named parameter that has its name (expected count 0)", 0)
    rep.rule("DZ", "no cell dimension (which may be zero) reaches an integer divisor without a positivity test (expected count 0)", 0)
    rep.rule("MC", "the matrix stamping primitives are called only with cells tested against -1 (the fixed pin of a net)", 3)
    rep.rule("EV", "no element of a vector is read at a point where nothing can have filled it yet (front / back / at / [] on a container that is still empty)", 12)
    rep.rule("E1", "size()-1 style last-element indices are guarded against the empty container", 1)
    rep.rule("E2", "computed loop steps are provably non-zero or listed", 5)
    rep.rule("CTRL", "positive controls (selftest/c07_controls.cpp)", 4)
    scan(ctx, ctx.prog, rep, cfgd, control=False)
    from .common import check_accumulators
    if check_accumulators(ctx, rep, "M4", list(ctx.prog.all_funcs(with_lambdas=False))) == 0:
        rep.unknown("M4", None, None, "accumulate calls", "none found")
    # positive controls
    ctl = Program.from_files([os.path.join(VERIF, "selftest", "c07_controls.cpp")])

    class Sink:
        def __init__(self):
            self.v = []
            self.extra = {}

        def holds(self, *a, **k):
            pass

        def note(self, *a):
            pass

        def unknown(self, rid, node, func, what, reason):
            self.v.append((rid, what))

        def violation(self, rid, node, func, what, reason, key=None):
            self.v.append((rid, what))

    from ..core import SubCtx
    sink = Sink()
    scan(SubCtx(ctl, Effects(ctl)), ctl, sink, {"products_32bit": {}, "narrowing_exceptions": {}, "narrowings_64_to_32": {}, "loop_steps": {}}, control=True)
    for rid, n in (("M1", 1), ("M2", 1), ("AS", 1), ("VB", 1), ("DE", 1), ("SW", 1), ("DZ", 2), ("E1", 2), ("E2", 1)):
        got = sum(1 for r, _w in sink.v if r == rid)
        if got >= n:
            rep.holds("CTRL", "selftest/c07_controls.cpp", None, "rule %s reports its %d seeded control(s)" % (rid, n), "%d reported" % got)
        else:
            rep.unknown("CTRL", "selftest/c07_controls.cpp", None, "rule %s positive control" % rid, "expected >= %d reports, got %d" % (n, got))


def shape(f, c):
    """Canonical form with local variables and parameters replaced by their type: inventory keys survive renames."""
    if not isinstance(c, tuple):
        return c
    if c and c[0] == "var":
        d = f.unit.by_id.get(c[1]) if f is not None else None
        t = (des(d) if d is not None else "?") or "?"
        return ("var", "0", "<%s>" % _resolve_alias(f, _plain_type(t)))
    if c and c[0] == "elem" and len(c) >= 2 and isinstance(c[1], tuple) and c[1] and c[1][0] == "var":
        # the element of a local container: keyed by the element type, however the element is reached (range-for variable,
        # lambda parameter of a standard algorithm, iterator)
        d = f.unit.by_id.get(c[1][1]) if f is not None else None
        t = _plain_type((des(d) if d is not None else "?") or "?")
        m = _re.match(r"^std::vector<(.*)>$", t)
        if m:
            inner_t = m.group(1).strip()
            if inner_t.endswith(", std::allocator<%s>" % inner_t.split(", std::allocator<")[0]):
                inner_t = inner_t.split(", std::allocator<")[0]
            return ("var", "0", "<%s>" % inner_t)
    return tuple(shape(f, x) if isinstance(x, tuple) else x for x in c)


def _resolve_alias(f, t):
    """A local `using Entry = std::pair<...>;` leaves the alias name in the (non-desugared) type of a reference parameter."""
    if f is None or not _re.match(r"^[A-Za-z_]\w*$", t):
        return t
    al = getattr(f.unit, "_aliases", None)
    if al is None:
        al = f.unit._aliases = {}
        for d in f.unit.by_id.values():
            if d.get("kind") in ("TypeAliasDecl", "TypedefDecl") and d.get("name"):
                ty = d.get("type") or {}
                al.setdefault(d["name"], set()).add(_plain_type(ty.get("desugaredQualType") or ty.get("qualType") or ""))
    c = al.get(t) or set()
    return next(iter(c)) if len(c) == 1 else t


def _plain_type(t):
    t = t.strip()
    if t.startswith("const "):
        t = t[6:]
    return t.rstrip("&").strip()


def skey(f, c):
    return "%s|%s" % (f.short, pretty(shape(f.outer if hasattr(f, "outer") else f, c)))


def scan(ctx, prog, rep, cfgd, control):
    seen = set()
    n_prod = n_narrow = 0
    used_products = set()
    for f in prog.all_funcs(with_lambdas=False):
        for x in walk(f.body):
            k = x.get("kind")
            if k == "ImplicitCastExpr" and x.get("castKind") == "IntegralCast":
                src = children(x)[0]
                ts, td = des(src).replace("const ", ""), des(x).replace("const ", "")
                key = (loc_str(x), pretty(canon(src))[:80])
                if key in seen:
                    continue
                # M1
                if td in I64 and ts == "int":
                    s = strip(src)
                    if s.get("kind") == "BinaryOperator" and s.get("opcode") == "*":
                        a, b = [canon(c) for c in children(s)]
                        if not (a[0] == "lit" and b[0] == "lit"):
                            seen.add(key)
                            rep.violation("M1", s, f, "%s evaluated in int, then widened to %s" % (pretty(canon(s))[:80], td),
                                          "the 64-bit consumer says the value can exceed 32 bits; the multiplication overflows first (signed overflow is UB)",
                                          key="%s|int product widened: %s" % (f.short, pretty(canon(s))[:60]))
                # M2
                if td == "int" and ts in I64:
                    s = strip(src)
                    if s.get("kind") in CALL_KINDS:
                        ci = callee_info(s)
                        d = ci.get("decl") if ci else None
                        if d is not None and (d.get("_q", "").startswith(CQ) or control):
                            seen.add(key)
                            n_narrow += 1
                            ek = skey(f, canon(s))
                            ck = "*|" + short(ci["qname"])
                            if ek in cfgd["narrowing_exceptions"] or ck in cfgd["narrowing_exceptions"]:
                                rep.holds("M2", x, f, "listed narrowing of %s" % pretty(canon(s)),
                                          cfgd["narrowing_exceptions"].get(ek) or cfgd["narrowing_exceptions"][ck])
                            else:
                                rep.violation("M2", x, f, "%s result of %s narrowed to int" % (ts, pretty(canon(s))[:70]),
                                              "costs and areas are computed in 64 bits because they exceed 2^31 at the supported magnitudes",
                                              key="%s|narrowed %s" % (f.short, short(ci["qname"])))
                    elif ts in ("long long", "const long long") and canon(s)[0] != "lit" and \
                            (x.get("_p") or {}).get("kind") not in ("CXXStaticCastExpr", "CStyleCastExpr", "CXXFunctionalCastExpr"):
                        # any other implicit 64 -> 32 bit narrowing of a signed quantity
                        seen.add(key)
                        n_narrow += 1
                        ek = skey(f, canon(s))
                        uk = "%s|%s" % (os.path.basename(f.unit.name), ek.split("|", 1)[1])
                        if uk in cfgd.get("narrowings_64_to_32", {}):
                            ek = uk
                        sc = strip(s)
                        if sc.get("kind") == "BinaryOperator" and sc.get("opcode") == "%" and des(strip(children(sc)[1])).replace("const ", "") == "int":
                            rep.holds("M2", x, f, "narrowing of %s" % pretty(canon(s))[:60], "a remainder modulo an int fits an int")
                        elif ek in cfgd.get("narrowings_64_to_32", {}):
                            rep.holds("M2", x, f, "listed narrowing of %s" % pretty(canon(s))[:60], cfgd["narrowings_64_to_32"][ek])
                        else:
                            rep.violation("M2", x, f, "%s value %s implicitly narrowed to int" % (ts, pretty(canon(s))[:70]),
                                          "the value is held in 64 bits because it can exceed 2^31 at the supported magnitudes (demands, capacities, "
                                          "costs, areas); the narrowed copy wraps", key="%s|implicit narrowing of %s" % (f.short, pretty(shape(f, canon(s)))[:60]))
            # M3
            if k == "BinaryOperator" and x.get("opcode") == "*" and des(x) == "int":
                a, b = [canon(c) for c in children(x)]
                if a[0] == "lit" or b[0] == "lit":
                    continue
                key = (loc_str(x), pretty(canon(x)))
                if key in seen:
                    continue
                seen.add(key)
                n_prod += 1
                if control:
                    continue
                pk = skey(f, canon(x))
                if pk in cfgd["products_32bit"]:
                    used_products.add(pk)
                    rep.holds("M3", x, f, "product %s" % pretty(canon(x)), cfgd["products_32bit"][pk])
                else:
                    rep.violation("M3", x, f, "32-bit product %s of two non-constant operands" % pretty(canon(x)),
                                  "not in the triaged inventory (rules/c07.json): at coordinates up to 2^22 a product of two such "
                                  "quantities exceeds 2^31 unless a bound argument exists",
                                  key="%s|untriaged product %s" % (f.short, pretty(canon(x))[:60]))
    if hasattr(rep, "extra"):
        rep.extra["int_products_examined"] = n_prod
        rep.extra["narrowing_conversions_examined"] = n_narrow
    if not control and not any(i["rule"] == "M1" for i in rep.instances):
        rep.holds("M1", "src/**", None, "no int product widened afterwards", "%d functions scanned" % len(prog.funcs))
    check_as(ctx, prog, rep, control)
    check_vb(ctx, prog, rep, control)
    if not control:
        check_pf(ctx, prog, rep)
        check_di(ctx, prog, rep)
    check_dz(ctx, prog, rep, control)
    from .common import swapped_arguments
    sw = swapped_arguments(ctx, list(prog.all_funcs(with_lambdas=True)))
    for x_, f_, t_ in sw:
        rep.violation("SW", x_, f_, t_, "two parameters of one type received each other's value: e.g. the side margin (no lower bound in the parameter "
                      "check) used as bin-size factor gives a bin size of 0 and a division by zero", key="%s|argument in a neighbouring parameter's slot" % f_.short)
    if not control and not sw:
        rep.holds("SW", "src/**", None, "every parameter-struct member handed to a library function goes to the parameter it is named after, or to an unrelated one")
    if not control:
        from .common import check_family_pairing
        if check_family_pairing(ctx, rep, "FP", list(prog.all_funcs(with_lambdas=False)), CQ + "RoughLegalizationParameters") == 0:
            rep.unknown("FP", None, None, "size / overlap pairs", "no place where a window size meets an overlap was found (shape changed)")
    if not control:
        # MC: the stamping primitives index rhs_, hasNonZero_ and the matrix with their cell arguments; a pin's cell is -1 for the fixed pin
        # of a net. Only the dispatcher addPin (which tests both cells against -1) may call them, or a caller that has tested the cell.
        n_mc = 0
        prim = {CQ + "MatrixCreator::addMovingPin": 2, CQ + "MatrixCreator::addFixedPin": 1}
        for f_ in prog.all_funcs(with_lambdas=True):
            if f_.body is None:
                continue
            for y_ in walk(f_.body):
                if y_.get("kind") != "CXXMemberCallExpr" or callee_info(y_)["qname"] not in prim:
                    continue
                n_mc += 1
                nargs = prim[callee_info(y_)["qname"]]
                cells_ = [canon(a_) for a_ in callee_info(y_)["args"][:nargs]]
                gs_ = []
                for gc, val, _a, _b in (ctx.guards(f_, y_, derived=True) or []):
                    if gc[0] == "bin" and gc[1] == "!=" and isinstance(val, bool):
                        gc, val = ("bin", "==", gc[2], gc[3]), not val           # one spelling for (in)equalities
                    gs_.append((gc, val, _a, _b))
                bad_ = []
                for c_ in cells_:
                    ok_ = False
                    for gc, val, _a, _b in gs_:
                        if gc[0] == "bin" and gc[2] == c_ and ((gc[1] == "==" and val is False and gc[3] in (("lit", "-1"), ("un", "-", ("lit", "1")))) or
                                                              (gc[1] == ">=" and val is True and gc[3] == ("lit", "0")) or
                                                              (gc[1] == "<" and val is False and gc[3] == ("lit", "0")) or
                                                              (gc[1] == "!=" and val is True and gc[3] in (("lit", "-1"), ("un", "-", ("lit", "1"))))):
                            ok_ = True
                    # c_ differs from another value that is itself -1: `if (c1 == c2) return; if (c1 == -1) addFixedPin(c2, ...)`
                    m1 = (("lit", "-1"), ("un", "-", ("lit", "1")))
                    for gc, val, _a, _b in gs_:
                        if gc[0] == "bin" and gc[1] == "==" and val is False and c_ in (gc[2], gc[3]):
                            other = gc[3] if gc[2] == c_ else gc[2]
                            if any(g2[0] == "bin" and g2[1] == "==" and v2 is True and g2[2] == other and g2[3] in m1 for g2, v2, _x, _y in gs_):
                                ok_ = True
                    # a loop counter started at a non-negative literal and only incremented
                    if c_[0] == "var":
                        d_ = f_.unit.by_id.get(c_[1])
                        pd_ = (d_ or {}).get("_p") or {}
                        if pd_.get("kind") == "DeclStmt" and (pd_.get("_p") or {}).get("kind") == "ForStmt":
                            li_ = for_loop_info(pd_.get("_p"))
                            if li_ and li_.get("step") == 1 and li_["lo"][0] == "lit" and not str(li_["lo"][1]).startswith("-"):
                                ok_ = True
                    src_ = expand_locals(ctx, f_, c_)
                    if src_[0] == "call" and str(src_[1]).endswith("::addCell"):
                        ok_ = True                               # a freshly created star node
                    if not ok_:
                        bad_.append(c_)
                what_ = "%s calls %s(%s)" % (f_.short, callee_info(y_)["name"], ", ".join(pretty(c_)[:20] for c_ in cells_))
                if bad_:
                    rep.violation("MC", y_, f_, what_, "cell argument %s is not known to be a real cell (>= 0) there: a pin of a net is on cell -1 when it is the net's fixed "
                                  "pin, and the primitive indexes rhs_ / hasNonZero_ / the matrix with it (addPin dispatches on -1)" % ", ".join(pretty(c_)[:20] for c_ in bad_),
                                  key="%s|stamping primitive called with an untested cell" % f_.short)
                else:
                    rep.holds("MC", y_, f_, what_, "every cell argument tested against -1 / created by addCell()")
        if n_mc == 0:
            rep.unknown("MC", None, None, "MatrixCreator::addMovingPin / addFixedPin", "no call found (shape changed)")
    if not control:
        from .common import check_empty_reads
        nobj, nel = check_empty_reads(ctx, rep, "EV", [f_ for f_ in prog.all_funcs(with_lambdas=False) if f_.body is not None])
        if nel == 0:
            rep.unknown("EV", None, None, "vectors that start empty", "none read by element found (shape changed)")
    from .common import check_eager_derived
    n_de = check_eager_derived(ctx, rep, "DE")
    if not control and n_de == 0:
        rep.holds("DE", "src/**", None, "no member of a library class is a memoised function of other members of its object", "%d classes examined" % len(prog.records))
    check_e1(ctx, prog, rep, control)
    check_e2(ctx, prog, rep, cfgd, control)


# ---- DZ ---------------------------------------------------------------------------------

DZ_SOURCE_FIELDS = ("cellWidth_", "cellHeight_")
DZ_INT = ("int", "long", "long long", "unsigned int", "unsigned long", "unsigned long long", "size_t", "short", "char")


def _facts(c, val, out):
    if c[0] == "un" and c[1] == "!":
        return _facts(c[2], not val, out)
    if c[0] == "bin" and ((c[1] == "&&" and val) or (c[1] == "||" and not val)):
        _facts(c[2], val, out)
        _facts(c[3], val, out)
        return
    out.append((c, val))


def positive_guarded(ctx, f, node, ec):
    """Is the evaluation of `node` edge-dominated by a test that the expression with canonical form ec is non-zero / positive?"""
    owner = ctx.eff.func_of_node(node) or f
    facts = []
    for gc, val, _a, _b in (ctx.guards(owner, node) or []):
        _facts(gc, val, facts)
    flip = {"<": ">", "<=": ">=", ">": "<", ">=": "<=", "==": "==", "!=": "!="}
    for c, val in facts:
        if c == ec and val:
            return True
        if c[0] != "bin" or c[1] not in flip:
            continue
        op, a, b = c[1], c[2], c[3]
        if b == ec and a[0] == "lit":
            op, a, b = flip[op], b, a
        if a != ec or b[0] != "lit":
            continue
        try:
            k = float(b[1])
        except (TypeError, ValueError):
            continue
        if (op == ">" and k >= 0 and val) or (op == ">=" and k > 0 and val) or (op == "!=" and k == 0 and val) or \
           (op == "==" and k == 0 and not val) or (op == "<=" and k >= 0 and not val) or (op == "<" and k > 0 and not val):
            return True
    return False


def check_dz(ctx, prog, rep, control):
    """DZ. A cell dimension may be zero (zero-size terminals are part of the property's domain). A value read from the
    Circuit's per-cell width / height vectors (an element, the minimum over the vector, a range-for variable, an accessor that
    returns one), or a product / minimum with such a value, must not become the divisor of an integer division or remainder -
    in the same function or through call arguments - unless a dominating test shows it positive."""
    src_fields = tuple(CQ + "Circuit::" + n for n in DZ_SOURCE_FIELDS) if not control else None

    def is_src_field(c):
        if c[0] != "field":
            return False
        if control:
            return c[1].endswith("::dims")
        return c[1] in src_fields

    def mentions_src(e):
        return any(is_src_field(t) for t in subterms(canon(e)) if isinstance(t, tuple) and t and t[0] == "field")

    returns_tainted = {}     # func key -> path
    tainted_params = {}      # (func key, index) -> path
    reports = {}

    def analyse(f, params):
        tv = {}
        for i, path in params.items():
            if i < len(f.params):
                tv[f.params[i].get("id")] = path

        def tainted(e):
            s = strip(e, casts=True)
            k = s.get("kind")
            if k is None:
                return None
            c = canon(s)
            if positive_guarded(ctx, f, s, c):
                return None
            if k == "DeclRefExpr":
                return tv.get((s.get("referencedDecl") or {}).get("id"))
            if k in ("CXXOperatorCallExpr", "ArraySubscriptExpr"):
                ci = callee_info(s) if k == "CXXOperatorCallExpr" else None
                if ci and ci["name"] == "operator[]" and ci["obj"] is not None and is_src_field(canon(ci["obj"])):
                    return "element of " + pretty(canon(ci["obj"]))
                if ci and ci["name"] == "operator*" and ci["obj"] is not None:
                    return tainted(ci["obj"])
                return None
            if k == "UnaryOperator" and s.get("opcode") in ("*", "-", "+"):
                return tainted(children(s)[0])
            if k == "BinaryOperator" and s.get("opcode") == "*":
                for ch in children(s):
                    t = tainted(ch)
                    if t:
                        return t + " (times something)"
                return None
            if k == "ConditionalOperator":
                ch = children(s)
                return tainted(ch[1]) or tainted(ch[2])
            if k in ("CallExpr", "CXXMemberCallExpr"):
                ci, fs = ctx.eff.resolve_callee(s)
                if ci is None:
                    return None
                if ci["name"] in ("min", "max") and not ci["is_member"] and len(ci["args"]) >= 2:
                    ts = [tainted(a) for a in ci["args"][:2]]
                    if ci["name"] == "min":
                        return next((t for t in ts if t), None)
                    return ts[0] if all(ts) else None
                if ci["name"] == "min_element" and not ci["is_member"] and ci["args"] and mentions_src(ci["args"][0]):
                    return "minimum over " + pretty(canon(ci["args"][0]))[:40]
                for g in fs:
                    if g.key in returns_tainted:
                        return "%s() returns %s" % (g.short, returns_tainted[g.key])
            return None

        for _round in range(5):
            changed = False
            nodes = list(walk(f.body)) if f.body is not None else []
            for x in nodes:
                k = x.get("kind")
                if k == "VarDecl" and x.get("id") not in tv and children(x):
                    t = tainted(children(x)[-1])
                    if t:
                        tv[x.get("id")] = t + " -> " + str(x.get("name"))
                        changed = True
                elif k == "BinaryOperator" and x.get("opcode") == "=":
                    l, r = children(x)
                    ls = strip(l)
                    if ls.get("kind") == "DeclRefExpr":
                        vid = (ls.get("referencedDecl") or {}).get("id")
                        if vid not in tv:
                            t = tainted(r)
                            if t:
                                tv[vid] = t + " -> " + str((ls.get("referencedDecl") or {}).get("name"))
                                changed = True
                elif k == "CXXForRangeStmt":
                    lv = [c for c in walk(x) if c.get("kind") == "VarDecl" and not str(c.get("name", "")).startswith("__")]
                    rng = [c for c in walk(x) if c.get("kind") == "VarDecl" and str(c.get("name", "")).startswith("__range")]
                    if lv and rng and lv[0].get("id") not in tv and children(rng[0]) and is_src_field(canon(strip(children(rng[0])[-1], casts=True))):
                        tv[lv[0].get("id")] = "element of %s -> %s" % (pretty(canon(strip(children(rng[0])[-1], casts=True))), lv[0].get("name"))
                        changed = True
            if not changed:
                break
        out_params = []
        roots = ([f.body] if f.body is not None else []) + list(getattr(f, "ctor_inits", []) or [])
        for root in roots:
            for x in walk(root):
                k = x.get("kind")
                if k in ("BinaryOperator", "CompoundAssignOperator") and x.get("opcode") in ("/", "%", "/=", "%="):
                    if des(x).replace("const ", "") not in DZ_INT:
                        continue
                    dv = children(x)[1]
                    if des(strip(dv)).replace("const ", "") not in DZ_INT and des(dv).replace("const ", "") not in DZ_INT:
                        continue
                    t = tainted(dv)
                    if t:
                        reports.setdefault((f.key, pretty(canon(x))[:60]), (x, f, t))
                elif k == "ReturnStmt" and children(x) and f.key not in returns_tainted and not params:
                    t = tainted(children(x)[0])
                    if t:
                        returns_tainted[f.key] = t
                if k in CALL_KINDS:
                    ci, fs = ctx.eff.resolve_callee(x)
                    if not ci or not fs:
                        continue
                    for i, a in enumerate(ci["args"]):
                        t = tainted(a)
                        if t:
                            for g in fs:
                                if i < len(g.params) and (g.key, i) not in tainted_params:
                                    tainted_params[(g.key, i)] = t + " -> %s(%s)" % (g.short, g.params[i].get("name"))
                                    out_params.append(g)
        return out_params

    funcs = [f for f in prog.all_funcs(with_lambdas=True)]
    # returns first (two rounds: accessors that forward accessors), then everything
    for _r in range(2):
        for f in funcs:
            analyse(f, {})
    work = [g for g in funcs if any(k[0] == g.key for k in tainted_params)]
    done = {}
    while work:
        g = work.pop()
        ps = {i: p for (k, i), p in tainted_params.items() if k == g.key}
        if done.get(g.key) == set(ps):
            continue
        done[g.key] = set(ps)
        work += analyse(g, ps)
    for (fk, what), (x, f, t) in sorted(reports.items(), key=lambda kv: kv[0]):
        rep.violation("DZ", x, f, "integer division %s: the divisor derives from a cell dimension (%s)" % (what, t[:160]),
                      "cell dimensions may be zero (zero-size terminals) and no dominating test shows the divisor positive: division by zero",
                      key="%s|divisor from a cell dimension: %s" % (f.short, skey(f, canon(children(x)[1]))))
    if hasattr(rep, "extra"):
        rep.extra["dz_tainted_parameters"] = len(tainted_params)
        rep.extra["dz_functions_returning_a_dimension"] = len(returns_tainted)
    if not control and not reports:
        if not returns_tainted:
            rep.unknown("DZ", None, None, "cell-dimension sources", "no accessor returning a cell dimension recognised (shape changed)")
        else:
            rep.holds("DZ", "src/**", None, "no cell dimension reaches an integer divisor without a positivity test",
                      "%d accessors return a dimension, %d parameters receive one" % (len(returns_tainted), len(tainted_params)))


# ---- E1 ---------------------------------------------------------------------------------

def size_minus(c):
    """If c is `<size expr> - <positive literal>` return the canonical container/size expression."""
    if c[0] == "bin" and c[1] == "-" and c[3][0] == "lit":
        try:
            k = int(str(c[3][1]).rstrip("uUlL"))
        except ValueError:
            return None
        if k >= 1:
            return c[2]
    return None


def container_of_size(prog, c, depth=0):
    """Canonical container whose size the expression denotes: v.size(), or a member function returning v.size()."""
    if c[0] == "call" and c[1] == "size" and len(c) >= 3:
        return c[2]
    if c[0] == "call" and depth < 2:
        for g in prog.funcs_by_q.get(c[1], []):
            rets = [x for x in walk(g.body) if x.get("kind") == "ReturnStmt"]
            if len(rets) == 1 and children(rets[0]):
                rc = canon(children(rets[0])[0])
                if rc[0] == "call" and rc[1] == "size":
                    return rc[2]
    return None


def nonempty_guard(ctx, f, node, cont, prog):
    """Is `node` edge-dominated by a test that container `cont` is not empty?"""
    guards = ctx.guards(f, node) or []
    for gc, val, _a, _b in guards:
        if gc[0] == "call" and gc[1] == "empty" and gc[2] == cont and val is False:
            return True
        if gc[0] == "bin" and gc[1] in ("==", "!=", ">", ">=", "<", "<="):
            for a, b, op in ((gc[2], gc[3], gc[1]), (gc[3], gc[2], {"<": ">", ">": "<", "<=": ">=", ">=": "<=", "==": "==", "!=": "!="}[gc[1]])):
                ca = container_of_size(prog, a)
                if ca == cont and b[0] == "lit":
                    try:
                        k = int(str(b[1]).rstrip("uUlL"))
                    except ValueError:
                        continue
                    if (op == ">" and k >= 0 and val) or (op == ">=" and k >= 1 and val) or (op == "!=" and k == 0 and val) or \
                       (op == "==" and k == 0 and not val) or (op == "<" and k == 1 and not val) or (op == "<=" and k == 0 and not val):
                        return True
    return False


def check_e1(ctx, prog, rep, control):
    n = 0
    sources = {}
    for f in prog.all_funcs(with_lambdas=False):
        for x in walk(f.body):
            if x.get("kind") != "BinaryOperator" or x.get("opcode") != "-":
                continue
            c = canon(x)
            sz = size_minus(c)
            if sz is None:
                continue
            cont = container_of_size(prog, sz)
            if cont is None:
                continue
            n += 1
            owner = ctx.eff.func_of_node(x) or f
            t = des(x)
            # (a) unsigned evaluation, not immediately converted to a signed type
            if t in U64 or t.startswith("unsigned") or "size_type" in t:
                p = x.get("_p")
                while p is not None and p.get("kind") in ("ParenExpr",):
                    p = p.get("_p")
                to_signed = p is not None and p.get("kind") in ("ImplicitCastExpr", "CStyleCastExpr", "CXXStaticCastExpr") and \
                    des(p).replace("const ", "").strip() in ("int", "long", "long long")
                if not to_signed and not nonempty_guard(ctx, owner, x, cont, prog):
                    if p is not None and p.get("kind") == "CXXMemberCallExpr" or (p is not None and p.get("kind") == "ImplicitCastExpr" and "float" in des(p)):
                        pass
                    ek = "%s|%s" % (owner.short, pretty(c))
                    if ek == "Circuit::setNets|(netLimits_.size() - 1)":
                        rep.holds("E1", x, owner, "unsigned %s" % pretty(c), "listed: netLimits_ was just assigned from `limits`, checked non-empty above")
                    else:
                        rep.violation("E1", x, owner, "unsigned %s without a non-emptiness guard" % pretty(c),
                                      "wraps to 2^64-1 when the container is empty", key="%s|unsigned %s" % (owner.short, pretty(c)))
            # (b) returned as a value that may be -1
            p = x.get("_p")
            while p is not None and p.get("kind") in ("ParenExpr", "ImplicitCastExpr", "CStyleCastExpr"):
                p = p.get("_p")
            if p is not None and p.get("kind") == "ReturnStmt" and not nonempty_guard(ctx, owner, x, cont, prog):
                sources.setdefault(owner.key, (owner, x, cont))
    # size accessors themselves (nbNets() = size()-1, ...) are counts, not indices: only flag when the -1 reaches a subscript
    flows = minus_one_taint(ctx, prog, sources)
    for (owner, x, cont), sink in flows:
        rep.violation("E1", x, owner, "%s can return -1 (empty %s) and the value reaches the subscript %s" % (owner.short, pretty(cont), sink[0]),
                      "via %s; out-of-bounds read when the container is empty" % sink[1],
                      key="%s|returns size-1 of an empty container into a subscript" % owner.short)
    # (c) functions that answer "none" with a literal -1: the sentinel must be tested before it is used as an index
    lit_sources = {}
    for f in prog.all_funcs(with_lambdas=False):
        if f.body is None or f.key in sources:
            continue
        for x in walk(f.body):
            if x.get("kind") == "ReturnStmt" and children(x):
                rc = canon(children(x)[0])
                if rc in (("lit", "-1"), ("un", "-", ("lit", "1")), ("lit", -1)) or (rc[0] == "un" and rc[1] == "-" and rc[-1][0] == "lit" and str(rc[-1][1]) == "1"):
                    lit_sources.setdefault(f.key, (f, x, ("lit", "none")))
    n_lit = len(lit_sources)
    for (owner, x, cont), sink in minus_one_taint(ctx, prog, lit_sources):
        rep.violation("E1", x, owner, "%s answers -1 for 'none' and the value reaches the subscript %s untested" % (owner.short, sink[0]),
                      "via %s; out-of-bounds read on the path where nothing is found" % sink[1],
                      key="%s|-1 sentinel reaches a subscript" % owner.short)
    if not control:
        rep.holds("E1", "src/**", None, "functions returning a literal -1 examined: the sentinel reaches no subscript untested", "%d" % n_lit)
    if not control and not any(i["rule"] == "E1" for i in rep.instances):
        rep.holds("E1", "src/**", None, "every size()-k expression is signed-and-checked or guarded", "%d expressions examined" % n)
    elif not control:
        rep.holds("E1", "src/**", None, "size()-k expressions examined", "%d" % n)


def minus_one_taint(ctx, prog, sources):
    """Propagate 'may be -1' from calls to source functions through local initialisations, loop-variable
    initialisers and call arguments (context-insensitively) to vector subscripts not guarded by a sign test."""
    if not sources:
        return []
    out = []
    src_q = {s[0].qname: s for s in sources.values()}
    # only functions whose -1 is an *index*: i.e. used somewhere as subscript; computed by the propagation itself
    tainted_params = {}   # (func key, param index) -> (source, path)
    work = []

    def seed_function(f):
        res = []
        for x in walk(f.body):
            if x.get("kind") in ("CXXMemberCallExpr", "CallExpr"):
                ci = callee_info(x)
                if ci["qname"] in src_q:
                    res.append((x, src_q[ci["qname"]], short(ci["qname"]) + "()"))
        return res

    def analyse(f, initial):
        """initial: list of (expr node or ('param', decl), source, path)."""
        tv = {}     # var id -> (source, path)
        exprs = []  # (node, source, path) tainted expression nodes
        for item in initial:
            if item[0] == "param":
                tv[item[1].get("id")] = (item[2], item[3])
            else:
                exprs.append(item)
        changed = True
        rounds = 0
        while changed and rounds < 6:
            changed = False
            rounds += 1
            for x in walk(f.body):
                if x.get("kind") == "VarDecl" and x.get("id") not in tv and children(x):
                    ic = children(x)[-1]
                    hit = tainted_of(ic, tv, exprs)
                    if hit:
                        tv[x.get("id")] = (hit[0], hit[1] + " -> " + str(x.get("name")))
                        changed = True
        results = []
        for x in walk(f.body):
            k = x.get("kind")
            idx = None
            if k == "CXXOperatorCallExpr" and callee_info(x)["name"] == "operator[]":
                idx = callee_info(x)["args"][0] if callee_info(x)["args"] else None
                base = callee_info(x)["obj"]
            elif k == "ArraySubscriptExpr":
                base, idx = children(x)
            if idx is not None:
                hit = tainted_of(idx, tv, exprs, direct=True)
                if hit and not sign_guarded(ctx, f, x, idx):
                    results.append((hit[0], (pretty(canon(x)), hit[1])))
            if k in ("CXXMemberCallExpr", "CallExpr", "CXXOperatorCallExpr"):
                ci, fs = ctx.eff.resolve_callee(x)
                args = ci["args"] if ci else []
                targets = list(fs)
                if ci and ci.get("operator") and ci["name"] == "operator()" and ci["obj"] is not None:
                    oc = canon(ci["obj"])
                    if oc[0] == "var":
                        d = f.unit.by_id.get(oc[1])
                        init = children(d) if d is not None else []
                        if init:
                            lam = strip(init[-1], casts=True)
                            if lam.get("kind") == "LambdaExpr" and lam.get("_lam") is not None:
                                targets = [lam["_lam"]]
                for i, a in enumerate(args):
                    hit = tainted_of(a, tv, exprs, direct=True)
                    if hit:
                        for g in targets:
                            if i < len(g.params) and (g.key, i) not in tainted_params:
                                tainted_params[(g.key, i)] = (hit[0], hit[1] + " -> %s(%s)" % (g.short.split("::")[-1], g.params[i].get("name")))
                                work.append((g, i))
        return results

    def tainted_of(e, tv, exprs, direct=False):
        s = strip(e, casts=True)
        if s.get("kind") == "DeclRefExpr":
            vid = (s.get("referencedDecl") or {}).get("id")
            if vid in tv:
                return tv[vid]
        for node, source, path in exprs:
            if node is s:
                return (source, path)
        if s.get("kind") in ("CXXMemberCallExpr", "CallExpr"):
            ci = callee_info(s)
            if ci["qname"] in src_q:
                return (src_q[ci["qname"]], short(ci["qname"]) + "()")
        return None

    done = set()
    for f in prog.all_funcs(with_lambdas=True):
        seeds = seed_function(f) if f.lam_parent is None else []
        if seeds or True:
            out += analyse(f, [(x, s, p) for x, s, p in seeds])
    while work:
        g, i = work.pop()
        if (g.key, i) in done:
            continue
        done.add((g.key, i))
        src, path = tainted_params[(g.key, i)]
        out += analyse(g, [("param", g.params[i], src, path)])
    # de-duplicate per source
    uniq = {}
    for source, sink in out:
        uniq.setdefault(source[0].key, (source, sink))
    return list(uniq.values())


def sign_guarded(ctx, f, node, idx):
    owner = ctx.eff.func_of_node(node) or f
    ic = canon(idx)
    guards = ctx.guards(owner, node) or []
    for gc, val, _a, _b in guards:
        if gc[0] == "bin" and gc[2] == ic and gc[3][0] == "lit":
            lit = str(gc[3][1])
            if (gc[1] == ">=" and lit == "0" and val) or (gc[1] == "<" and lit == "0" and not val) or \
               (gc[1] == "==" and lit == "-1" and not val) or (gc[1] == "!=" and lit == "-1" and val) or (gc[1] == ">" and lit == "-1" and val):
                return True
    return False


# ---- PF ---------------------------------------------------------------------------------

def check_pf(ctx, prog, rep):
    from ..expr import member_decl
    n = 0
    for f in prog.all_funcs(with_lambdas=False):
        if f.body is None:
            continue
        for x in walk(f.body):
            if x.get("kind") != "BinaryOperator" or x.get("opcode") != "=":
                continue
            l, r = children(x)
            ls, rs = strip(l), strip(r)
            if ls.get("kind") != "MemberExpr" or rs.get("kind") != "MemberExpr":
                continue
            dl, dr = member_decl(ls), member_decl(rs)
            if not dl or not dr or dl.get("kind") != "FieldDecl" or dr.get("kind") != "FieldDecl":
                continue
            cl, cr = dl.get("_ctx") or "", dr.get("_ctx") or ""
            if "Parameters" not in cr or cl == cr or cl not in prog.records:
                continue
            src = (dr.get("_q") or "").split("::")[-1]
            dst = (dl.get("_q") or "").split("::")[-1]
            if src not in prog.records[cl]["fields"]:
                continue
            n += 1
            if src == dst:
                rep.holds("PF", x, f, "%s: %s.%s copied into the field of the same name" % (f.short, short(cr), src))
            else:
                rep.violation("PF", x, f, "%s: %s.%s is copied into %s.%s" % (f.short, short(cr), src, short(cl), dst),
                              "%s also has a field %s: the value validated under one name drives the other parameter, whose own bounds "
                              "(e.g. overlap < size, which keeps the reoptimisation stride positive) are not checked for it" % (short(cl), src),
                              key="%s|parameter %s forwarded to %s" % (f.short, src, dst))
    if n == 0:
        rep.unknown("PF", None, None, "parameter forwarding", "no struct-to-struct parameter copy found (shape changed)")


# ---- DI ---------------------------------------------------------------------------------

def check_di(ctx, prog, rep, rid="DI"):
    gp = CQ + "GlobalPlacer"
    rec = prog.records.get(gp)
    runs = [f for f in prog.funcs.values() if f.cls == gp and f.name == "run"]
    if not rec or len(runs) != 1:
        rep.unknown(rid, None, None, "GlobalPlacer::run", "not found")
        return
    run = runs[0]
    g = cfg_of(run)
    trans = ctx.eff.transitive()
    members = [n for n, fd in rec["fields"].items() if "vector<float" in qt(fd) or
               qt(fd).replace("const ", "").strip() in ("float", "double", "int", "long long", "bool")]

    def def_writes(f, fq):
        """f assigns the whole member on every path from its entry to its normal exit."""
        if f.body is None:
            return False
        cg = cfg_of(f)
        nodes = []
        for x in walk(f.body):
            if x.get("kind") == "CXXOperatorCallExpr" and callee_info(x)["name"] == "operator=":
                ch = children(x)
                if len(ch) >= 3 and canon(ch[1]) == ("field", fq, ("this",)):
                    n = cg.node_for(x)
                    if n is not None:
                        nodes.append(n)
            if x.get("kind") == "CXXMemberCallExpr" and callee_info(x)["name"] in ("assign", "resize") and callee_info(x)["obj"] is not None and \
                    canon(callee_info(x)["obj"]) == ("field", fq, ("this",)):
                n = cg.node_for(x)
                if n is not None:
                    nodes.append(n)
            if x.get("kind") == "BinaryOperator" and x.get("opcode") == "=" and canon(children(x)[0]) == ("field", fq, ("this",)):
                n = cg.node_for(x)
                if n is not None:
                    nodes.append(n)
        for ci_ in f.ctor_inits:
            an = ci_.get("anyInit") or {}
            if an.get("name") == fq.split("::")[-1]:
                init = children(ci_)
                # the implicit default initialiser (an empty vector) is not an assignment of content
                if init and not (init[-1].get("kind") == "CXXConstructExpr" and not children(init[-1])):
                    return True
        return bool(nodes) and cg.exit.idx not in cg.reachable_from([cg.entry], avoid=nodes)

    def reads_first(f, fq):
        """Some occurrence of the member in f that is not one of its whole-member assignments is reachable from f's entry without
        passing such an assignment: f looks at the member before (or without) defining it."""
        if f.body is None:
            return False
        cg = cfg_of(f)
        wnodes, rnodes = [], []
        for x in walk(f.body):
            if x.get("kind") == "MemberExpr":
                d = member_decl_(x)
                if d is not None and d.get("_q") == fq:
                    p_ = x.get("_p")
                    while p_ is not None and p_.get("kind") in ("ImplicitCastExpr", "ParenExpr"):
                        p_ = p_.get("_p")
                    is_w = p_ is not None and ((p_.get("kind") == "CXXOperatorCallExpr" and callee_info(p_)["name"] == "operator=" and
                                                strip(children(p_)[1]) is x) or
                                               (p_.get("kind") == "BinaryOperator" and p_.get("opcode") == "=" and strip(children(p_)[0]) is x))
                    n_ = cg.node_for(x)
                    if n_ is None:
                        continue
                    (wnodes if is_w else rnodes).append(n_)
        reach = cg.reachable_from([cg.entry], avoid=wnodes)
        return any(n_.idx in reach and n_ not in wnodes for n_ in rnodes)

    from ..expr import member_decl as member_decl_
    ctors = [f for f in prog.funcs.values() if f.cls == gp and f.kind == "CXXConstructorDecl" and not f.decl.get("isImplicit")
             and not (len(f.params) == 1 and "GlobalPlacer" in qt(f.params[0]))]
    n = 0
    calls = []
    for x in walk(run.body):
        if x.get("kind") == "CXXMemberCallExpr":
            _c, hs = ctx.eff.resolve_callee(x)
            for h in hs:
                if h.cls == gp:
                    calls.append((x, h))
    by_ctor = {m for m in members if any(def_writes(c, gp + "::" + m) for c in ctors)}
    all_writers, copies = {}, {}
    for m in members:
        fq = gp + "::" + m
        ws = [g.node_for(x) for x, h in calls if def_writes(h, fq) and not reads_first(h, fq)]
        # assignments made by run() itself
        for x in walk(run.body):
            rhs = None
            if x.get("kind") == "BinaryOperator" and x.get("opcode") == "=" and canon(children(x)[0]) == ("field", fq, ("this",)):
                rhs = canon(children(x)[1])
            elif x.get("kind") == "CXXOperatorCallExpr" and callee_info(x)["name"] == "operator=" and len(children(x)) >= 3 and \
                    canon(children(x)[1]) == ("field", fq, ("this",)):
                rhs = canon(children(x)[2])
            if rhs is not None:
                wn = g.node_for(x)
                ws.append(wn)
                if rhs[0] == "field" and rhs[2] == ("this",) and rhs[1].startswith(gp + "::") and rhs[1].split("::")[-1] in members:
                    copies.setdefault(m, []).append((wn, rhs[1].split("::")[-1]))
        all_writers[m] = [w for w in ws if w is not None]
    # a copy `a_ = b_` made while b_ itself has not been assigned on every path yet gives a_ no content
    for _round in range(3):
        for m, lst in copies.items():
            for wn, src in lst:
                if src in by_ctor or wn is None or wn not in all_writers[m]:
                    continue
                if wn.idx in g.reachable_from([g.entry], avoid=all_writers.get(src, [])):
                    all_writers[m] = [w for w in all_writers[m] if w is not wn]
    for m in members:
        fq = gp + "::" + m
        if m in by_ctor:
            n += 1
            rep.holds(rid, rec["fields"][m], None, "GlobalPlacer::%s is assigned by the constructor" % m)
            continue
        writers = all_writers[m]
        readers = [(x, h) for x, h in calls if (fq in trans.get(h.key, {}).get("reads", ()) and not def_writes(h, fq)) or reads_first(h, fq)]
        if not readers:
            continue
        n += 1
        reach = g.reachable_from([g.entry], avoid=writers)
        bad = [(x, h) for x, h in readers if g.node_for(x) is not None and g.node_for(x).idx in reach]
        if bad:
            x, h = bad[0]
            rep.violation(rid, x, run, "GlobalPlacer::%s may be read by %s before any step has assigned it" % (m, h.short),
                          "no constructor initialiser and no step that assigns it on every path precedes this call in run(): with parameters for which "
                          "the assigning loop runs zero times the vector is still empty and is indexed up to the number of cells",
                          key="GlobalPlacer::run|%s read before definite assignment" % m)
        else:
            rep.holds(rid, rec["fields"][m], None, "GlobalPlacer::%s is assigned on every path (%d definite writer call(s) in run()) before the steps that read it" % (m, len(writers)))
    if n == 0:
        rep.unknown(rid, None, None, "placement vectors", "no float-vector member of GlobalPlacer read by the steps of run() (shape changed)")


# ---- VB ---------------------------------------------------------------------------------

def check_vb(ctx, prog, rep, control, rid="VB"):
    trans = ctx.eff.transitive()
    n = 0
    for f in prog.all_funcs(with_lambdas=False):
        if f.body is None or not f.cls or f.kind in ("CXXConstructorDecl", "CXXDestructorDecl"):
            continue
        throws = [x for x in walk(f.body) if x.get("kind") == "CXXThrowExpr"]
        if not throws:
            continue
        g = cfg_of(f)
        s = ctx.eff.summary(f)
        wn = {}
        for q, lst in list(s["writes"].items()) + list(s["escapes"].items()):
            if not q.startswith(f.cls + "::"):
                continue
            for x, u in lst:
                nd = g.node_for(u.node)
                if nd is not None:
                    wn.setdefault(q, []).append(nd)
        for x in walk(f.body):
            if x.get("kind") in ("CXXMemberCallExpr", "CallExpr"):
                _c, hs = ctx.eff.resolve_callee(x)
                for h in hs:
                    for q in trans.get(h.key, {}).get("writes", ()):
                        if q.startswith(f.cls + "::"):
                            nd = g.node_for(x)
                            if nd is not None:
                                wn.setdefault(q, []).append(nd)
        if not wn:
            continue
        for t in throws:
            tn = g.node_for(t)
            if tn is None:
                continue
            n += 1
            done = False
            fw = trans.get(f.key, {}).get("writes", ())
            for gc, val, _a, asr in (ctx.guards(f, t) or []):
                for q, nodes in wn.items():
                    if done or not any(u[0] == "field" and u[1] == q for u in subterms(gc)):
                        continue
                    # the test reads q only as the object of deeper members (`circuit_.hasNetUpdate_`): it is about those members, and is
                    # a validation-after-write only if the function (transitively) writes one of them
                    deeper = [u for u in subterms(gc) if isinstance(u, tuple) and len(u) == 3 and u[0] == "field" and isinstance(u[2], tuple) and u[2][:2] == ("field", q)]
                    direct = [u for u in subterms(gc) if isinstance(u, tuple) and len(u) == 3 and u[0] == "field" and u[1] == q
                              and not any(d_[2] is u or d_[2] == u for d_ in deeper)]
                    if deeper and not direct and not any(d_[1] in fw for d_ in deeper):
                        continue
                    if tn.idx in g.reachable_from(nodes):
                        done = True
                        rep.violation(rid, t, f, "%s validates %s after having written it" % (f.short, short(q)),
                                      "the throwing test `%s` is reachable from a write of %s in the same function: it sees the new value instead of the "
                                      "one it is meant to protect, and a call that is refused has already modified the object" % (pretty(gc)[:70], short(q)),
                                      key="%s|%s validated after being written" % (f.short, short(q)))
    if hasattr(rep, "extra"):
        rep.extra["throwing_validations_examined"] = n
    if not control and not any(i["rule"] == rid for i in rep.instances):
        rep.holds(rid, "src/**", None, "no member function validates a member after overwriting it", "%d throw sites in functions that write members examined" % n)


# ---- AS ---------------------------------------------------------------------------------

def check_as(ctx, prog, rep, control):
    """Engler-style contradiction between stated beliefs. `assert(a != b)` says a and b never coincide; tests `a == K` and
    `b == K` against the same literal elsewhere in the function say each may be the sentinel K - so may both, and then the
    assertion aborts (with assertions enabled) on a state the function otherwise handles."""
    from ..expr import is_noreturn_call
    n = 0
    for f in prog.all_funcs(with_lambdas=False):
        if f.body is None:
            continue
        asserts = []
        sent = {}
        for x in walk(f.body):
            k = x.get("kind")
            if k == "ConditionalOperator":
                ch = children(x)
                if len(ch) == 3 and (is_noreturn_call(ch[2]) or is_noreturn_call(ch[1])):
                    asserts.append((x, canon(ch[0])))
            if k == "BinaryOperator" and x.get("opcode") in ("==", "!="):
                c = canon(x)
                for a, b in ((c[2], c[3]), (c[3], c[2])):
                    if a[0] == "var" and b[0] == "lit":
                        sent.setdefault(a[:2], set()).add(str(b[1]))
        for x, c in asserts:
            n += 1
            if not (c[0] == "bin" and c[1] == "!=" and c[2][0] == "var" and c[3][0] == "var"):
                continue
            common = sent.get(c[2][:2], set()) & sent.get(c[3][:2], set())
            if not common:
                continue
            # guarded asserts (the assert itself sits under a test excluding the sentinel) are fine
            gs = ctx.guards(f, x) or ctx.guards(f, children(x)[0]) or []
            excl = any(gc[0] == "bin" and gc[1] in ("==", "!=") and gc[3][0] == "lit" and gc[2][:2] in (c[2][:2], c[3][:2]) and
                       ((gc[1] == "!=" and val is True) or (gc[1] == "==" and val is False)) for gc, val, _a, _b in gs)
            if excl:
                continue
            kk = sorted(common)[0]
            rep.violation("AS", x, f, "assert(%s != %s)" % (c[2][2], c[3][2]),
                          "the same function tests %s == %s and %s == %s: both may hold the sentinel %s at once, and the assertion then aborts "
                          "(assertions are enabled in the default build)" % (c[2][2], kk, c[3][2], kk, kk),
                          key="%s|assert excludes a shared sentinel" % f.short)
    if hasattr(rep, "extra"):
        rep.extra["asserts_examined"] = n
    if not control and not any(i["rule"] == "AS" for i in rep.instances):
        rep.holds("AS", "src/**", None, "no assert(a != b) excludes a sentinel that both operands may hold", "%d assertions examined" % n)


# ---- E2 ---------------------------------------------------------------------------------

def check_e2(ctx, prog, rep, cfgd, control):
    for f in prog.all_funcs(with_lambdas=False):
        for x in walk(f.body):
            if x.get("kind") != "ForStmt":
                continue
            ch = list(inner(x))
            if len(ch) < 5 or not ch[3].get("kind"):
                continue
            ic = canon(ch[3])
            if not (ic[0] == "bin" and ic[1] in ("+=", "-=") and ic[2][0] == "var"):
                continue
            step = ic[3]
            if step[0] == "lit":
                continue
            owner = ctx.eff.func_of_node(x) or f
            if step[0] == "var":
                # a step read once into a local that is never written again (`const int side = nbRows / 2;`) is the expression it names
                d_ = owner.unit.by_id.get(step[1])
                if d_ is not None and d_.get("kind") == "VarDecl" and children(d_) and not var_write_nodes(ctx, owner, [step[1]]):
                    e_ = canon(children(d_)[-1])
                    if not any(isinstance(t, tuple) and t and t[0] == "var" and var_write_nodes(ctx, owner, [t[1]]) for t in subterms(e_)):
                        step = e_
            env = env_at(ctx, owner, ch[3]) or {}
            env = {v: iv for v, iv in env.items() if not var_write_nodes(ctx, owner, [v])}
            lo, hi = eval_step(step, env)
            key = skey(owner, step)
            what = "loop step %s" % pretty(step)
            entry = cfgd["loop_steps"].get(key)
            if lo > 0 or hi < 0:
                rep.holds("E2", ch[3], owner, what, "interval [%s, %s] under the dominating guards excludes 0" % (lo, hi))
            elif entry and entry["mode"] == "assumed":
                rep.holds("E2", ch[3], owner, what, "listed: " + entry["why"])
            elif entry and entry["mode"] == "proved":
                rep.violation("E2", ch[3], owner, what + " can be zero",
                              "the guard that kept this step positive (%s) no longer dominates the loop: interval is [%s, %s] -> the loop does not terminate" % (entry["why"], lo, hi),
                              key=key + " may be zero")
            else:
                rep.violation("E2", ch[3], owner, what + " is not provably non-zero",
                              "interval [%s, %s]; not in the triaged list (rules/c07.json)" % (lo, hi), key=key + " untriaged step")


def eval_step(c, env):
    if c[0] == "bin" and c[1] == "/" and c[3][0] == "lit":
        a = eval_int(c[2], env)
        try:
            k = int(str(c[3][1]))
        except ValueError:
            return TOP
        if k > 0 and a[0] >= 0:
            return (a[0] // k, a[1] // k if a[1] != float("inf") else a[1])
        return TOP
    return eval_int(c, env)
