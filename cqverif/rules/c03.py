"""C03 — placement only moves movable cells; everything else is untouched.

W3   who-may-write, per Circuit field, over every function of the library
REACH no non-const Circuit method (setter / expansion) is reachable from a stage;
      no writer of cellOrientation_ is reachable from placeGlobal
G5   every coordinate/orientation write outside Circuit is edge-dominated by a
     fixedness test on the same circuit and the same (unmodified) index, movable polarity
G6   fixed cells get the literal demand 0 in the density model
"""
import json
import os

from ..core import HOLDS, VIOLATION, UNKNOWN
from ..frontend import VERIF, AnalysisBroken
from ..model import qt, loc_str, walk
from ..expr import canon, pretty, children, strip, callee_info
from ..cfg import cfg_of
from ..effects import WRITE, ESCAPE
from .common import CQ, short, is_fixed_test, vars_in, stable_between, field_writes

EXPLANATION = (
    "Static frame-condition check over the clang-resolved AST of all library units. "
    "W3: for each of Circuit's data members, every occurrence of the member in any function body is classified "
    "(read / write / escape) from its syntactic context; the set of functions outside class Circuit that write or leak it "
    "must be inside a frozen allow-list. REACH: the transitive call graph from Circuit::placeGlobal/legalize/placeDetailed "
    "contains no non-const Circuit method other than the stages themselves and no writer of any Circuit member outside "
    "{cellX_, cellY_, cellOrientation_, bookkeeping flags}; from placeGlobal no writer of cellOrientation_. "
    "G5: each write of cellX_/cellY_/cellOrientation_ outside Circuit is edge-dominated (CFG with branch edges as nodes) by "
    "a fixedness test isFixed(i)/cellIsFixed_[i] on the same circuit object and structurally the same index, with the "
    "movable polarity, and the index is not modified between the test and the write. "
    "G6: in the density-model builders the value pushed on the isFixed branch is the literal 0. "
    "Because only coordinates/orientation of movable cells can be written at all, the frame condition also holds on "
    "exceptional exits.")

DECLINED = ["values written for movable cells (not part of the frame condition)",
            "effects of user callbacks (user code, outside the library)"]


def run(ctx, rep, tier):
    cfgd = json.load(open(os.path.join(VERIF, "rules", "c03.json")))
    prog, eff = ctx.prog, ctx.eff
    rec = prog.records.get(CQ + "Circuit")
    if not rec:
        raise AnalysisBroken("class coloquinte::Circuit not found")
    fields = sorted(rec["fields"])
    allowed = cfgd["external_writers"]
    rep.rule("W3", "who-may-write per Circuit data member (functions outside class Circuit), frozen allow-list",
             min_instances=17)
    rep.rule("G5", "coordinate/orientation write edge-dominated by fixedness test on same circuit+index, movable polarity",
             min_instances=cfgd["floors"]["coord_write_sites"])
    rep.rule("REACH", "call-graph reachability from the three stages: no structural Circuit mutator, no orientation writer from placeGlobal",
             min_instances=4)
    rep.rule("G6", "fixed cells get literal zero demand in the density model", min_instances=2)

    # ---- W3 -------------------------------------------------------------
    writer_funcs = set()
    coord_sites = []
    schema = set(cfgd["protected_members"]) | {"cellX_", "cellY_", "cellOrientation_"} | set(cfgd["bookkeeping_fields"])
    for fld in fields:
        if fld not in schema:
            rep.note("Circuit member %s is not in the frozen schema of observable state; not part of the frame condition" % fld)
            continue
        q = CQ + "Circuit::" + fld
        ws = field_writes(ctx, q, exclude_class=CQ + "Circuit")
        ok_list = allowed.get(fld, {})
        seen_funcs = {f.short for f, _x, _u in ws}
        if fld in ("cellX_", "cellY_", "cellOrientation_"):
            # any function may write positions/orientation provided every write is guarded (rule G5 below)
            for f, x, u in ws:
                coord_sites.append((fld, f, x, u))
            newf = sorted(seen_funcs - set(ok_list))
            rep.holds("W3", rec["fields"][fld], "Circuit", "field %s" % fld,
                      "external writers: %s%s; each write site is judged by G5" % (sorted(seen_funcs), (" (not in the documented list: %s)" % newf) if newf else ""))
        elif fld in cfgd["bookkeeping_fields"]:
            newf = sorted(seen_funcs - set(ok_list))
            rep.holds("W3", rec["fields"][fld], "Circuit", "bookkeeping flag %s" % fld,
                      "not observable state; writers: %s%s" % (sorted(seen_funcs), (" (new: %s)" % newf) if newf else ""))
        elif ws:
            for f, x, u in ws:
                rep.violation("W3", u.node, f, "write to Circuit::%s by a function outside class Circuit" % fld,
                              "%s (%s); no placement code may modify this member" % (u.why, u.kind),
                              key="%s|writes Circuit::%s" % (f.short, fld))
        else:
            rep.holds("W3", rec["fields"][fld], "Circuit", "field %s" % fld, "no external writer")
        writer_funcs |= {f.short for f, _x, _u in ws if fld in ("cellX_", "cellY_", "cellOrientation_")}
        # allow-list entries that vanished are fine (fewer writers), but record them
        gone = [w for w in ok_list if w not in seen_funcs]
        if gone:
            rep.note("allow-listed writer(s) of %s no longer write it: %s" % (fld, gone))
    if len(writer_funcs) < cfgd["floors"]["writer_functions"]:
        rep.note("only %d coordinate writer functions found (confirmed: %d)" % (len(writer_funcs), cfgd["floors"]["writer_functions"]))

    # ---- G5 -------------------------------------------------------------
    for fld, f, x, u in coord_sites:
        check_guarded_write(ctx, rep, fld, f, x, u)

    # ---- REACH ------------------------------------------------------------
    trans = eff.transitive()
    stage_keys = []
    for sq in cfgd["stage_entries"]:
        fs = [f for f in prog.func(CQ + sq) if len(f.params) == 2]
        if len(fs) != 1:
            raise AnalysisBroken("stage entry %s(params, callback): expected one definition, found %d" % (sq, len(fs)))
        stage_keys.append((sq, fs[0]))
    movable_state = {CQ + "Circuit::cellX_", CQ + "Circuit::cellY_", CQ + "Circuit::cellOrientation_"}
    protected = {CQ + "Circuit::" + m for m in cfgd["protected_members"]}
    book = {CQ + "Circuit::" + b for b in cfgd["bookkeeping_fields"]}
    stage_set = {f.key for _sq, f in stage_keys}
    for sq, f in stage_keys:
        t = trans[f.key]
        reach = [prog.funcs[k] for k in t["calls"] if k in prog.funcs]
        # (a) no non-const Circuit method reachable (other than the stage entries)
        muts = [g for g in reach if g.cls == CQ + "Circuit" and g.kind == "CXXMethodDecl" and not g.is_const
                and not g.is_static and g.key not in stage_set]
        if muts:
            for g in muts:
                rep.violation("REACH", g.decl, f, "non-const Circuit method %s reachable from %s" % (g.short, sq),
                              "call chain: %s" % " -> ".join(call_chain(ctx, f, g)),
                              key="%s|reaches %s" % (sq, g.short))
        else:
            rep.holds("REACH", f.decl, f, "no non-const Circuit method reachable from %s" % sq,
                      "%d functions reachable" % len(reach))
        # (b) transitive Circuit member writes stay within movable state + bookkeeping
        cw = {w for w in t["writes"] if w.startswith(CQ + "Circuit::")}
        extra = (cw - movable_state - book) & protected
        newm = cw - movable_state - book - protected
        if newm:
            rep.note("%s writes Circuit member(s) outside the frozen schema (not part of the frame condition): %s" % (sq, sorted(short(w) for w in newm)))
        if extra:
            for w in sorted(extra):
                rep.violation("REACH", f.decl, f, "%s may write %s" % (sq, short(w)),
                              "transitive effect summary of the stage contains a member outside position/orientation/bookkeeping",
                              key="%s|transitively writes %s" % (sq, short(w)))
        else:
            rep.holds("REACH", f.decl, f, "transitive Circuit writes of %s" % sq, "%s" % sorted(short(w) for w in cw))
    gp = stage_keys[0][1]
    if CQ + "Circuit::cellOrientation_" in trans[gp.key]["writes"]:
        culprit = [prog.funcs[k].short for k in trans[gp.key]["calls"] | {gp.key} if k in prog.funcs and
                   (CQ + "Circuit::cellOrientation_") in (set(eff.summary(prog.funcs[k])["writes"]) | set(eff.summary(prog.funcs[k])["escapes"]))]
        rep.violation("REACH", gp.decl, gp, "global placement may write cellOrientation_",
                      "writer(s) reachable from Circuit::placeGlobal: %s" % culprit,
                      key="Circuit::placeGlobal|reaches orientation writer")
    else:
        rep.holds("REACH", gp.decl, gp, "no cellOrientation_ writer reachable from Circuit::placeGlobal")

    # ---- G6 -----------------------------------------------------------------
    for bq in cfgd["zero_demand_builders"]:
        f = prog.func1(CQ + bq, ptype="Circuit")
        check_zero_demand(ctx, rep, f)


def check_guarded_write(ctx, rep, fld, f, x, u):
    """x: MemberExpr occurrence of the Circuit field; u: the Use (write)."""
    what = "write to %s" % fld
    target = write_target(x)
    if target is None and isinstance(u.node, dict) and u.node.get("kind") in ("BinaryOperator", "CompoundAssignOperator") and children(u.node):
        # the member was bound to a local reference (`std::vector<int> &cellX = circuit.cellX_;`) and an element is assigned through
        # the alias: the canonical form of the left-hand side resolves the alias, so it is judged like a direct element write
        lhs = children(u.node)[0]
        lc = canon(lhs)
        if lc[0] == "index" and lc[1][0] == "field" and lc[1][1].endswith("::" + fld.split("::")[-1]):
            target = strip(lhs)
    if target is None:
        if u.kind == WRITE and "std mutator" in u.why or "operator=" == u.why or u.why == "assignment" and True:
            pass
    if target is None:
        rep.violation("G5", u.node, f, what + " is not a per-cell element write",
                      "whole-container modification (%s) cannot be restricted to movable cells" % u.why,
                      key="%s|whole-container write %s" % (f.short, fld))
        return
    c = canon(target)
    # c = ('index', ('field', Circuit::fld, OBJ), IDX)
    if c[0] != "index" or c[1][0] != "field":
        rep.unknown("G5", u.node, f, what, "write target has an unrecognised shape: %s" % pretty(c))
        return
    obj, idx = c[1][2], c[2]
    guards = ctx.guards(f, u.node)
    if guards is None:
        rep.unknown("G5", u.node, f, what, "write site has no CFG node")
        return
    g = cfg_of(f)
    site = g.node_for(u.node)
    found = None
    wrong = None
    for gc, val, ast, _a in guards:
        t = is_fixed_test(gc)
        if t is None:
            continue
        if t[0] != obj or t[1] != idx:
            continue
        if val is False:
            found = (gc, ast)
            break
        if val is True:
            wrong = (gc, ast)
    if found is None:
        if wrong is not None:
            rep.violation("G5", u.node, f, "%s[%s]" % (fld, pretty(idx)),
                          "dominated by %s == true: the write happens for FIXED cells" % pretty(wrong[0]),
                          key="%s|%s write under fixed polarity" % (f.short, fld))
        else:
            others = [pretty(gc) + ("=%s" % val) for gc, val, _a, _b in guards]
            rep.violation("G5", u.node, f, "%s[%s]" % (fld, pretty(idx)),
                          "no dominating fixedness test on %s with index %s (dominating conditions: %s)" % (
                              pretty(obj), pretty(idx), others or "none"),
                          key="%s|unguarded %s write" % (f.short, fld))
        return
    # stability of the index between guard and write
    edge = [en for (ast, val, en) in g.dom_edges(site, asserts=True) if ast is found[1] and val is False]
    ok, w = stable_between(ctx, f, vars_in(idx), edge[0], site) if edge else (False, None)
    if not ok:
        rep.violation("G5", u.node, f, "%s[%s]" % (fld, pretty(idx)),
                      "index may be modified between the fixedness test and the write (at %s)" % (loc_str(w) if w else "?"),
                      key="%s|%s index modified after test" % (f.short, fld))
        return
    rep.holds("G5", u.node, f, "%s[%s]" % (fld, pretty(idx)), "dominated by !%s" % pretty(found[0]))


def write_target(x):
    """For an occurrence x of a container field, the element expression that is
    written (`field[i]` for `field[i] = v`), or None for whole-container writes."""
    p = x.get("_p")
    while p is not None and p.get("kind") in ("ImplicitCastExpr", "ParenExpr"):
        p = p.get("_p")
    if p is None:
        return None
    if p.get("kind") == "CXXOperatorCallExpr":
        ci = callee_info(p)
        if ci["name"] == "operator[]" and ci["obj"] is not None and strip(ci["obj"]) is x:
            return p
    if p.get("kind") == "ArraySubscriptExpr":
        return p
    if p.get("kind") == "CXXMemberCallExpr":
        return None
    if p.get("kind") == "MemberExpr" and p.get("name") == "at":
        call = p.get("_p")
        return call
    return None


def call_chain(ctx, src, dst, limit=8):
    """A shortest call chain src -> ... -> dst (names), for diagnostics."""
    from collections import deque
    prev = {src.key: None}
    dq = deque([src])
    while dq:
        f = dq.popleft()
        if f.key == dst.key:
            break
        for _c, g in ctx.eff.callees(f):
            if g.key not in prev:
                prev[g.key] = f
                dq.append(g)
    if dst.key not in prev:
        return [src.short, "...", dst.short]
    out = [dst.short]
    k = dst.key
    while prev[k] is not None:
        out.append(prev[k].short)
        k = prev[k].key
    return out[::-1]


def check_zero_demand(ctx, rep, f, _depth=0):
    """In a loop `if (circuit.isFixed(i)) demands.push_back(0) else demands.push_back(area)`:
    every push into the demand vector that is dominated by isFixed==true pushes literal 0, and every
    push not dominated by a fixedness test at all is a violation."""
    pushes = []
    for x in walk(f.body):
        if x.get("kind") == "CXXMemberCallExpr":
            ci = callee_info(x)
            if ci["name"] in ("push_back", "emplace_back") and ci["obj"] is not None:
                oc = canon(ci["obj"])
                if oc[0] == "var" and "demand" in str(oc[2]).lower():
                    pushes.append((x, ci))
    if not pushes and _depth < 2:
        # the demand vector may be built by a helper that takes the circuit and returns it
        done = False
        for x in walk(f.body):
            if x.get("kind") in ("CallExpr", "CXXMemberCallExpr"):
                _c, hs = ctx.eff.resolve_callee(x)
                for h in hs:
                    if h.body is not None and h.key != f.key and "vector<int" in h.type.split("(")[0] and \
                            any("Circuit" in qt(p) for p in h.params):
                        check_zero_demand(ctx, rep, h, _depth + 1)
                        done = True
        if done:
            return
    if not pushes:
        rep.unknown("G6", f.decl, f, "demand vector construction", "no push into a demand vector found (shape changed)")
        return
    fixed_push = 0
    for x, ci in pushes:
        guards = ctx.guards(f, x) or []
        ft = [(gc, val) for gc, val, _a, _b in guards if is_fixed_test(gc)]
        arg = canon(ci["args"][0]) if ci["args"] else ("none",)
        if not ft:
            rep.violation("G6", x, f, "demand push not under a fixedness test", "pushed value %s" % pretty(arg),
                          key="%s|demand push outside fixedness test" % f.short)
            continue
        gc, val = ft[0]
        t = is_fixed_test(gc)
        if val is True:
            fixed_push += 1
            if arg[0] == "lit" and str(arg[1]).rstrip("L").rstrip(".0") in ("0", ""):
                rep.holds("G6", x, f, "demand of fixed cell", "literal %s under %s" % (arg[1], pretty(gc)))
            else:
                rep.violation("G6", x, f, "demand of fixed cell is not the literal 0", "pushed %s under %s" % (pretty(arg), pretty(gc)),
                              key="%s|non-zero demand for fixed cell" % f.short)
    if fixed_push == 0:
        rep.violation("G6", f.decl, f, "no zero-demand branch for fixed cells", "no push dominated by isFixed(i)==true",
                      key="%s|no fixed-cell demand branch" % f.short)
