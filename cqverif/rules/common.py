"""Helpers shared by the property rule modules."""
from ..model import inner, qt, kind, loc_str, walk
from ..expr import canon, pretty, subterms, children, strip, callee_info, CALL_KINDS, member_decl
from ..cfg import cfg_of
from ..effects import READ, WRITE, ESCAPE

CQ = "coloquinte::"


def short(q):
    return q[len(CQ):] if q.startswith(CQ) else q


def vars_in(c):
    return {s[1] for s in subterms(c) if s and s[0] == "var"}


def is_fixed_test(c, obj=None, idx=None):
    """Is canonical condition c a fixedness test `obj.isFixed(idx)` / `obj.cellIsFixed_[idx]`?
    Returns (obj, idx) or None."""
    if c[0] == "call" and c[1] == CQ + "Circuit::isFixed" and len(c) == 4:
        o, i = c[2], c[3]
    elif c[0] == "index" and c[1][0] == "field" and c[1][1] == CQ + "Circuit::cellIsFixed_":
        o, i = c[1][2], c[2]
    else:
        return None
    if obj is not None and o != obj:
        return None
    if idx is not None and i != idx:
        return None
    return (o, i)


def var_write_nodes(ctx, func, var_ids):
    """AST nodes inside func (lambdas included) that may modify one of the local
    variables in var_ids (assignment, ++, passing by mutable reference...)."""
    out = []
    f = func.outer
    for vid in var_ids:
        for r in ctx.eff.var_refs(f, vid):
            for u in ctx.eff.uses(r, ctx.eff.func_of_node(r) or f):
                if u.kind in (WRITE, ESCAPE):
                    out.append(u.node)
    return out


def stable_between(ctx, func, var_ids, edge_node, site_cnode):
    """True when no variable in var_ids can be modified on a path from the branch
    edge `edge_node` to the CFG node `site_cnode` (so a test on the edge still
    speaks about the same value at the site)."""
    g = cfg_of(func)
    ws = var_write_nodes(ctx, func, var_ids)
    if not ws:
        return True, None
    reach = g.reachable_from([edge_node])
    for w in ws:
        wn = g.node_for(w)
        if wn is None:
            # write inside a lambda or elsewhere: conservatively unstable
            return False, w
        if wn is site_cnode:
            continue
        if wn.idx in reach and g.can_reach(wn, site_cnode, avoid=[edge_node]):
            return False, w
    return True, None


def field_writes(ctx, field_q, exclude_class=None):
    """All (func, occurrence node, Use) triples that write or leak field field_q,
    over every function with a body."""
    out = []
    for f in ctx.prog.funcs.values():
        if exclude_class and f.cls == exclude_class:
            continue
        s = ctx.eff.summary(f)
        for tag in ("writes", "escapes"):
            for x, u in s[tag].get(field_q, []):
                out.append((f, x, u))
    return out


def find_calls(func, pred):
    """Call-like nodes in func's body (lambdas included) whose callee_info satisfies pred."""
    out = []
    roots = [func.body] + list(func.ctor_inits)
    for r in roots:
        for x in walk(r):
            if x.get("kind") in CALL_KINDS:
                ci = callee_info(x)
                if ci and pred(ci, x):
                    out.append(x)
    return out


def calls_to(func, qname_suffix):
    return find_calls(func, lambda ci, x: ci["qname"] == qname_suffix or ci["qname"].endswith("::" + qname_suffix))


def enclosing_stmt(node, func):
    """Outermost expression/statement node of `node` that is a direct child of a
    CompoundStmt / control statement (the CFG statement)."""
    g = cfg_of(func)
    cn = g.node_for(node)
    return cn.ast if cn is not None else None


# ---- loops ---------------------------------------------------------------------


INT_TYPES_ = ("int", "long", "long long", "unsigned int", "unsigned long", "unsigned long long", "size_t", "std::size_t",
              "std::vector::size_type")


def _enclosing_function(n):
    """The function declaration whose body contains statement / declaration n (the enclosing function of a lambda body,
    not the closure's operator())."""
    x = n.get("_p")
    while x is not None:
        k = x.get("kind", "")
        if k in ("CXXMethodDecl", "FunctionDecl", "CXXConstructorDecl", "CXXDestructorDecl"):
            gp = (x.get("_p") or {}).get("_p") or {}
            if gp.get("kind") != "LambdaExpr":
                return x
        x = x.get("_p")
    return None


SIZE_STABLE_MEMBERS = ("size", "empty", "begin", "end", "cbegin", "cend", "rbegin", "rend", "operator[]", "at", "front", "back", "data",
                       "capacity", "reserve")


def _size_stable_after(fn, d, obj):
    """obj is a local container (DeclRefExpr); no reference to it that follows declaration d (or shares a loop with it) can
    change its size: only element access, iteration, size queries, or binding to a const parameter."""
    o = strip(obj, casts=True)
    if o.get("kind") != "DeclRefExpr":
        return False
    vid = (o.get("referencedDecl") or {}).get("id")
    loop = d.get("_p")
    while loop is not None and loop.get("kind") not in ("ForStmt", "WhileStmt", "DoStmt", "CXXForRangeStmt"):
        if loop is fn:
            loop = None
            break
        loop = loop.get("_p")
    scope = loop if loop is not None else fn
    seen_decl = loop is not None
    for x in walk(scope):
        if x is d:
            seen_decl = True
            continue
        if not seen_decl or x.get("kind") != "DeclRefExpr" or (x.get("referencedDecl") or {}).get("id") != vid:
            continue
        p = x.get("_p") or {}
        while p.get("kind") == "ParenExpr":
            p = p.get("_p") or {}
        k = p.get("kind")
        if k == "ImplicitCastExpr" and (qt(p).startswith("const ") or p.get("castKind") == "LValueToRValue"):
            continue
        if k == "MemberExpr" and p.get("name") in SIZE_STABLE_MEMBERS:
            continue
        if k == "CXXOperatorCallExpr" and callee_info(p)["name"] == "operator[]" and callee_info(p)["obj"] is not None and \
                strip(callee_info(p)["obj"], casts=True) is x:
            continue
        if k in ("VarDecl", "DeclStmt"):      # range-for `__range` binding / reference binding
            if str(p.get("name", "")).startswith("__range") or qt(p).startswith("const "):
                continue
        return False
    return True


CURRENT_CTX = [None]


def _unaffected_by(fn_decl, call):
    """The enclosing function (transitively) writes none of the members the called const getter (transitively) reads: the value
    read once stays the value of the call."""
    ctx = CURRENT_CTX[0]
    if ctx is None:
        return False
    body = [c for c in inner(fn_decl) if isinstance(c, dict) and c.get("kind") == "CompoundStmt"]
    f = body[-1].get("_func") if body else None
    _ci, fs = ctx.eff.resolve_callee(call)
    if f is None or len(fs) != 1:
        return False
    tr = ctx.eff.transitive()
    reads = set(tr.get(fs[0].key, {}).get("reads", ())) | set(ctx.eff.summary(fs[0])["reads"])
    writes = set(tr.get(f.key, {}).get("writes", ()))
    return bool(reads) and not (reads & writes)


def hoisted_count(d):
    """`const int n = nbCells();` / `size_t n = v.size();` - a count read once into a local. Returns the canonical form of the
    initialiser when the local is a faithful alias of it for the rest of the function: integer type, initialised by an
    argument-less call of a const member function on an object the function cannot modify (this of a const method, a
    const parameter / local, or a member of those), and never written afterwards (const, or every reference to it is a read)."""
    if d is None or d.get("kind") != "VarDecl" or d.get("_rangevar") is not None:
        return None
    memo = d.get("_hoisted")
    if memo is not None:
        return memo or None
    d["_hoisted"] = False
    t = ((d.get("type") or {}).get("desugaredQualType") or qt(d))
    is_const = t.startswith("const ")
    if t.replace("const ", "").strip() not in INT_TYPES_:
        return None
    init = children(d)
    if not init:
        return None
    e = strip(init[-1], casts=True)
    if e.get("kind") != "CXXMemberCallExpr":
        return None
    ci = callee_info(e)
    if ci is None:
        return None
    fn0 = _enclosing_function(d)
    for a_ in ci["args"]:
        # an argument must keep its value for as long as the alias is used: a literal, a const local / parameter, or the variable of
        # a loop that encloses the declaration and is only read in that loop
        ac = canon(a_)
        if ac[0] == "lit":
            continue
        if ac[0] == "elem" and len(ac) == 3:
            ac = ("var", ac[2], "")       # a range-for variable
        if ac[0] != "var" or fn0 is None:
            return None
        ad = d.get("_u").by_id.get(ac[1]) if d.get("_u") is not None else None
        if ad is None:
            return None
        at = ((ad.get("type") or {}).get("qualType") or "")
        if at.startswith("const ") and "&" not in at and "*" not in at:
            continue
        lp = d.get("_p")
        encl = None
        while lp is not None and lp is not fn0:
            if lp.get("kind") in ("ForStmt", "CXXForRangeStmt") and any(y is ad for y in walk(lp)):
                encl = lp
                break
            lp = lp.get("_p")
        if encl is None:
            return None
        for x in walk(encl):
            if x.get("kind") == "DeclRefExpr" and (x.get("referencedDecl") or {}).get("id") == ac[1]:
                p_ = x.get("_p") or {}
                while p_.get("kind") == "ParenExpr":
                    p_ = p_.get("_p") or {}
                if p_.get("kind") == "ImplicitCastExpr" and p_.get("castKind") == "NoOp" and qt(p_).startswith("const "):
                    continue          # bound to a const reference parameter
                if p_.get("kind") in ("CXXOperatorCallExpr", "CXXMemberCallExpr", "CallExpr", "CXXConstructExpr"):
                    ci2 = callee_info(p_)
                    ptypes = ((ci2.get("decl") or {}).get("type") or {}).get("qualType", "") if ci2 else ""
                    if "&" not in ptypes.replace("const ", "").split("(")[-1] or ci2["name"] in ("operator[]", "count", "find", "at"):
                        continue      # passed by value / to a lookup
                if not (p_.get("kind") == "ImplicitCastExpr" and p_.get("castKind") == "LValueToRValue"):
                    inc_ok = False
                    # the loop's own increment is the one permitted write
                    q_ = x
                    while q_ is not None and q_ is not encl:
                        par = q_.get("_p")
                        if par is encl and encl.get("kind") == "ForStmt":
                            chs = [c_ for c_ in inner(encl)]
                            inc_ok = len(chs) >= 4 and q_ is chs[3]
                        q_ = par
                    if not inc_ok:
                        return None
    cd = ci.get("decl") or {}
    ft = qt(cd) if cd else ""
    if ci["name"] not in ("size",) and not (ft and "const" in ft[ft.rfind(")"):]):
        return None
    fn = _enclosing_function(d)
    if fn is None:
        return None
    fnt = qt(fn)
    fn_const = "const" in fnt[fnt.rfind(")"):]

    def immutable(o):
        if o is None:
            return fn_const
        o = strip(o, casts=True)
        k = o.get("kind")
        if k == "CXXThisExpr":
            return fn_const
        if k == "MemberExpr":
            ch = children(o)
            return immutable(ch[0]) if ch else fn_const
        if k == "DeclRefExpr":
            rd = o.get("referencedDecl") or {}
            ty = (rd.get("type") or {}).get("qualType", "")
            return ty.startswith("const ")
        return False
    if not immutable(ci["obj"]) and not (ci["name"] == "size" and _size_stable_after(fn, d, ci["obj"])) and \
            not _unaffected_by(fn, e):
        return None
    if not is_const:
        for x in walk(fn):
            if x.get("kind") == "DeclRefExpr" and (x.get("referencedDecl") or {}).get("id") == d.get("id"):
                p = x.get("_p") or {}
                while p.get("kind") == "ParenExpr":
                    p = p.get("_p") or {}
                if not (p.get("kind") == "ImplicitCastExpr" and p.get("castKind") == "LValueToRValue"):
                    return None
    c = canon(e)
    d["_hoisted"] = c
    return c


def subst_counts(c, unit):
    """Replace hoisted count locals (see hoisted_count) by the call they alias."""
    if not isinstance(c, tuple):
        return c
    if c and c[0] == "var":
        h = hoisted_count(unit.by_id.get(c[1]))
        return h if h is not None else c
    return tuple(subst_counts(x, unit) if isinstance(x, tuple) else x for x in c)


def for_loop_info(s):
    """Describe `for (T v = lo; v < hi; ++v)` style loops. Returns dict or None."""
    ch = list(inner(s))
    if s.get("kind") != "ForStmt" or len(ch) < 5:
        return None
    init, _cv, cond, inc, body = ch[:5]
    if not (init.get("kind") and cond.get("kind") and inc.get("kind")):
        return None
    var = None
    lo = None
    if init.get("kind") == "DeclStmt":
        vds = [d for d in inner(init) if d.get("kind") == "VarDecl"]
        if vds:
            var = vds[0]
            ic = children(var)
            lo = canon(ic[-1]) if ic else None
    if var is None:
        return None
    v = ("var", var.get("id"), var.get("name"))
    cc = canon(cond)
    if s.get("_u") is not None:
        cc = subst_counts(cc, s["_u"])
    hi = None
    if cc[0] == "bin" and cc[1] in ("<", "<=", "!=", ">", ">="):
        l, r = cc[2], cc[3]
        if l == v and cc[1] in ("<", "!="):
            hi = r
        elif l == v and cc[1] == "<=":
            hi = ("bin", "+", r, ("lit", "1"))
        elif l[0] == "bin" and l[1] == "+" and l[2] == v and cc[1] == "<":
            hi = ("bin", "-", r, l[3])
        elif r == v and cc[1] == ">":
            hi = l
    if hi is None and cc[0] == "op" and cc[1] in ("operator!=", "operator<") and len(cc) == 4 and cc[2] == v:
        hi = cc[3]                                         # iterator loops: it != c.end()
    ic = canon(inc)
    step = None
    if ic[0] == "un" and ic[1] == "++" and ic[2] == v:
        step = 1
    elif ic[0] == "un" and ic[1] == "--" and ic[2] == v:
        step = -1
    elif ic[0] == "bin" and ic[1] == "+=" and ic[2] == v and ic[3] == ("lit", "1"):
        step = 1
    elif ic[0] in ("call", "op") and ic[1] in ("operator++", "operator--") and v in ic[2:]:
        step = 1 if ic[1] == "operator++" else -1        # iterator loops
    return {"var": v, "decl": var, "lo": lo, "hi": hi, "cond": cc, "step": step, "body": body, "inc": inc, "stmt": s}


def loop_has_early_exit(body):
    """break / return / throw inside a loop body (not inside a nested loop for break)."""
    def rec(n, in_nested):
        k = n.get("kind")
        if k in ("ReturnStmt", "CXXThrowExpr", "GotoStmt"):
            return n
        if k == "BreakStmt" and not in_nested:
            return n
        if k == "LambdaExpr":
            return None
        nested = in_nested or k in ("ForStmt", "WhileStmt", "DoStmt", "CXXForRangeStmt", "SwitchStmt")
        for c in inner(n):
            if isinstance(c, dict) and c.get("kind"):
                r = rec(c, nested)
                if r is not None:
                    return r
        return None
    return rec(body, False)


def expand_locals(ctx, func, c, depth=0):
    """Substitute single-assignment local variables by the canonical form of their initialiser."""
    if depth > 12 or not isinstance(c, tuple):
        return c
    if c and c[0] == "var":
        d = func.unit.by_id.get(c[1])
        if d is not None and d.get("kind") == "VarDecl" and d.get("_rangevar") is None:
            init = children(d)
            if init and not var_write_nodes(ctx, func, [c[1]]):
                return expand_locals(ctx, func, canon(init[-1]), depth + 1)
        return c
    return tuple(expand_locals(ctx, func, x, depth + 1) if isinstance(x, tuple) else x for x in c)


def binding_source(func, var_id):
    """For a structured binding `auto [a, b] = f(...)`: (canonical initialiser, position) of variable var_id."""
    d = func.unit.by_id.get(var_id)
    if d is None or d.get("kind") != "BindingDecl":
        return None
    dd = d.get("_p")
    if dd is None or dd.get("kind") != "DecompositionDecl":
        return None
    binds = [c for c in inner(dd) if c.get("kind") == "BindingDecl"]
    init = [c for c in inner(dd) if c.get("kind") and c.get("kind") != "BindingDecl"]
    pos = [i for i, b in enumerate(binds) if b.get("id") == var_id]
    if not init or not pos:
        return None
    return canon(init[0]), pos[0], dd


def assignments_to(func, var_id):
    """AST nodes `v = expr` (not the declaration) assigning local variable var_id anywhere in func (lambdas included)."""
    out = []
    for x in walk(func.outer.body):
        if x.get("kind") == "BinaryOperator" and x.get("opcode") == "=":
            l, r = children(x)
            lc = canon(l, refs=False)
            if lc[0] == "var" and lc[1] == var_id:
                out.append((x, r))
    return out


# ---- derived state (caches) ------------------------------------------------------------

def check_derived_state(ctx, rep, rid, prog, scope=None):
    """A const member function that writes a member of its own class keeps *derived state* (a cache). That is sound
    only if every function that writes something the const function reads also writes the cache (invalidates it).
    Reports one instance per const function with own-member writes; returns the number of const methods examined."""
    eff = ctx.eff
    trans = eff.transitive()
    n = 0
    for f in prog.funcs.values():
        if f.kind != "CXXMethodDecl" or not f.is_const or f.cls is None:
            continue
        if scope is not None and f.short not in scope:
            continue
        n += 1
        s = eff.summary(f)
        own = {q for q in list(s["writes"]) + list(s["escapes"]) if q.startswith(f.cls + "::")}
        # only writes through `this`
        ownw = set()
        for q in own:
            for x, u in s["writes"].get(q, []) + s["escapes"].get(q, []):
                c = canon(x)
                if c[0] == "field" and c[2] == ("this",):
                    ownw.add(q)
        if not ownw:
            continue
        reads = {r for r in trans[f.key]["reads"] if r.startswith(f.cls + "::")} - ownw
        stale = []
        partial = []
        for g in prog.funcs.values():
            if g.key == f.key or g.kind in ("CXXConstructorDecl", "CXXDestructorDecl") and g.cls == f.cls:
                continue
            sg = eff.summary(g)
            gw = set(sg["writes"]) | set(sg["escapes"])
            touched = gw & reads
            if not touched:
                continue
            if gw & ownw or (trans[g.key]["writes"] & ownw):
                bad = _path_without_reset(ctx, g, touched, ownw)
                if bad is not None:
                    partial.append((g, sorted(short(t) for t in touched), bad))
                continue
            stale.append((g, sorted(short(t) for t in touched)))
        what = "const %s keeps derived state in %s" % (f.short, sorted(short(w) for w in ownw))
        if partial and not stale:
            g, t, bad = partial[0]
            rep.violation(rid, bad, g, what,
                          "%s modifies %s, which %s reads, and leaves through a path on which the derived state is neither reset nor cleared "
                          "(it is maintained incrementally or left as it is): the cached result can go stale" % (g.short, t, f.short),
                          key="%s|derived state not reset on a path of %s" % (f.short, g.short))
        elif stale:
            g, t = stale[0]
            rep.violation(rid, g.decl, g, what,
                          "%s modifies %s, which %s reads, without invalidating the derived state (%d such writer(s): %s): the cached result goes stale" % (
                              g.short, t, f.short, len(stale), sorted(x.short for x, _t in stale)[:6]),
                          key="%s|derived state not invalidated by %s" % (f.short, g.short))
        else:
            rep.holds(rid, f.decl, f, what, "every writer of what it reads also invalidates it")
    return n


def _is_reset(ctx, x, ownw):
    """x is `member = literal`, `member.clear()` / `.reset()` / `.assign(...)`, or `member = {}` for a member in ownw."""
    k = x.get("kind")
    if k == "BinaryOperator" and x.get("opcode") == "=":
        l, r = children(x)
        lc, rc = canon(l), canon(r)
        return lc[0] == "field" and lc[1] in ownw and rc[0] in ("lit", "enum")
    if k == "CXXMemberCallExpr":
        ci = callee_info(x)
        if ci and ci["name"] in ("clear", "reset") and ci["obj"] is not None:
            oc = canon(ci["obj"])
            return oc[0] == "field" and oc[1] in ownw
    if k == "CXXOperatorCallExpr":
        ci = callee_info(x)
        if ci and ci["name"] == "operator=":
            ch = children(x)
            if len(ch) >= 3:
                lc, rc = canon(ch[1]), canon(ch[2])
                return lc[0] == "field" and lc[1] in ownw and rc[0] in ("lit", "enum", "construct") and len(rc) <= 2
    return False


def _path_without_reset(ctx, g, touched, ownw):
    """A function that writes inputs of a cache and also touches the cache: is there a path entry -> input write -> exit that
    passes through no *reset* of the cache? Returns the offending input-write node, or None."""
    if g.body is None:
        return None
    cg = cfg_of(g)
    trans = ctx.eff.transitive()
    s = ctx.eff.summary(g)
    wnodes = []
    for q in touched:
        for x, u in s["writes"].get(q, []) + s["escapes"].get(q, []):
            n = cg.node_for(u.node) or cg.node_for(x)
            if n is not None:
                wnodes.append((n, x))
    resets = []
    for x in walk(g.body):
        if _is_reset(ctx, x, ownw):
            n = cg.node_for(x)
            if n is not None:
                resets.append(n)
        elif x.get("kind") in ("CXXMemberCallExpr", "CallExpr"):
            _ci, fs = ctx.eff.resolve_callee(x)
            for h in fs:
                if h.key != g.key and h.body is not None and _always_resets(ctx, h, ownw):
                    n = cg.node_for(x)
                    if n is not None:
                        resets.append(n)
    for n, x in wnodes:
        if n in resets:
            continue
        before = cg.entry is n or n.idx in cg.reachable_from([cg.entry], avoid=resets)
        after = cg.exit.idx in cg.reachable_from(n.succ, avoid=resets)
        if before and after:
            return x
    return None


def _always_resets(ctx, h, ownw, _depth=0):
    cg = cfg_of(h)
    for x in walk(h.body):
        if _is_reset(ctx, x, ownw):
            n = cg.node_for(x)
            if n is not None and cg.exit.idx not in cg.reachable_from([cg.entry], avoid=[n]):
                return True
    return False


# ---- binary search vs sort order ------------------------------------------------------------

SEARCHES = {"lower_bound", "upper_bound", "partition_point", "binary_search", "equal_range"}
SORTS = {"sort", "stable_sort"}


def _lambda_of(arg):
    x = strip(arg, casts=True)
    while x.get("kind") in ("CXXConstructExpr", "CXXFunctionalCastExpr", "MaterializeTemporaryExpr") and children(x):
        x = strip(children(x)[0], casts=True)
    return x if x.get("kind") == "LambdaExpr" else None


def _lambda_params_and_return(lam):
    lf = lam.get("_lam")
    if lf is None:
        return None, None
    rets = [y for y in walk(lf.body) if y.get("kind") == "ReturnStmt" and children(y)]
    if len(rets) != 1:
        return lf.params, None
    return lf.params, canon(children(rets[0])[0])


def _key_path(c, pid):
    """('first','minX') for elem.first.minX where elem is lambda parameter pid; () for the element itself."""
    path = []
    while c[0] == "field":
        path.append(str(c[1]).split("::")[-1])
        c = c[2]
    if c[0] == "call" and len(c) == 3 and c[2] != ("none",):     # accessor method on the element
        inner_path = _key_path(c[2], pid)
        if inner_path is not None:
            return inner_path + (str(c[1]).split("::")[-1] + "()",) + tuple(reversed(path))
    if c[0] == "var" and c[1] == pid:
        return tuple(reversed(path))
    return None


def _primary_key(ret, params):
    """Primary ordering key of a comparator `a.K < b.K [|| tie-breakers]` -> key path, or None."""
    if ret is None or len(params) < 2:
        return None
    c = ret
    while c[0] == "bin" and c[1] == "||":
        c = c[2]
    if c[0] == "bin" and c[1] in ("<", ">"):
        ka = _key_path(c[2], params[0].get("id"))
        kb = _key_path(c[3], params[1].get("id"))
        if ka is not None and ka == kb:
            return ka
    return None


def _search_key(ret, params):
    """Key path of the element side in a search predicate: `elem.K < value`, `value < elem.K`, `elem.K <= X`."""
    if ret is None:
        return None
    c = ret
    if c[0] != "bin" or c[1] not in ("<", ">", "<=", ">="):
        return None
    keys = []
    for p in params:
        for side in (c[2], c[3]):
            k = _key_path(side, p.get("id"))
            if k is not None:
                keys.append(k)
    keys = [k for k in keys if k != () or len(params) == 1]
    nonempty = [k for k in keys if k]
    if nonempty:
        return nonempty[0]
    return keys[0] if keys else None


def container_of_range(first, last):
    a, b = canon(first), canon(last)
    if a[0] == "call" and a[1] in ("begin", "cbegin") and b[0] == "call" and b[1] in ("end", "cend") and a[2] == b[2]:
        return a[2]
    return None


def check_sort_keys(ctx, rep, rid, funcs):
    """Every binary search over a container must use the key the container was sorted by."""
    prog = ctx.prog
    # ordering facts: container canon -> (key, where)
    orders = {}
    for f in prog.all_funcs(with_lambdas=False):
        for x in walk(f.body):
            if x.get("kind") == "CallExpr" and callee_info(x)["name"] in SORTS and callee_info(x)["external"]:
                args = callee_info(x)["args"]
                if len(args) < 2:
                    continue
                cont = container_of_range(args[0], args[1])
                if cont is None:
                    continue
                if len(args) >= 3:
                    lam = _lambda_of(args[2])
                    if lam is None:
                        continue
                    params, ret = _lambda_params_and_return(lam)
                    key = _primary_key(ret, params or [])
                    full = ret
                else:
                    key, full, params = ("<natural>",), None, None
                scope = f.key if cont[0] == "var" else "<class>"
                orders[(scope, _strip_ids(cont))] = (key, full, params, f, x)
    n = 0
    for f in funcs:
        for x in walk(f.body):
            if x.get("kind") != "CallExpr" or callee_info(x)["name"] not in SEARCHES or not callee_info(x)["external"]:
                continue
            args = callee_info(x)["args"]
            if len(args) < 2:
                continue
            cont = container_of_range(args[0], args[1])
            if cont is None:
                continue
            scope = f.key if cont[0] == "var" else "<class>"
            fact = orders.get((scope, _strip_ids(cont)))
            name = callee_info(x)["name"]
            what = "%s over %s" % (name, pretty(cont))
            if fact is None:
                rep.note("%s in %s: no sort of %s found, order not checked" % (name, f.short, pretty(cont)))
                continue
            n += 1
            skey, sfull, sparams, sf, sx = fact
            lam = _lambda_of(args[-1]) if len(args) >= (3 if name == "partition_point" else 4) else None
            if lam is None and name != "partition_point":
                key = ("<natural>",)
            elif lam is None:
                rep.unknown(rid, x, f, what, "predicate is not a lambda")
                continue
            else:
                params, ret = _lambda_params_and_return(lam)
                if params and sparams and len(params) == 2 and ret is not None and sfull is not None and \
                        _rename(ret, params) == _rename(sfull, sparams):
                    rep.holds(rid, x, f, what, "comparator identical to the one the container was sorted with (%s)" % loc_str(sx))
                    continue
                key = _search_key(ret, params or [])
            if key is None or skey is None:
                rep.unknown(rid, x, f, what, "ordering key not recognised (search: %s, sort: %s)" % (key, skey))
            elif key == skey:
                rep.holds(rid, x, f, what, "searches on %s, the key %s is sorted by (%s)" % (".".join(key), pretty(cont), loc_str(sx)))
            else:
                rep.violation(rid, x, f, what, "binary search on key %s, but %s is sorted by %s (at %s): the range is not partitioned with respect to the predicate" % (
                    ".".join(key), pretty(cont), ".".join(skey), loc_str(sx)), key="%s|%s on wrong key" % (f.short, name))
    return n


def _strip_ids(c):
    if not isinstance(c, tuple):
        return c
    if c and c[0] == "var":
        return ("var", c[2])
    return tuple(_strip_ids(x) for x in c)


def _rename(c, params):
    ids = {p.get("id"): "p%d" % i for i, p in enumerate(params)}
    if not isinstance(c, tuple):
        return c
    if c and c[0] == "var":
        return ("var", ids.get(c[1], c[2]))
    return tuple(_rename(x, params) for x in c)


# ---- who-may-write with rename awareness -------------------------------------------------

def method_access(prog, f):
    """'public' / 'protected' / 'private' of a member function (from the AccessSpecDecl sequence of its class), 'file' for a
    function in an anonymous namespace or a static free function, else 'public'."""
    if f.cls and f.cls in prog.records:
        rec = prog.records[f.cls]["decl"]
        acc = "private" if rec.get("tagUsed") == "class" else "public"
        for c in inner(rec):
            if c.get("kind") == "AccessSpecDecl":
                acc = c.get("access", acc)
            elif c.get("kind") in ("CXXMethodDecl", "FunctionTemplateDecl") and c.get("name") == (f.decl.get("name")):
                if c.get("kind") == "FunctionTemplateDecl" or qt(c) == f.type:
                    return acc
        return "private"
    if "(anonymous namespace)" in f.qname or f.decl.get("storageClass") == "static":
        return "file"
    return "public"


_CALLERS = {}


def callers_of(ctx, f):
    key = id(ctx)
    if key not in _CALLERS:
        m = {}
        for g in ctx.prog.funcs.values():
            for _c, h in ctx.eff.callees(g):
                m.setdefault(h.key, set()).add(g.key)
        _CALLERS.clear()
        _CALLERS[key] = m
    return [ctx.prog.funcs[k] for k in _CALLERS[key].get(f.key, ()) if k in ctx.prog.funcs]


def _private_helper_of(ctx, f, allowed, _seen=None):
    """f is not a listed writer, but it is a private / file-local function whose every caller is a listed writer (or, in turn, such
    a helper): splitting a listed writer into private pieces does not widen who may write."""
    _seen = _seen or set()
    if f.key in _seen:
        return True
    _seen = _seen | {f.key}
    if method_access(ctx.prog, f) not in ("private", "file"):
        return False
    cs = callers_of(ctx, f)
    if not cs:
        return False
    return all(c.short in allowed or _private_helper_of(ctx, c, allowed, _seen) for c in cs)


def check_writers(ctx, rep, rid, field_q, allowed, label, exclude_class=None, ignore_ctor_init=True):
    """Writers of member field_q must be inside `allowed` (short function names -> reason).
    If an allow-listed function no longer exists at all while an unknown writer appears, the table is stale
    (probably a rename): that is analysis-broken (UNKNOWN), not a violation. Returns the list of writes."""
    ws = field_writes(ctx, field_q, exclude_class=exclude_class)
    if ignore_ctor_init:
        ws = [(f, x, u) for f, x, u in ws if u.why != "constructor initialiser" or f.short in allowed or True]
    existing = {f.short for f in ctx.prog.funcs.values()}
    bad = [(f, x, u) for f, x, u in ws if f.short not in allowed and not (ignore_ctor_init and u.why == "constructor initialiser")
           and not _private_helper_of(ctx, f, allowed)]
    vanished = [a for a in allowed if a not in existing]
    if bad and vanished:
        f, x, u = bad[0]
        rep.unknown(rid, u.node, f, "%s written in %s" % (label, f.short),
                    "allow-listed writer(s) %s no longer exist and %s writes the member: renamed? the table in the rule must be re-confirmed" % (
                        vanished, sorted({b[0].short for b in bad})))
    elif bad:
        for f, x, u in bad:
            rep.violation(rid, u.node, f, "write to %s in %s" % (label, f.short), "%s (%s); allowed writers: %s" % (u.why, u.kind, sorted(allowed) or "none"),
                          key="%s|writes %s" % (f.short, label))
    else:
        rep.holds(rid, "-", None, "%s writers" % label, "%s" % (sorted({f.short for f, _x, _u in ws}) or "none"))
    return ws


# ---- accumulator width ---------------------------------------------------------------------------

import re as _re

_WIDTH = {"bool": 1, "char": 8, "short": 16, "int": 32, "unsigned int": 32, "float": 32, "long": 64, "long long": 64, "unsigned long": 64,
          "unsigned long long": 64, "double": 64, "long double": 80}


def check_accumulators(ctx, rep, rid, funcs, control=False):
    """std::accumulate / std::reduce / std::inner_product: the accumulator has the type of the *init* argument. An init of a type
    narrower than the element type (the literal 0 over a vector<long long>) silently truncates every partial sum.
    Returns the number of calls examined."""
    from ..model import desugared
    n = 0
    for f in funcs:
        if f.body is None:
            continue
        for x in walk(f.body):
            if x.get("kind") != "CallExpr":
                continue
            ci = callee_info(x)
            if not ci or ci["name"] not in ("accumulate", "reduce", "inner_product", "transform_reduce") or len(ci["args"]) < 3:
                continue
            init = ci["args"][3] if ci["name"] == "inner_product" and len(ci["args"]) > 3 else ci["args"][2]
            ti = (desugared(init) or qt(init) or "").replace("const ", "").strip()
            it = (desugared(ci["args"][0]) or qt(ci["args"][0]) or "")
            m = _re.search(r"__normal_iterator<(?:const )?([\w ]+?) ?\*", it) or _re.search(r"^(?:const )?([\w ]+?) ?\*", it)
            te = m.group(1).strip() if m else None
            # a custom folding operation (lambda): what is folded into the accumulator is what the lambda returns, before the
            # conversion to its declared return type
            op = strip(ci["args"][3], casts=True) if ci["name"] in ("accumulate", "reduce") and len(ci["args"]) > 3 else None
            while op is not None and op.get("kind") in ("CXXConstructExpr", "MaterializeTemporaryExpr", "CXXBindTemporaryExpr") and children(op):
                op = strip(children(op)[0], casts=True)
            if op is not None and op.get("kind") == "DeclRefExpr":
                # a lambda stored in a local first
                from ..expr import ref_decl as _rd
                vd = _rd(op) or {}
                vi = children(vd) if vd.get("kind") == "VarDecl" and "inner" in vd else []
                op = strip(vi[-1], casts=True) if vi else op
                while op.get("kind") in ("CXXConstructExpr", "MaterializeTemporaryExpr", "CXXBindTemporaryExpr", "ExprWithCleanups") and children(op):
                    op = strip(children(op)[0], casts=True)
            if op is not None and op.get("kind") == "LambdaExpr":
                body = [c for c in inner(op) if isinstance(c, dict) and c.get("kind") == "CompoundStmt"]
                rts = []
                for r_ in (walk(body[-1]) if body else []):
                    if r_.get("kind") == "ReturnStmt" and children(r_):
                        e_ = strip(children(r_)[0])
                        rts.append((desugared(e_) or qt(e_) or "").replace("const ", "").strip())
                known = [t for t in rts if t in _WIDTH]
                if known and len(known) == len(rts):
                    te = max(known, key=lambda t: (_WIDTH[t], t in ("float", "double")))
            if te is None:
                rep.unknown(rid, x, f, "%s over %s" % (ci["name"], it[:60]), "element type of the range not recognised")
                continue
            n += 1
            wi, we = _WIDTH.get(ti), _WIDTH.get(te)
            what = "%s over %s elements with a %s accumulator" % (ci["name"], te, ti)
            if wi is None or we is None:
                rep.holds(rid, x, f, what, "non-scalar accumulator")
            elif wi < we or (ti in ("int", "long", "long long", "unsigned int") and te in ("float", "double")):
                rep.violation(rid, x, f, what, "the accumulator takes the type of the initial value: every partial sum is truncated to %s" % ti,
                              key="%s|narrow accumulator" % f.short)
            else:
                rep.holds(rid, x, f, what)
    return n


def nonempty_fact(c, val):
    """If the branch condition c with truth value val implies that a container is non-empty, return the container's canonical
    form: !X.empty(), X.size() > 0, X.size() != 0, X.size() >= 1, 0 < X.size(), X.size() == n / >= n with n >= 1 ..."""
    if c[0] == "call" and c[1] == "empty" and len(c) == 3 and val is False:
        return c[2]
    if c[0] == "bin" and c[1] in ("<", "<=", ">", ">=", "==", "!="):
        op, a, b = c[1], c[2], c[3]
        flip = {"<": ">", "<=": ">=", ">": "<", ">=": "<=", "==": "==", "!=": "!="}
        neg = {"<": ">=", "<=": ">", ">": "<=", ">=": "<", "==": "!=", "!=": "=="}
        if b[0] == "call" and b[1] == "size" and len(b) == 3 and a[0] == "lit":
            op, a, b = flip[op], b, a
        if not (a[0] == "call" and a[1] == "size" and len(a) == 3 and b[0] == "lit"):
            return None
        try:
            n = int(str(b[1]).rstrip("uUlL"))
        except ValueError:
            return None
        if not val:
            op = neg[op]
        if (op == ">" and n >= 0) or (op == ">=" and n >= 1) or (op == "!=" and n == 0) or (op == "==" and n >= 1):
            return a[2]
    return None


def member_q(prog, cls_q, name, type_pred=None, why=""):
    """Qualified name of a data member, robust to a rename: the member called `name` if it exists, otherwise the *unique*
    member of the class whose declared type satisfies type_pred. Raises AnalysisBroken when neither identifies one member."""
    from ..frontend import AnalysisBroken
    r = prog.records.get(cls_q)
    if not r:
        raise AnalysisBroken("class %s not found" % cls_q)
    if name in r["fields"]:
        return cls_q + "::" + name
    if type_pred is not None:
        cand = [n for n, fd in r["fields"].items() if type_pred(qt(fd))]
        if len(cand) == 1:
            return cls_q + "::" + cand[0]
    raise AnalysisBroken("member %s::%s not found and not identifiable by its type%s" % (cls_q, name, (" (" + why + ")") if why else ""))


# ---- thin forwarders to a shared helper (merged X/Y variants) ---------------------------------------------

def forwarding_target(ctx, f, _depth=0):
    """If f only forwards (`return helper(args..., literal...)`), return (helper, {helper parameter id: literal canon}) so that a
    rule anchored at f can look at the code that does the work, specialised for the literals f passes. Otherwise (f, {})."""
    if f.body is None or _depth > 2:
        return f, {}
    stmts = [c for c in inner(f.body) if isinstance(c, dict) and c.get("kind")]
    if len(stmts) != 1:
        return f, {}
    if stmts[0].get("kind") == "ReturnStmt" and children(stmts[0]):
        e = strip(children(stmts[0])[0])
    elif stmts[0].get("kind") in ("CallExpr", "CXXMemberCallExpr", "ExprWithCleanups"):
        e = strip(stmts[0])          # `helper<T>(args);` as the only statement of a void function
    else:
        return f, {}
    while e.get("kind") in ("CXXConstructExpr", "ExprWithCleanups", "MaterializeTemporaryExpr", "CXXBindTemporaryExpr") and len(children(e)) == 1:
        e = strip(children(e)[0])
    if e.get("kind") not in ("CallExpr", "CXXMemberCallExpr"):
        return f, {}
    _c, hs = ctx.eff.resolve_callee(e)
    hs = [h for h in hs if h.body is not None and h.key != f.key]
    if len(hs) != 1:
        return f, {}
    h = hs[0]
    env = {}
    for i, a in enumerate(callee_info(e)["args"]):
        ca = canon(a)
        if ca[0] == "lit" and i < len(h.params):
            env[h.params[i].get("id")] = ca
    # without a literal to specialise on, the helper is only "the code of f" when it is an instantiation of a template made for f's
    # type arguments (runSubLegalizer<TetrisLegalizer>): a shared non-template helper does different things for different callers
    is_inst = (h.decl.get("_p") or {}).get("kind") == "FunctionTemplateDecl" and "|" not in h.key
    if not env and not is_inst:
        return f, {}
    h2, env2 = forwarding_target(ctx, h, _depth + 1)
    if h2 is not h:
        return h2, env2
    return h, env


def specialise(c, env):
    """Substitute parameters bound to literals and fold ?: on a literal condition."""
    if not isinstance(c, tuple) or not env:
        return c
    if c and c[0] == "var" and c[1] in env:
        return env[c[1]]
    c2 = tuple(specialise(x, env) if isinstance(x, tuple) else x for x in c)
    if c2 and c2[0] == "cond" and c2[1][0] == "lit" and isinstance(c2[1][1], bool):
        return c2[2] if c2[1][1] else c2[3]
    if c2 and c2[0] == "un" and c2[1] == "!" and c2[2][0] == "lit" and isinstance(c2[2][1], bool):
        return ("lit", not c2[2][1])
    return c2


def is_dead_under(node, func, env):
    """The AST node lies in an arm of a ?: / if whose condition is decided the other way by the literal bindings env."""
    if not env:
        return False
    child, p = node, node.get("_p")
    while p is not None and p is not func.body:
        k = p.get("kind")
        if k == "ConditionalOperator":
            ch = children(p)
            if len(ch) == 3 and child is not ch[0]:
                cv = specialise(canon(ch[0]), env)
                if cv[0] == "lit" and isinstance(cv[1], bool):
                    if (cv[1] and child is ch[2]) or (not cv[1] and child is ch[1]):
                        return True
        elif k == "IfStmt":
            ch = [c for c in inner(p) if isinstance(c, dict)]
            i = (1 if p.get("hasInit") else 0) + (1 if p.get("hasVar") else 0)
            if len(ch) > i + 1 and child is not ch[i]:
                cv = specialise(canon(ch[i]), env)
                if cv[0] == "lit" and isinstance(cv[1], bool):
                    if (cv[1] and len(ch) > i + 2 and child is ch[i + 2]) or (not cv[1] and child is ch[i + 1]):
                        return True
        child, p = p, p.get("_p")
    return False


def inline_getters(ctx, c, _depth=0, with_params=False):
    """Replace calls to trivial const member functions (`T f() const { return <expr over members>; }`, no parameters) by their
    body, with `this` replaced by the object expression: `b.length()` becomes `b.maxPos - b.minPos`. With with_params=True
    single-return functions taking parameters (thin wrappers) are inlined too, parameters replaced by the arguments."""
    if not isinstance(c, tuple) or _depth > 6:
        return c
    c = tuple(inline_getters(ctx, x, _depth + 1, with_params) if isinstance(x, tuple) else x for x in c)
    if c and c[0] == "field" and len(c) == 3 and isinstance(c[2], tuple) and c[2] and c[2][0] in ("initlist", "construct") and isinstance(c[1], str):
        # a member of an aggregate that was just built from a list: `blended(w).x` with `return {blend(xLB, xUB, w), blend(yLB, yUB, w)};`
        cls, _, fld = c[1].rpartition("::")
        rec = ctx.prog.records.get(cls)
        items = [t for t in (c[2][1:] if c[2][0] == "initlist" else c[2][2:]) if isinstance(t, tuple)]
        while len(items) == 1 and items[0][0] in ("initlist", "construct"):
            items = [t for t in (items[0][1:] if items[0][0] == "initlist" else items[0][2:]) if isinstance(t, tuple)]
        if rec is not None and fld in rec["fields"]:
            names = list(rec["fields"].keys())
            decl_order = [d.get("name") for d in inner(rec["decl"]) if isinstance(d, dict) and d.get("kind") == "FieldDecl"]
            if fld in decl_order and len(items) == len(decl_order):
                return items[decl_order.index(fld)]
    if c and c[0] == "call" and len(c) >= 3 and isinstance(c[1], str) and "::" in c[1] and (len(c) == 3 or with_params):
        fs = [f for f in ctx.prog.funcs_by_q.get(c[1], []) if len(f.params) == len(c) - 3 and f.body is not None]
        if len(fs) == 1:
            stmts = [x for x in inner(fs[0].body) if isinstance(x, dict) and x.get("kind")]
            if len(stmts) == 1 and stmts[0].get("kind") == "ReturnStmt" and children(stmts[0]):
                body = canon(children(stmts[0])[0])
                if not any(t[0] in ("call",) and t[1] == c[1] for t in subterms(body)):
                    pmap = {p.get("id"): c[3 + i] for i, p in enumerate(fs[0].params)}

                    def sub(t):
                        if t == ("this",):
                            return c[2] if c[2] not in (None, ("none",)) else t
                        if isinstance(t, tuple):
                            if t and t[0] == "var" and t[1] in pmap:
                                return pmap[t[1]]
                            return tuple(sub(x) if isinstance(x, tuple) else x for x in t)
                        return t
                    return inline_getters(ctx, sub(body), _depth + 1, with_params)
    return c



ELEMENT_ALGOS = {"transform": 0, "for_each": 0, "any_of": 0, "all_of": 0, "none_of": 0, "find_if": 0, "find_if_not": 0, "count_if": 0,
                 "copy_if": 0, "remove_if": 0, "partition": 0, "stable_partition": 0, "accumulate": 1}


def algo_element_container(param_decl):
    """If param_decl is the element parameter of a lambda handed directly to a standard algorithm over `X.begin(), X.end()`
    (std::transform, for_each, any_of, find_if, ... ; the second parameter for std::accumulate), return the AST node of X."""
    fn = param_decl.get("_p")                      # operator() of the closure, or the LambdaExpr's copy
    lam = fn
    while lam is not None and lam.get("kind") != "LambdaExpr":
        lam = lam.get("_p")
    if lam is None:
        return None
    params = [c for c in inner(fn) if isinstance(c, dict) and c.get("kind") == "ParmVarDecl"] if fn is not None else []
    if param_decl not in params:
        ids = [c.get("id") for c in params]
        if param_decl.get("id") not in ids:
            return None
        pos = ids.index(param_decl.get("id"))
    else:
        pos = params.index(param_decl)
    call = lam.get("_p")
    while call is not None and call.get("kind") in ("MaterializeTemporaryExpr", "CXXBindTemporaryExpr", "ImplicitCastExpr", "CXXConstructExpr",
                                                    "ExprWithCleanups", "ParenExpr"):
        call = call.get("_p")
    if call is None or call.get("kind") != "CallExpr":
        return None
    ci = callee_info(call)
    if not ci or ci["is_member"] or ci["name"] not in ELEMENT_ALGOS or ELEMENT_ALGOS[ci["name"]] != pos or len(ci["args"]) < 3:
        return None
    b, e = canon(ci["args"][0]), canon(ci["args"][1])
    if b[0] == "call" and b[1] in ("begin", "cbegin") and e[0] == "call" and e[1] in ("end", "cend") and len(b) == 3 and b[2] == e[2]:
        bo = strip(ci["args"][0], casts=True)
        while bo.get("kind") in ("CXXConstructExpr", "MaterializeTemporaryExpr", "CXXBindTemporaryExpr") and children(bo):
            bo = strip(children(bo)[0], casts=True)
        bci = callee_info(bo) if bo.get("kind") in CALL_KINDS else None
        return bci["obj"] if bci else None
    return None


def local_lambda_calls(func):
    """{lambda Func key: [list of argument-canon lists]} for lambdas stored in a local variable and invoked by name."""
    out = {}
    for x in walk(func.body):
        if x.get("kind") == "CXXOperatorCallExpr":
            ci = callee_info(x)
            if ci and ci["name"] == "operator()" and ci["obj"] is not None:
                oc = canon(ci["obj"])
                if oc[0] == "var":
                    d = func.unit.by_id.get(oc[1])
                    init = children(d) if d is not None and d.get("kind") == "VarDecl" else []
                    lam = strip(init[-1], casts=True) if init else None
                    while lam is not None and lam.get("kind") in ("CXXConstructExpr", "MaterializeTemporaryExpr", "CXXBindTemporaryExpr", "ExprWithCleanups") and children(lam):
                        lam = strip(children(lam)[0], casts=True)
                    if lam is not None and lam.get("kind") == "LambdaExpr" and lam.get("_lam") is not None:
                        out.setdefault(id(lam), (lam, []))[1].append([canon(a) for a in ci["args"]])
    return out



# ---- eagerly maintained derived members -----------------------------------------------------------------

def check_eager_derived(ctx, rep, rid, class_pred=None):
    """DE. A data member M is *derived* when every value it ever receives is computed from other members of the same object:
    `M = g()` with g an argument-less const method of the class (inputs: the members g reads), or a constructor initialiser
    `M(f(p, q))` over constructor parameters that are also copied verbatim into members (`u(p)`: input u). Such a member is a
    memoised result. Every other function that writes one of its inputs must re-derive M on every path afterwards, otherwise a
    function that reads both sees a stale M. Returns the number of derived members examined."""
    prog, eff = ctx.prog, ctx.eff
    trans = eff.transitive()
    n = 0
    for cq, rec in prog.records.items():
        if class_pred is not None and not class_pred(cq):
            continue
        ctors = [f for f in prog.funcs.values() if f.cls == cq and f.kind == "CXXConstructorDecl" and f.body is not None]
        methods = [f for f in prog.funcs.values() if f.cls == cq and f.kind == "CXXMethodDecl" and f.body is not None]
        if not methods:
            continue
        for name, fd in rec["fields"].items():
            mq = cq + "::" + name
            if fd.get("mutable"):
                continue
            inputs, derivs, pure = set(), [], True
            # constructor initialisers
            for c in ctors:
                copies = {}     # param id -> member q copied verbatim from it
                minit = None
                for ci_ in c.ctor_inits:
                    an = ci_.get("anyInit") or {}
                    ch = children(ci_)
                    if not an.get("name") or not ch:
                        continue
                    v = canon(ch[-1])
                    if v[0] == "call" and v[1] == "move" and len(v) >= 4:
                        v = v[3]
                    if an.get("name") == name:
                        minit = (ci_, v)
                    elif v[0] == "var":
                        copies[v[1]] = cq + "::" + an.get("name")
                if minit is None:
                    continue
                ci_, v = minit
                if v[0] in ("lit", "enum", "var") or (v[0] == "construct" and len(v) <= 2):
                    if v[0] == "var":
                        pure = False        # a stored argument, not a derived value
                    continue
                used = {t[1] for t in subterms(v) if isinstance(t, tuple) and t and t[0] == "var"}
                ins = {copies[i] for i in used if i in copies}
                if ins and used <= set(copies):
                    inputs |= ins
                    derivs.append((c, ci_))
                else:
                    pure = False
            # assignments in bodies
            for f, x, u in field_writes(ctx, mq):
                if f.cls != cq:
                    pure = False
                    continue
                asg = u.node
                rhs = None
                q_ = asg
                while q_ is not None and q_.get("kind") != "CXXCtorInitializer" and q_ is not f.body:
                    q_ = q_.get("_p")
                if q_ is not None and q_.get("kind") == "CXXCtorInitializer":
                    continue                # member initialisers were judged above
                if asg.get("kind") == "BinaryOperator" and asg.get("opcode") == "=" and canon(children(asg)[0]) == ("field", mq, ("this",)):
                    rhs = canon(children(asg)[1])
                elif asg.get("kind") == "CXXOperatorCallExpr" and callee_info(asg)["name"] == "operator=" and len(children(asg)) >= 3 and \
                        canon(children(asg)[1]) == ("field", mq, ("this",)):
                    rhs = canon(children(asg)[2])
                if rhs is not None and rhs[0] == "call" and len(rhs) == 3 and rhs[2] == ("this",) and isinstance(rhs[1], str):
                    gs = [g for g in prog.funcs_by_q.get(rhs[1], []) if g.cls == cq and g.is_const and not g.params]
                    if len(gs) == 1:
                        ins = {r for r in (set(trans.get(gs[0].key, {}).get("reads", ())) | set(eff.summary(gs[0])["reads"])) if r.startswith(cq + "::")}
                        ins.discard(mq)
                        if ins:
                            inputs |= ins
                            derivs.append((f, asg))
                            continue
                if rhs is not None and rhs[0] in ("lit", "enum"):
                    continue                # a reset to a constant is neither a derivation nor a stored value
                pure = False
            # a member that is itself an object of a library class is too coarse an input (the derivation reads some of its
            # state, a writer may change another part): only scalar / container members of this class count
            def _is_subobject(q):
                fdq = rec["fields"].get(q.split("::")[-1])
                t = (qt(fdq) if fdq is not None else "").replace("const ", "").strip().rstrip("&*").strip()
                return any(t == r or t == r.split("::")[-1] or r.endswith("::" + t) for r in prog.records)
            inputs = {i for i in inputs if not _is_subobject(i)}
            if not pure or not inputs or not derivs:
                continue
            # someone must look at M together with one of its inputs, otherwise staleness is not observable
            readers = [h for h in methods if mq in (set(trans.get(h.key, {}).get("reads", ())) | set(eff.summary(h)["reads"]))
                       and (inputs & (set(trans.get(h.key, {}).get("reads", ())) | set(eff.summary(h)["reads"])))
                       and not any(h is d[0] for d in derivs)]
            if not readers:
                continue
            n += 1
            what = "member %s is derived from %s" % (short(mq), sorted(short(i) for i in inputs))
            stale = None
            for g in prog.funcs.values():
                if g.body is None or g.kind in ("CXXConstructorDecl", "CXXDestructorDecl") and g.cls == cq:
                    continue
                sg = eff.summary(g)
                touched = (set(sg["writes"]) | set(sg["escapes"])) & inputs
                if not touched:
                    continue
                cg = cfg_of(g)
                dn = [cg.node_for(a) for f_, a in derivs if f_ is g]
                # calls of functions that re-derive M on every path
                for y in walk(g.body):
                    if y.get("kind") in ("CXXMemberCallExpr", "CallExpr"):
                        _c, hs = eff.resolve_callee(y)
                        for h in hs:
                            hd = [a for f_, a in derivs if f_ is h]
                            if hd:
                                hg = cfg_of(h)
                                hn = [hg.node_for(a) for a in hd]
                                if hg.exit.idx not in hg.reachable_from([hg.entry], avoid=[z for z in hn if z is not None]):
                                    dn.append(cg.node_for(y))
                dn = [z for z in dn if z is not None]
                for q in touched:
                    for x, u in sg["writes"].get(q, []) + sg["escapes"].get(q, []):
                        wn = cg.node_for(u.node) or cg.node_for(x)
                        if wn is None:
                            continue
                        if cg.exit.idx in cg.reachable_from([wn], avoid=dn) and wn not in dn:
                            stale = stale or (g, u.node, q)
            if stale:
                g, node, q = stale
                rep.violation(rid, node, g, what, "%s writes %s and can return without re-deriving %s, which %s reads together with it: the stored "
                              "value goes stale" % (g.short, short(q), name, readers[0].short),
                              key="%s|stale derived member %s" % (g.short, name))
            else:
                rep.holds(rid, derivs[0][1], derivs[0][0], what, "every writer of its inputs re-derives it on every path")
    return n




def shrinking_bound_loops(f):
    """for (i = 0; i < X.size(); ++i) { X.pop() / pop_back() / erase(...) }: the bound shrinks while the index grows, so only about
    half of the elements are removed. Returns [(loop node, canonical X)]."""
    out = []
    if f.body is None:
        return out
    for x in walk(f.body):
        li = for_loop_info(x) if x.get("kind") == "ForStmt" else None
        if not li or li["hi"] is None or li["step"] != 1:
            continue
        hi = li["hi"]
        if not (hi[0] == "call" and hi[1] == "size" and len(hi) == 3):
            continue
        cont = hi[2]
        for y in walk(li["body"]):
            if y.get("kind") == "CXXMemberCallExpr":
                ci = callee_info(y)
                if ci and ci["name"] in ("pop", "pop_back", "pop_front", "erase") and ci["obj"] is not None and canon(ci["obj"]) == cont:
                    out.append((x, cont))
                    break
    return out



# ---- paired parameters of one family ---------------------------------------------------------------------

def check_family_pairing(ctx, rep, rid, funcs, cls_q, pair=("Size", "Overlap")):
    """FP. The parameter struct cls_q holds pairs `<family><A>` / `<family><B>` (lineReoptSize / lineReoptOverlap, diagReopt...,
    squareReopt...): the check validates `overlap < size` per family and the window strides `size - overlap` rely on it. Wherever
    an <A> member and a <B> member meet - as the two operands of an operator, or as arguments of one call (local variables
    replaced by their initialisers) - they must belong to the same family. Returns the number of meeting points examined."""
    rec = ctx.prog.records.get(cls_q)
    if not rec:
        return 0
    names = set()
    for name in rec["fields"]:
        for i, suf in enumerate(pair):
            if name.endswith(suf) and len(name) > len(suf) and (name[:-len(suf)] + pair[1 - i]) in rec["fields"]:
                names.add(name)
    fam = {}
    # the same members exist in the internal parameter structs the user-facing one is copied into
    for rq, r2 in ctx.prog.records.items():
        for name in r2["fields"]:
            if name in names:
                for i, suf in enumerate(pair):
                    if name.endswith(suf):
                        fam[rq + "::" + name] = (name[:-len(suf)], i)
    if len({v[0] for v in fam.values()}) < 2:
        return 0

    def tags(c):
        out = set()
        for t in subterms(c):
            if isinstance(t, tuple) and t and t[0] == "field" and t[1] in fam:
                out.add(fam[t[1]])
        return out
    n = 0
    for f in funcs:
        if f.body is None:
            continue
        owner = f.outer if hasattr(f, "outer") and f.outer is not None else f
        for x in walk(f.body):
            k = x.get("kind")
            parts = None
            if k == "BinaryOperator" and x.get("opcode") in ("-", "<", "<=", ">", ">=", "==", "!=", "+", "/", "%", "*"):
                parts = children(x)
            elif k in ("CallExpr", "CXXMemberCallExpr", "CXXOperatorCallExpr", "CXXConstructExpr", "CXXTemporaryObjectExpr"):
                ci = callee_info(x)
                parts = ci["args"] if ci else None
            if not parts or len(parts) < 2:
                continue
            ts = [tags(expand_locals(ctx, owner, canon(p_))) for p_ in parts]
            a_f = {t[0] for tt in ts for t in tt if t[1] == 0}
            b_f = {t[0] for tt in ts for t in tt if t[1] == 1}
            # the two kinds must come from different operands / arguments to count as a meeting point
            if not a_f or not b_f or not any((any(t[1] == 0 for t in ts[i]) and any(t[1] == 1 for t in ts[j])) for i in range(len(ts)) for j in range(len(ts)) if i != j):
                continue
            n += 1
            what = "%s: %s" % (f.short, pretty(canon(x))[:70])
            if a_f == b_f and len(a_f) == 1:
                rep.holds(rid, x, f, what, "%s%s with %s%s" % (next(iter(a_f)), pair[0], next(iter(b_f)), pair[1]))
            else:
                rep.violation(rid, x, f, what, "%s of the %s family meets %s of the %s family: the bound that is validated (and the stride "
                              "that is computed) belongs to another window than the one it is used for" % (
                                  pair[0], sorted(a_f), pair[1], sorted(b_f)), key="%s|mixed parameter families" % f.short)
    return n



# ---- coordinates offset in floating point ----------------------------------------------------------------------

def float_offset_coordinates(prog, funcs, coord_pred):
    """`coordinate +/- floating value` (the coordinate an integer member selected by coord_pred: Rectangle / Row bounds) whose
    floating result becomes an integer bound again: through an implicit float -> int conversion, or as an argument of emplace_back /
    a constructor of a rectangle-like class (the conversion then happens inside the forwarding template). Returns
    [(node, func, canonical expression)]. The sum is formed in binary32/64: it is exact only below 2^24 and the conversion truncates
    towards zero, i.e. differently on the two sides of a row and of the origin."""
    out = []
    for f in funcs:
        if f.body is None:
            continue
        for src in walk(f.body):
            if src.get("kind") != "BinaryOperator" or src.get("opcode") not in ("+", "-"):
                continue
            t = ((src.get("type") or {}).get("qualType") or "").replace("const ", "")
            if t not in ("float", "double", "long double"):
                continue
            hit = False
            for o in children(src):
                oc = canon(o)
                if oc[0] == "field" and coord_pred(oc):
                    ot = ((strip(o, casts=True).get("type") or {}).get("qualType") or "").replace("const ", "")
                    if ot in ("int", "long", "long long"):
                        hit = True
            if not hit:
                continue
            p = src.get("_p")
            while p is not None and p.get("kind") in ("ParenExpr", "MaterializeTemporaryExpr", "ExprWithCleanups"):
                p = p.get("_p")
            if p is None:
                continue
            k = p.get("kind")
            sink = False
            if k == "ImplicitCastExpr" and p.get("castKind") == "FloatingToIntegral":
                sink = True
            elif k in ("CXXMemberCallExpr",) and callee_info(p)["name"] in ("emplace_back", "emplace") and callee_info(p)["obj"] is not None and \
                    any(w in qt(callee_info(p)["obj"]) for w in ("Rectangle", "Row")):
                sink = True
            elif k in ("CXXConstructExpr", "CXXTemporaryObjectExpr") and any(w in qt(p) for w in ("Rectangle", "Row")):
                sink = True
            if sink:
                out.append((src, f, canon(src)))
    return out



# ---- extremal element chosen by one key, another member used ---------------------------------------------------

def extremal_key_mismatches(f):
    """`std::max_element(b, e, [](a, b) { return a.K1 < b.K1; })->K2` (or min_element) with K2 != K1: the K2 of the element that is
    extremal for K1, which is not the extremal K2. Returns [(node, K1, K2)] for uses where the result is dereferenced to a member /
    accessor different from the comparator's key."""
    out = []
    if f.body is None:
        return out
    for x in walk(f.body):
        if x.get("kind") != "CallExpr":
            continue
        ci = callee_info(x)
        if not ci or ci["name"] not in ("max_element", "min_element") or len(ci["args"]) != 3:
            continue
        lam = strip(ci["args"][2], casts=True)
        while lam.get("kind") in ("CXXConstructExpr", "MaterializeTemporaryExpr", "CXXBindTemporaryExpr") and children(lam):
            lam = strip(children(lam)[0], casts=True)
        lf = lam.get("_lam") if lam.get("kind") == "LambdaExpr" else None
        rets = [r for r in walk(lf.body) if r.get("kind") == "ReturnStmt" and children(r)] if lf is not None and lf.body is not None else []
        if lf is None or len(rets) != 1 or len(lf.params) != 2:
            continue
        rc = canon(children(rets[0])[0])
        if not (rc[0] == "bin" and rc[1] in ("<", ">", "<=", ">=")):
            continue

        def key(c):
            if c[0] == "field" and c[2][0] == "var":
                return ("field", c[1].split("::")[-1])
            if c[0] == "call" and len(c) == 3 and isinstance(c[2], tuple) and c[2][0] == "var":
                return ("call", str(c[1]).split("::")[-1])
            return None
        k1, k2 = key(rc[2]), key(rc[3])
        if k1 is None or k1 != k2:
            continue
        # uses of the iterator: directly `->member` on the call, or through a local initialised with it
        uses = []
        p = x.get("_p")
        while p is not None and p.get("kind") in ("ImplicitCastExpr", "ParenExpr", "MaterializeTemporaryExpr", "ExprWithCleanups", "CXXConstructExpr", "CXXBindTemporaryExpr"):
            p = p.get("_p")
        roots = []
        if p is not None and p.get("kind") == "VarDecl":
            vid = p.get("id")
            roots = [y for y in walk(f.body) if y.get("kind") == "DeclRefExpr" and (y.get("referencedDecl") or {}).get("id") == vid]
        else:
            roots = [x]
        for r_ in roots:
            q = r_.get("_p")
            while q is not None and q.get("kind") in ("ImplicitCastExpr", "ParenExpr", "MaterializeTemporaryExpr", "CXXOperatorCallExpr", "UnaryOperator"):
                q = q.get("_p")
            if q is not None and q.get("kind") == "MemberExpr":
                used = ("call" if (q.get("_p") or {}).get("kind") == "CXXMemberCallExpr" else "field", q.get("name"))
                if used != k1:
                    out.append((q, k1[1], used[1]))
    return out



# ---- arguments passed in the slot of a neighbouring parameter -----------------------------------------------

def _leaf_name(c):
    """Identifier an argument is known by: the data member of another object (a parameter struct) it reads."""
    if not isinstance(c, tuple) or not c:
        return None
    # only data members carry a name that means something across functions (`params.sideMargin`); locals and loop indices
    # (`i`, `offs1`) are named by position and would match by accident
    if c[0] == "field" and c[2] != ("this",):
        return str(c[1]).split("::")[-1]
    return None


def _norm_name(n):
    return n.strip("_").lower() if n else None


def swapped_arguments(ctx, funcs):
    """Calls of library functions where an argument that is *named like* another parameter of the callee sits in the wrong slot:
    argument i is called exactly like parameter j (j != i, same type), is not called like parameter i, and the argument in slot j is
    not called like parameter j either. `f(circuit, margin, binSize)` for `f(circuit, binSize, margin)`. Returns
    [(call node, func, text)]."""
    out = []
    for f in funcs:
        if f.body is None:
            continue
        roots = [f.body] + list(getattr(f, "ctor_inits", []) or [])
        for root in roots:
            for x in walk(root):
                if x.get("kind") not in CALL_KINDS:
                    continue
                ci, hs = ctx.eff.resolve_callee(x)
                if not ci or len(hs) != 1:
                    continue
                h = hs[0]
                args = [a for a in ci["args"] if a.get("kind") != "CXXDefaultArgExpr"]
                if len(h.params) < 2 or len(args) < 2:
                    continue
                pn = [_norm_name(p.get("name")) for p in h.params]
                pt = [qt(p).replace("const ", "").replace("&", "").strip() for p in h.params]
                an = [_norm_name(_leaf_name(canon(a))) for a in args]
                for i in range(min(len(args), len(pn))):
                    if not an[i] or an[i] == pn[i]:
                        continue
                    for j in range(min(len(args), len(pn))):
                        if j == i or pn[j] != an[i] or pt[i] != pt[j]:
                            continue
                        if an[j] == pn[j]:
                            continue          # the slot of that parameter holds its namesake: two arguments of one name, not a swap
                        out.append((x, f, "argument %d (%s) of %s is named like parameter %d (%s); slot %d receives %s" % (
                            i + 1, _leaf_name(canon(args[i])), h.short, j + 1, h.params[j].get("name"), j + 1, pretty(canon(args[j]))[:40])))
    return out



def check_restart_per_iteration(ctx, rep, rid, funcs):
    """A running position that an inner loop advances from its own value (`pos += width`) *and uses* (as a call argument, a stored
    value) lays out one candidate; when the enclosing loop enumerates candidates it has to start again for each of them: declared, or
    assigned a value that does not depend on itself, inside the enclosing loop before the inner one. Hoisted out of the enclosing loop
    it makes every candidate after the first start where the previous one ended. Returns the number of such variables examined."""
    LOOPS = ("ForStmt", "CXXForRangeStmt", "WhileStmt", "DoStmt")
    n = 0
    for f in funcs:
        if f.body is None:
            continue
        for outer in [x for x in walk(f.body) if x.get("kind") in LOOPS]:
            obody = [c for c in inner(outer) if isinstance(c, dict) and c.get("kind")][-1]
            inners = [x for x in inner(obody) if isinstance(x, dict) and x.get("kind") in LOOPS] if obody.get("kind") == "CompoundStmt" else []
            for il in inners:
                upd = {}
                for x in walk(il):
                    k = x.get("kind")
                    if k == "CompoundAssignOperator" and x.get("opcode") in ("+=", "-="):
                        l = canon(children(x)[0])
                        if l[0] == "var":
                            upd[l[1]] = (l, x)
                    elif k == "BinaryOperator" and x.get("opcode") == "=":
                        l, r = canon(children(x)[0]), canon(children(x)[1])
                        if l[0] == "var" and r[0] == "bin" and r[1] in ("+", "-") and any(t[:2] == l[:2] for t in subterms(r)):
                            upd[l[1]] = (l, x)
                inside_outer = {id(y) for y in walk(obody)}
                inside_inner = {id(y) for y in walk(il)}
                for vid, (v, un) in upd.items():
                    d = f.unit.by_id.get(vid)
                    if d is None or d.get("kind") != "VarDecl" or id(d) in inside_inner:
                        continue
                    upd_nodes = {id(y) for y in walk(un)}
                    used = [r_ for r_ in ctx.eff.var_refs(f, vid) if id(r_) in inside_inner and id(r_) not in upd_nodes]
                    # used as a value handed on (argument / stored), not merely compared
                    handed = False
                    for r_ in used:
                        p_ = r_.get("_p")
                        while p_ is not None and p_.get("kind") in ("ImplicitCastExpr", "ParenExpr"):
                            p_ = p_.get("_p")
                        if p_ is not None and p_.get("kind") in ("CXXMemberCallExpr", "CallExpr", "CXXConstructExpr", "CXXOperatorCallExpr"):
                            handed = True
                    if not handed:
                        continue
                    n += 1
                    ok = id(d) in inside_outer
                    if not ok:
                        for y in walk(obody):
                            if id(y) in inside_inner:
                                continue
                            if y.get("range", {}).get("begin", {}).get("offset", 0) > il.get("range", {}).get("begin", {}).get("offset", 0):
                                continue
                            if y.get("kind") == "BinaryOperator" and y.get("opcode") == "=":
                                l, r = canon(children(y)[0]), canon(children(y)[1])
                                if l[:2] == v[:2] and not any(t[:2] == v[:2] for t in subterms(r)):
                                    ok = True
                    what = "%s: running position %s advanced and used by the inner loop" % (f.short, v[2])
                    if ok:
                        rep.holds(rid, d, f, what, "restarted for every iteration of the enclosing loop")
                    else:
                        rep.violation(rid, d, f, what, "it is initialised outside the enclosing loop and never restarted inside it: every candidate after the "
                                      "first is laid out starting where the previous one ended (beyond the region)", key="%s|running position not restarted" % f.short)
    return n



# ---- integer modules stay in integers -------------------------------------------------------------------------

def check_no_float(ctx, rep, rid, class_pred, why):
    """NF. The classes selected by class_pred compute positions, supplies and costs in (64-bit) integers; a value that passes through
    float is exact only below 2^24. No implicit integer <-> floating conversion may occur in their member functions, except in
    accessors whose declared result is floating point. Returns the number of functions examined."""
    n = 0
    bad = []
    for f in ctx.prog.all_funcs(with_lambdas=False):
        if f.body is None or not f.cls or not class_pred(f.cls):
            continue
        rt = (f.type or "").split("(")[0].strip()
        if rt in ("float", "double"):
            continue
        n += 1
        for x in walk(f.body):
            if x.get("kind") == "ImplicitCastExpr" and x.get("castKind") in ("IntegralToFloating", "FloatingToIntegral"):
                src = strip(children(x)[0])
                if src.get("kind") in ("IntegerLiteral", "FloatingLiteral"):
                    continue
                bad.append((x, f, x.get("castKind"), pretty(canon(src))[:60]))
    for x, f, ck, what in bad:
        rep.violation(rid, x, f, "%s: %s of %s" % (f.short, "integer value converted to floating point" if ck == "IntegralToFloating" else
                                                   "floating-point value truncated to an integer", what), why,
                      key="%s|floating point in an integer computation" % f.short)
    return n, len(bad)


# ---- running minimum / maximum sentinels ----------------------------------------------------------------

def _running_extrema(f):
    """{var id: ('min'|'max', [canonical expressions folded in], decl)} for locals updated as v = std::min/max(v, e) (either
    argument order) anywhere in f."""
    out = {}
    for x in walk(f.body):
        if x.get("kind") == "BinaryOperator" and x.get("opcode") == "=":
            l, r = canon(children(x)[0]), canon(children(x)[1])
            if l[0] == "var" and r[0] == "call" and r[1] in ("min", "max") and len(r) == 5 and l in r[3:]:
                e = r[4] if r[3] == l else r[3]
                d = f.unit.by_id.get(l[1])
                if d is not None and d.get("kind") == "VarDecl":
                    ent = out.setdefault(l[1], [r[1], [], d, l])
                    if ent[0] != r[1]:
                        ent[0] = "mixed"
                    ent[1].append(e)
    # if-form: `if (e > v) { v = e; ... }`
    for x in walk(f.body):
        if x.get("kind") != "IfStmt":
            continue
        cs = children(x)
        cond = canon(cs[0])
        if cond[0] != "bin" or cond[1] not in ("<", "<=", ">", ">=") or len(cs) < 2:
            continue
        for z in walk(cs[1]):
            if z.get("kind") == "BinaryOperator" and z.get("opcode") == "=":
                l, r = canon(children(z)[0]), canon(children(z)[1])
                if l[0] != "var" or {cond[2], cond[3]} != {l, r} or l == r:
                    continue
                bigger = cond[2] if cond[1] in (">", ">=") else cond[3]      # the operand that is the larger one when the test holds
                kind_ = "max" if bigger == r else "min"
                d = f.unit.by_id.get(l[1])
                if d is not None and d.get("kind") == "VarDecl":
                    ent = out.setdefault(l[1], [kind_, [], d, l])
                    if ent[0] != kind_:
                        ent[0] = "mixed"
                    ent[1].append(r)
    return out


def check_sentinels(ctx, rep, rid, funcs):
    """SN. (a) A running *maximum* must start below every value: std::numeric_limits<float / double>::min() is the smallest
    *positive* value, so a maximum started there never goes below zero (lowest() is the most negative one). (b) A running minimum
    and a running maximum folded over the *same* expression coincide for a single element: `min < max` as a test for "something
    was seen" drops exactly that case (the test is `min <= max`). Returns the number of accumulators examined."""
    n = 0
    for f in funcs:
        if f.body is None:
            continue
        ext = _running_extrema(f)
        if not ext:
            continue
        for vid, (kind_, exprs, d, v) in ext.items():
            n += 1
            init = children(d)
            ic = strip(init[-1], casts=True) if init else None
            for _hop in range(3):                                    # `float best = worst;` - the sentinel is what `worst` was initialised with
                if ic is not None and ic.get("kind") == "DeclRefExpr":
                    d2 = f.unit.by_id.get((ic.get("referencedDecl") or {}).get("id"))
                    i2 = children(d2) if d2 is not None and d2.get("kind") == "VarDecl" else None
                    if i2:
                        ic = strip(i2[-1], casts=True)
                        continue
                break
            what = "%s: running %s %s" % (f.short, "maximum" if kind_ == "max" else "minimum", v[2])
            bad = False
            if ic is not None and ic.get("kind") == "CallExpr":
                ci = callee_info(ic)
                t = ((ic.get("type") or {}).get("desugaredQualType") or qt(ic)).replace("const ", "")
                if ci and not ci["args"] and kind_ == "max" and ci["name"] == "min" and t in ("float", "double", "long double"):
                    rep.violation(rid, d, f, what, "starts at std::numeric_limits<%s>::min(), the smallest positive value: the maximum of negative "
                                  "values comes out as ~0 (lowest() is the most negative value)" % t, key="%s|maximum started at the smallest positive float" % f.short)
                    bad = True
                elif ci and not ci["args"] and ((kind_ == "max" and ci["name"] == "max") or (kind_ == "min" and ci["name"] in ("min", "lowest"))):
                    rep.violation(rid, d, f, what, "starts at the wrong end of the range (numeric_limits::%s())" % ci["name"],
                                  key="%s|accumulator started at the wrong end" % f.short)
                    bad = True
            if not bad:
                rep.holds(rid, d, f, what, "initial value on the neutral side")
        # (b) strict comparison between a minimum and a maximum of the same expression
        mins = {vid: e for vid, e in ext.items() if e[0] == "min"}
        maxs = {vid: e for vid, e in ext.items() if e[0] == "max"}
        for x in walk(f.body):
            if x.get("kind") != "BinaryOperator" or x.get("opcode") not in ("<", ">", "<=", ">="):
                continue
            a, b = canon(children(x)[0]), canon(children(x)[1])
            op = x.get("opcode")
            if a[0] != "var" or b[0] != "var":
                continue
            if a[1] in maxs and b[1] in mins:
                a, b, op = b, a, {"<": ">", ">": "<", "<=": ">=", ">=": "<="}[op]
            if not (a[1] in mins and b[1] in maxs):
                continue
            same = any(e1 == e2 for e1 in mins[a[1]][1] for e2 in maxs[b[1]][1])
            if not same:
                continue
            p = x.get("_p")
            while p is not None and p.get("kind") in ("ParenExpr", "ImplicitCastExpr"):
                p = p.get("_p")
            if p is None or p.get("kind") not in ("IfStmt", "ConditionalOperator", "WhileStmt", "BinaryOperator", "UnaryOperator", "ForStmt"):
                continue
            n += 1
            what = "%s: test %s between the running minimum and maximum of one expression" % (f.short, pretty(canon(x)))
            if op in ("<", ">="):
                rep.violation(rid, x, f, what, "a single element gives minimum == maximum: `%s %s %s` treats that case like the empty one "
                              "(non-empty is minimum <= maximum)" % (a[2], op, b[2]), key="%s|strict emptiness test on an extent" % f.short)
            else:
                rep.holds(rid, x, f, what, "separates exactly the empty case (minimum > maximum)")
    return n


# ---- index obtained on a sorted copy used on the unsorted original ------------------------------------

def check_sorted_copy_index(ctx, rep, rid, funcs):
    """Within one function: container X is a copy of container Y (assignment / member initialiser) and is then permuted
    (std::sort, stable_sort, reverse, shuffle ...). An index computed from an iterator into X (`it - X.begin()`, lower_bound /
    upper_bound / find over X) designates a position in the *permuted* order: subscripting Y with it reads another element.
    Returns the number of (X, Y) pairs examined."""
    n = 0
    for f in funcs:
        if f.body is None:
            continue
        copies = {}      # canon(X) -> canon(Y)
        for ci_ in f.ctor_inits:
            an = ci_.get("anyInit") or {}
            d = f.unit.by_id.get(an.get("id")) if an.get("id") else None
            if d is not None and children(ci_):
                src = canon(children(ci_)[-1])
                if src[0] == "var":
                    copies[("field", d.get("_q"), ("this",))] = src
        for x in walk(f.body):
            if x.get("kind") == "CXXOperatorCallExpr" and callee_info(x)["name"] == "operator=":
                ch = children(x)
                if len(ch) >= 3:
                    l, r = canon(ch[1]), canon(ch[2])
                    if l[0] in ("field", "var") and r[0] in ("var", "field") and l != r:
                        copies[l] = r
        permuted = set()
        for x in walk(f.body):
            if x.get("kind") == "CallExpr":
                ci = callee_info(x)
                if ci and ci["name"] in ("sort", "stable_sort", "reverse", "shuffle", "partial_sort", "nth_element", "rotate") and ci["args"]:
                    a0 = canon(ci["args"][0])
                    if a0[0] == "call" and a0[1] in ("begin", "rbegin") and a0[2] in copies:
                        permuted.add(a0[2])
        for X in permuted:
            Y = copies[X]
            n += 1
            # locals holding a position in X
            posvars = set()
            for x in walk(f.body):
                if x.get("kind") == "VarDecl" and children(x):
                    c = canon(children(x)[-1])
                    if any(t[0] == "call" and t[1] in ("begin", "cbegin") and t[2] == X for t in subterms(c)) and \
                            any(t[0] in ("op", "bin") and "-" in str(t[1]) for t in subterms(c)):
                        posvars.add(x.get("id"))
            bad = None
            for x in walk(f.body):
                if x.get("kind") == "CXXOperatorCallExpr" and callee_info(x)["name"] == "operator[]":
                    c = canon(x)
                    if c[0] == "index" and c[1] == Y and any(t[0] == "var" and t[1] in posvars for t in subterms(c[2])):
                        bad = x
            what = "%s: %s is a sorted copy of %s" % (f.short, pretty(X), pretty(Y))
            if bad is not None:
                rep.violation(rid, bad, f, what, "%s is subscripted with a position computed in the sorted copy %s: another element is read whenever the "
                              "original is not already in that order" % (pretty(Y), pretty(X)), key="%s|position of the sorted copy used on the original" % f.short)
            else:
                rep.holds(rid, f.decl, f, what, "positions found in the copy (%d local(s)) only subscript the copy" % len(posvars))
    return n


# ---- accumulators of an inner loop must be reset in every iteration of the outer loop ---------------------

def check_loop_accumulators(ctx, rep, rid, funcs):
    """A local that an inner loop updates from its own value (v = min(v, e), v = max(v, e), v += e, v.push_back(e), v = v || e) and
    that the enclosing loop consumes after the inner loop is a *per-iteration accumulator*: it must be declared, or assigned a value
    that does not depend on itself, inside the body of the enclosing loop before the inner loop. Hoisting its initialisation out of
    the enclosing loop carries the previous iteration's result over. Returns the number of accumulators examined."""
    LOOPS = ("ForStmt", "CXXForRangeStmt", "WhileStmt", "DoStmt")
    n = 0
    for f in funcs:
        if f.body is None:
            continue
        for outer in [x for x in walk(f.body) if x.get("kind") in LOOPS]:
            obody = [c for c in inner(outer) if isinstance(c, dict) and c.get("kind")][-1]
            inners = [x for x in inner(obody) if isinstance(x, dict) and x.get("kind") in LOOPS] if obody.get("kind") == "CompoundStmt" else []
            for il in inners:
                accs = {}
                for x in walk(il):
                    k = x.get("kind")
                    if k == "BinaryOperator" and x.get("opcode") == "=":
                        l, r = canon(children(x)[0]), canon(children(x)[1])
                        if l[0] == "var" and any(t[:2] == l[:2] for t in subterms(r)):
                            accs[l[1]] = l
                    elif k == "CompoundAssignOperator":
                        l = canon(children(x)[0])
                        if l[0] == "var":
                            accs[l[1]] = l
                    elif k == "CXXMemberCallExpr" and callee_info(x)["name"] in ("push_back", "emplace_back", "insert") and callee_info(x)["obj"] is not None:
                        o = canon(callee_info(x)["obj"])
                        if o[0] == "var":
                            accs[o[1]] = o
                inside_outer = {id(y) for y in walk(obody)}
                inside_inner = {id(y) for y in walk(il)}
                for vid, v in accs.items():
                    d = f.unit.by_id.get(vid)
                    if d is None or d.get("kind") != "VarDecl" or id(d) in inside_inner:
                        continue
                    # consumed by the outer loop after the inner one?
                    uses_after = [r_ for r_ in ctx.eff.var_refs(f, vid) if id(r_) in inside_outer and id(r_) not in inside_inner and
                                  (r_.get("range", {}).get("begin", {}).get("offset", 0) > il.get("range", {}).get("end", {}).get("offset", 0))]
                    if not uses_after:
                        continue
                    n += 1
                    ok = id(d) in inside_outer
                    if not ok:
                        for y in walk(obody):
                            if id(y) in inside_inner:
                                continue
                            if y.get("range", {}).get("begin", {}).get("offset", 0) > il.get("range", {}).get("begin", {}).get("offset", 0):
                                continue
                            k = y.get("kind")
                            if k == "BinaryOperator" and y.get("opcode") == "=":
                                l, r = canon(children(y)[0]), canon(children(y)[1])
                                if l[:2] == v[:2] and not any(t[:2] == v[:2] for t in subterms(r)):
                                    ok = True
                            elif k == "CXXMemberCallExpr" and callee_info(y)["name"] in ("clear", "assign", "resize") and callee_info(y)["obj"] is not None and \
                                    canon(callee_info(y)["obj"])[:2] == v[:2]:
                                ok = True
                            elif k == "CXXOperatorCallExpr" and callee_info(y)["name"] == "operator=":
                                ch = children(y)
                                if len(ch) >= 3 and canon(ch[1])[:2] == v[:2] and not any(t[:2] == v[:2] for t in subterms(canon(ch[2]))):
                                    ok = True
                    what = "%s: accumulator %s of the inner loop, consumed once per iteration of the enclosing loop" % (f.short, v[2])
                    if ok:
                        rep.holds(rid, d, f, what, "initialised inside the enclosing loop")
                    else:
                        rep.violation(rid, il, f, what, "it is declared before the enclosing loop and never reset inside it: the value accumulated for the "
                                      "previous iteration is carried over", key="%s|accumulator %s not reset per iteration" % (f.short, v[2]))
    return n


# ---- EV: element read of a container that is still empty ------------------------------------

EV_ELEMENT = ("front", "back", "at")
EV_PASSIVE = ("size", "empty", "reserve", "capacity", "begin", "end", "cbegin", "cend", "rbegin", "rend", "clear", "shrink_to_fit", "max_size")


def check_empty_reads(ctx, rep, rid, funcs):
    """EV. A vector that starts empty (a default-constructed local; in a constructor, a member the initialiser list gives no arguments)
    has no element until something fills it. An element read (`front()`, `back()`, `at()`, `[]`) at a point no filling statement can
    reach is either undefined behaviour or - under an `!empty()` test - dead code whose result is silently replaced by the default:
    typically a read moved above the loop that fills the container. Every use that is neither an element read nor a size query
    counts as "may fill". Returns (containers that start empty, of which read by element)."""
    n = 0
    nobj = 0
    for f in funcs:
        if f.body is None:
            continue
        objs = {}                                            # key -> description
        for y in walk(f.body):
            if y.get("kind") == "VarDecl" and "vector<" in qt(y) and "&" not in qt(y) and "*" not in qt(y) and not qt(y).startswith("const "):
                ch = children(y)
                init = ch[-1] if ch else None
                while init is not None and init.get("kind") in ("ExprWithCleanups", "CXXBindTemporaryExpr", "MaterializeTemporaryExpr") and children(init):
                    init = children(init)[0]
                if init is None or (init.get("kind") == "CXXConstructExpr" and not children(init)):
                    objs[("var", y.get("id"))] = y.get("name")
        if f.kind == "CXXConstructorDecl":
            given = set()
            for ci_ in f.ctor_inits:
                an = ci_.get("anyInit") or {}
                args = [c for c in children(ci_)]
                a0 = args[0] if args else None
                if a0 is not None and not (a0.get("kind") == "CXXConstructExpr" and not children(a0)):
                    given.add(an.get("name"))
            cls = ctx.prog.classes.get(f.cls) if hasattr(ctx.prog, "classes") else None
            for y in walk(f.body):
                if y.get("kind") == "MemberExpr" and "vector<" in qt(y) and children(y) and children(y)[0].get("kind") == "CXXThisExpr" and y.get("name") not in given:
                    objs[("field", y.get("name"))] = y.get("name")
        if not objs:
            continue
        nobj += len(objs)
        g = cfg_of(f)
        uses = {k: {"elem": [], "fill": []} for k in objs}
        for y in walk(f.body):
            key = None
            if y.get("kind") == "DeclRefExpr" and ("var", (y.get("referencedDecl") or {}).get("id")) in objs:
                key = ("var", (y.get("referencedDecl") or {}).get("id"))
            elif y.get("kind") == "MemberExpr" and children(y) and children(y)[0].get("kind") == "CXXThisExpr" and ("field", y.get("name")) in objs:
                key = ("field", y.get("name"))
            if key is None:
                continue
            p = y.get("_p") or {}
            while p.get("kind") in ("ParenExpr", "ImplicitCastExpr") and not (p.get("kind") == "ImplicitCastExpr" and p.get("castKind") not in ("NoOp", "LValueToRValue", None)):
                p = p.get("_p") or {}
            if p.get("kind") == "MemberExpr" and p.get("name") in EV_ELEMENT:
                uses[key]["elem"].append(y)
            elif p.get("kind") == "MemberExpr" and p.get("name") in EV_PASSIVE:
                pass
            elif p.get("kind") == "CXXOperatorCallExpr" and callee_info(p) and callee_info(p)["name"] == "operator[]" and \
                    callee_info(p)["obj"] is not None and strip(callee_info(p)["obj"], casts=True) is y:
                uses[key]["elem"].append(y)
            else:
                uses[key]["fill"].append(y)
        for key, u in uses.items():
            if not u["elem"]:
                continue
            n += 1
            fills = [g.node_for(y) for y in u["fill"]]
            fills = [x for x in fills if x is not None]
            reach = g.reachable_from(fills) if fills else set()
            bad = []
            for y in u["elem"]:
                r = g.node_for(y)
                if r is None:
                    continue
                if r.idx not in reach and not any(x is r for x in fills):
                    bad.append(y)
            what = "%s: element reads of %s" % (f.short, objs[key])
            if bad:
                rep.violation(rid, bad[0], f, what, "%d read(s) at a point where the container is still empty on every path (nothing that fills it can have run): "
                              "undefined behaviour, or dead code under an emptiness test" % len(bad), key="%s|%s read before it is filled" % (f.short, objs[key]))
            else:
                rep.holds(rid, u["elem"][0], f, what, "%d read(s), each reachable only after a statement that may fill the container" % len(u["elem"]))
    return nobj, n


# ---- BU: do / undo pairs of a backtracking search -------------------------------------------

def check_balanced_undo(ctx, rep, rid, funcs):
    """BU. A backtracking enumeration (a function that calls itself) changes shared state before it descends and takes the change back
    afterwards: push_back / pop_back on one container, `x += e` / `x -= e`, `++x` / `--x`. The two halves must run under the same
    conditions: an undo that is unconditional while its do sits under a test (or the reverse) leaves the state drifting a little
    further from the truth on every branch where the test fails. Returns the number of do/undo pairs examined."""
    n = 0
    for f in funcs:
        if f.body is None:
            continue
        rec = False
        for x in walk(f.body):
            if x.get("kind") in ("CXXMemberCallExpr", "CallExpr"):
                ci = callee_info(x)
                if ci and ci.get("qname") == f.qname:
                    rec = True
        if not rec:
            continue
        ops = {}
        for x in walk(f.body):
            k = x.get("kind")
            if k == "CXXMemberCallExpr":
                ci = callee_info(x)
                if ci and ci["name"] in ("push_back", "emplace_back", "pop_back") and ci["obj"] is not None:
                    key = ("seq", canon(ci["obj"]))
                    ops.setdefault(key, {"do": [], "undo": []})["undo" if ci["name"] == "pop_back" else "do"].append(x)
            elif k == "CompoundAssignOperator" and x.get("opcode") in ("+=", "-="):
                l, r = children(x)
                key = ("acc", canon(l), expand_locals(ctx, f, canon(r)))
                ops.setdefault(key, {"do": [], "undo": []})["do" if x.get("opcode") == "+=" else "undo"].append(x)
            elif k == "UnaryOperator" and x.get("opcode") in ("++", "--"):
                key = ("cnt", canon(children(x)[0]))
                ops.setdefault(key, {"do": [], "undo": []})["do" if x.get("opcode") == "++" else "undo"].append(x)
        for key, du in ops.items():
            if not du["do"] or not du["undo"]:
                continue
            if key[0] == "cnt" and key[1][0] == "var":
                d = f.unit.by_id.get(key[1][1])
                p = (d or {}).get("_p") or {}
                if p.get("kind") == "DeclStmt" and (p.get("_p") or {}).get("kind") == "ForStmt":
                    continue                                  # a loop counter stepped both ways is not search state
            n += 1
            gs = lambda x: frozenset((gc, bool(val)) for gc, val, _a, asr in (ctx.guards(f, x) or []) if not asr)
            gd = {gs(x) for x in du["do"]}
            gu = {gs(x) for x in du["undo"]}
            what = "%s: %s is changed before the recursive descent and changed back after it" % (f.short, pretty(key[1])[:40])
            if gd == gu:
                rep.holds(rid, du["do"][0], f, what, "both halves run under the same conditions")
            else:
                only_d = [pretty(g_)[:40] for s_ in gd for (g_, v_) in s_ if not any((g_, v_) in t_ for t_ in gu)]
                only_u = [pretty(g_)[:40] for s_ in gu for (g_, v_) in s_ if not any((g_, v_) in t_ for t_ in gd)]
                rep.violation(rid, du["undo"][0], f, what, "but not under the same conditions (only the change: %s; only the change back: %s): on the "
                              "branches where they differ the state keeps an amount it never received, or loses one it did" % (only_d or "-", only_u or "-"),
                              key="%s|%s undone under other conditions than done" % (f.short, pretty(key[1])[:30]))
    return n


# ---- CA: a compacted copy of the circuit's cells and its write-back ------------------------------

def _cell_loops(ctx, f):
    """for-loops of f over 0 .. <circuit>.nbCells(): (loop info, canonical circuit object)."""
    out = []
    for x in walk(f.body):
        if x.get("kind") != "ForStmt":
            continue
        l = for_loop_info(x)
        if not l or l.get("step") != 1 or l["lo"] != ("lit", "0"):
            continue
        hi = l["hi"]
        if hi[0] == "call" and hi[1] == CQ + "Circuit::nbCells" and len(hi) > 2:
            out.append((l, hi[2]))
    return out


def _norm(c, ren):
    if isinstance(c, tuple):
        if c in ren:
            return ren[c]
        return tuple(_norm(t, ren) for t in c)
    return c


def check_compaction(ctx, rep, rid, builder, exporter):
    """CA. `builder` copies the per-cell data of the circuit into vectors that hold one entry per *kept* cell (the others are skipped by
    `continue`) and hands them to a constructor; `exporter` walks the circuit's cells again, advancing an index into the compact
    numbering for every cell it does not skip. (1) every vector is pushed under the same conditions on the cell; (2) every per-cell
    vector handed to the constructor is one of those compact vectors, not a member of the circuit in the circuit's numbering;
    (3) the exporter advances its compact index under exactly the builder's conditions. Otherwise entry j of one vector speaks about
    another cell than entry j of the next, or the write-back shifts every later cell."""
    bl = _cell_loops(ctx, builder)
    if len(bl) != 1:
        rep.unknown(rid, builder.decl, builder, "cell loop of %s" % builder.short, "%d loops over the circuit's cells (shape changed)" % len(bl))
        return
    l, circ = bl[0]
    ren = {l["var"]: ("cell",), circ: ("circuit",)}

    def cell_guards(f, x, lv, ren_):
        out = set()
        for gc, val, _a, asr in (ctx.guards(f, x) or []):
            if asr:
                continue
            if lv in set(t for t in subterms(gc) if isinstance(t, tuple)):
                out.add((_norm(expand_locals(ctx, f, gc), ren_), bool(val)))
        return frozenset(out)
    pushes = {}
    for x in walk(l["body"]):
        if x.get("kind") == "CXXMemberCallExpr":
            ci = callee_info(x)
            if ci and ci["name"] in ("push_back", "emplace_back") and ci["obj"] is not None:
                oc = canon(ci["obj"])
                if oc[0] == "var":
                    pushes.setdefault(oc[1], []).append((x, cell_guards(builder, x, l["var"], ren), oc[2]))
    if not pushes:
        rep.unknown(rid, l["stmt"], builder, "compact vectors of %s" % builder.short, "no push inside the cell loop (shape changed)")
        return
    gsets = {g_ for lst in pushes.values() for _x, g_, _n in lst}
    what = "%s: %d vectors hold one entry per kept cell" % (builder.short, len(pushes))
    if len(gsets) == 1 and all(len(lst) == 1 for lst in pushes.values()):
        rep.holds(rid, l["stmt"], builder, what, "each is pushed once per cell under the same conditions (%s)" % ", ".join("%s is %s" % (pretty(g_)[:40], v_) for g_, v_ in sorted(list(gsets)[0], key=str)))
    else:
        rep.violation(rid, l["stmt"], builder, what, "but they are not all pushed under the same conditions on the cell: entry j of one vector belongs to another "
                      "cell than entry j of the next", key="%s|compact vectors pushed under different conditions" % builder.short)
    bg = sorted(gsets, key=lambda s_: -len(s_))[0]
    # (2) constructor arguments
    for x in walk(builder.body):
        if x.get("kind") in ("CXXConstructExpr", "CXXTemporaryObjectExpr") and len(children(x)) >= 3:
            for a_ in children(x):
                ac = canon(a_)
                t = qt(a_)
                if "vector<" not in t or "Row>" in t.replace(" ", ""):
                    continue
                if ac[0] == "var" and ac[1] in pushes:
                    continue
                if ac[0] == "field" and ac[1].startswith(CQ + "Circuit::") and ac[2] == circ:
                    rep.violation(rid, a_, builder, "%s hands %s to the constructor" % (builder.short, pretty(ac)[:40]), "this vector is numbered like the circuit's cells "
                                  "(fixed ones included); the others are numbered by kept cell: entry j describes another cell",
                                  key="%s|circuit-numbered vector among the compact ones" % builder.short)
    # (3) exporter
    el = _cell_loops(ctx, exporter)
    if len(el) != 1:
        rep.unknown(rid, exporter.decl, exporter, "cell loop of %s" % exporter.short, "%d loops over the circuit's cells (shape changed)" % len(el))
        return
    l2, circ2 = el[0]
    ren2 = {l2["var"]: ("cell",), circ2: ("circuit",)}
    incs = []
    for x in walk(l2["body"]):
        if x.get("kind") == "UnaryOperator" and x.get("opcode") == "++":
            c = canon(children(x)[0])
            if c[0] == "var" and c != l2["var"]:
                incs.append((x, c))
        elif x.get("kind") == "CompoundAssignOperator" and x.get("opcode") == "+=":
            c = canon(children(x)[0])
            if c[0] == "var" and c != l2["var"]:
                incs.append((x, c))
    if len(incs) != 1:
        rep.unknown(rid, l2["stmt"], exporter, "compact index of %s" % exporter.short, "%d advancing statements in the cell loop (shape changed)" % len(incs))
        return
    eg = cell_guards(exporter, incs[0][0], l2["var"], ren2)
    what = "%s advances its index %s into the compact numbering" % (exporter.short, incs[0][1][2])
    if eg == bg:
        rep.holds(rid, incs[0][0], exporter, what, "for exactly the cells %s keeps" % builder.short)
    else:
        rep.violation(rid, incs[0][0], exporter, what, "under other conditions on the cell than %s keeps cells (builder: %s; export: %s): every cell after the first "
                      "difference is written back from the wrong entry, or the export runs past the end and throws half-way" %
                      (builder.short, sorted((pretty(g_)[:40], v_) for g_, v_ in bg), sorted((pretty(g_)[:40], v_) for g_, v_ in eg)),
                      key="%s|compact index advanced for other cells than the builder keeps" % exporter.short)


def check_sibling_cell_formula(ctx, rep, rid, f1, f2, what_):
    """FA. Two functions compute the same per-cell quantity from the circuit (once when the object is built, once when it is refreshed):
    in their loops over the circuit's cells they push the same values under the same conditions on the cell."""
    forms = []
    for f in (f1, f2):
        ls = _cell_loops(ctx, f)
        if not ls:
            # the computation may sit in a helper that receives the circuit (`demands = computeCellDemands(circuit)`)
            for y in walk(f.body):
                if y.get("kind") in ("CallExpr", "CXXMemberCallExpr"):
                    ci_, hs = ctx.eff.resolve_callee(y)
                    for h in hs:
                        if h.body is not None and h is not f and any("Circuit" in qt(p_) for p_ in h.params) and \
                                any(z.get("kind") == "CXXMemberCallExpr" and callee_info(z)["name"] in ("push_back", "emplace_back")
                                    for l_, _c in _cell_loops(ctx, h) for z in walk(l_["body"])):
                            f, ls = h, _cell_loops(ctx, h)
                            break
                    if ls:
                        break
        if not ls:
            rep.unknown(rid, f.decl, f, "cell loop of %s" % f.short, "no loop over the circuit's cells (shape changed)")
            return
        l, circ = ls[0]
        ren = {l["var"]: ("cell",), circ: ("circuit",)}
        out = set()
        node = None
        for x in walk(l["body"]):
            if x.get("kind") == "CXXMemberCallExpr":
                ci = callee_info(x)
                if ci and ci["name"] in ("push_back", "emplace_back") and ci["args"]:
                    gs = frozenset((_norm(expand_locals(ctx, f, gc), ren), bool(val)) for gc, val, _a, asr in (ctx.guards(f, x) or [])
                                   if not asr and l["var"] in set(t for t in subterms(gc) if isinstance(t, tuple)))
                    v = _norm(expand_locals(ctx, f, canon(ci["args"][0])), ren)
                    out.add((gs, v))
                    node = node or x
        forms.append((f, out, node))
    (fa, a, na), (fb, b, nb) = forms
    what = "%s and %s compute %s" % (fa.short, fb.short, what_)
    if a == b and a:
        rep.holds(rid, na, fa, what, "with the same %d case(s): %s" % (len(a), "; ".join(sorted(pretty(v)[:40] for _g, v in a))))
    elif not a or not b:
        rep.unknown(rid, fa.decl, fa, what, "no per-cell push found in one of them (shape changed)")
    else:
        da = sorted(pretty(v)[:50] for g_, v in a - b)
        db = sorted(pretty(v)[:50] for g_, v in b - a)
        rep.violation(rid, nb or na, fb, what, "differently (%s only: %s; %s only: %s): the refresh compares its values with what the construction stored, and a cell "
                      "on which the two formulas disagree is reported as changed (or a change is missed)" % (fa.short, da or "-", fb.short, db or "-"),
                      key="%s|per-cell formula differs from %s" % (fb.short, fa.short))


# ---- BK: two-pass bucket (CSR) construction -----------------------------------------------------

def check_two_pass_buckets(ctx, rep, rid, fs):
    """BK. An index from keys to items is built in two passes: the first counts the items of every key (`++limits[key + 1]`, then a
    prefix sum), the second writes every item at `cur[key]++` with `cur` a copy of the limits. Both passes must enumerate the same
    items under the same conditions and with the same key: an item the count skips (or counts once where the fill writes twice) makes
    the fill run over into the range of the next key and overwrite its entries. The two passes may sit in different methods of the
    class (fs: the functions to search)."""
    if not isinstance(fs, (list, tuple)):
        fs = [fs]

    def loops_of(f, x):
        out = []
        p = x.get("_p")
        while p is not None and p is not f.body:
            if p.get("kind") == "ForStmt":
                out.append(for_loop_info(p))
            elif p.get("kind") in ("CXXForRangeStmt", "WhileStmt", "DoStmt"):
                out.append(None)
            p = p.get("_p")
        return list(reversed(out))

    def describe(f, x, key):
        ls = loops_of(f, x)
        if not ls or any(l is None for l in ls):
            return None
        ren = {l["var"]: ("loop", k) for k, l in enumerate(ls)}
        rng = tuple((_norm(l["lo"], ren), _norm(l["hi"], ren), l.get("step")) for l in ls)
        conds = {l["cond"] for l in ls if l.get("cond") is not None}
        outer = ls[0]["stmt"]

        def inside(ast):
            q = ast
            while q is not None:
                if q is outer:
                    return True
                q = q.get("_p")
            return False
        gs = frozenset((_norm(expand_locals(ctx, f, gc), ren), bool(val)) for gc, val, ast, asr in (ctx.guards(f, x) or [])
                       if not asr and gc not in conds and inside(ast))
        return rng, gs, _norm(expand_locals(ctx, f, key), ren)
    counts, fills = [], []
    for f in fs:
        if f.body is None:
            continue
        for x in walk(f.body):
            if x.get("kind") == "UnaryOperator" and x.get("opcode") in ("++",):
                c = canon(children(x)[0])
                if c[0] != "index":
                    continue
                base, idx = c[1], c[2]
                if base[0] == "field" and base[2] == ("this",):
                    k = idx[2] if idx[0] == "bin" and idx[1] == "+" and idx[3] == ("lit", "1") else idx
                    counts.append((f, x, base, k))
                elif base[0] == "var":
                    d = f.unit.by_id.get(base[1])
                    init = canon(children(d)[-1]) if d is not None and d.get("kind") == "VarDecl" and children(d) else None
                    while init is not None and init[0] == "construct" and len(init) == 3:
                        init = init[2]
                    if init is not None and init[0] == "field":
                        fills.append((f, x, init, idx))
    n = 0
    for f, x, base, k in counts:
        mates = [(g_, y, i2, k2) for g_, y, i2, k2 in fills if i2 == base]
        if not mates:
            continue
        n += 1
        dc = describe(f, x, k)
        what = "%s: items counted into %s and items written through its copy" % (f.short, pretty(base)[:30])
        bad = None
        for g_, y, _i2, k2 in mates:
            df = describe(g_, y, k2)
            if dc is None or df is None:
                bad = "?"
                continue
            if dc != df:
                which = "loop ranges" if dc[0] != df[0] else ("conditions" if dc[1] != df[1] else "keys")
                bad = (y, which, dc, df)
        if bad == "?":
            rep.unknown(rid, x, f, what, "loops around the two passes not recognised")
        elif bad:
            y, which, dc, df = bad
            rep.violation(rid, x, f, what, "differ in their %s (count: %s | fill: %s): the fill writes more or fewer entries for a key than were reserved for it, "
                          "running over into the next key's range" % (which, (sorted((pretty(g_)[:40], v_) for g_, v_ in dc[1]), pretty(dc[2])[:30]),
                                                                     (sorted((pretty(g_)[:40], v_) for g_, v_ in df[1]), pretty(df[2])[:30])),
                          key="%s|count pass and fill pass disagree" % f.short)
        else:
            rep.holds(rid, x, f, what, "are enumerated by the same loops, under the same conditions, with the same key %s" % pretty(dc[2])[:30])
    return n


# ---- crossed x / y arguments ---------------------------------------------------------------

def crossed_axis_arguments(ctx, funcs):
    """Two arguments of one call whose names differ only in a leading x / y (xPlacementUB_, yPlacementUB_) handed to two parameters
    whose names differ only in that letter too (xplace, yplace), crosswise. Yields (call node, function, description)."""
    def axis_name(c):
        while isinstance(c, tuple) and c and c[0] in ("field", "var") and False:
            pass
        if not isinstance(c, tuple) or not c:
            return None
        if c[0] == "var":
            nm = c[2]
        elif c[0] == "field":
            nm = str(c[1]).split("::")[-1]
        else:
            return None
        if len(nm) > 1 and nm[0] in "xyXY" and not nm[1].isdigit():
            return nm[0].lower(), nm[1:]
        return None
    for f in funcs:
        if f.body is None:
            continue
        for x in walk(f.body):
            if x.get("kind") not in ("CallExpr", "CXXMemberCallExpr", "CXXConstructExpr"):
                continue
            try:
                ci, hs = ctx.eff.resolve_callee(x)
            except Exception:
                continue
            if not ci or len(hs) != 1:
                continue
            ps = hs[0].params
            args = ci["args"]
            an = [axis_name(canon(a)) for a in args]
            pn = []
            for p_ in ps:
                nm = p_.get("name") or ""
                pn.append((nm[0].lower(), nm[1:]) if len(nm) > 1 and nm[0] in "xyXY" and not nm[1].isdigit() else None)
            for i in range(min(len(an), len(pn))):
                for j in range(i + 1, min(len(an), len(pn))):
                    if an[i] and an[j] and pn[i] and pn[j] and an[i][1] == an[j][1] and pn[i][1] == pn[j][1] and \
                            {an[i][0], an[j][0]} == {"x", "y"} and {pn[i][0], pn[j][0]} == {"x", "y"} and an[i][0] != pn[i][0]:
                        yield x, f, "%s(%s -> %s, %s -> %s)" % (ci["name"], pretty(canon(args[i]))[:24], ps[i].get("name"), pretty(canon(args[j]))[:24], ps[j].get("name"))
