"""C12 — single-row legalizer: prediction leaves the state unchanged (the one structural clause).

G11  in RowLegalizer::getDisplacement every mutation of the committed state (cumWidth_, constrainingPos_, and pushes of
     new bounds) is edge-dominated by update == true
R6   every bound popped while update == false was saved first, and on the update == false exit all saved bounds are
     pushed back
TS   the choice between "stay at the last bound passed" and "go to the target" after the descent loop is consistent with
     the loop's descent test on the running slope: it jumps only on signs on which the loop would still descend, and
     stays on a descending sign at most on the tie (slope == 0)
BP   every bound pushed into the queue has a position provably >= begin_ from the guards and stated invariants (asserts)
     that dominate the push
DS   a cached placement kept by a const member is reset by every writer of the committed state, on every path
QP   getCost is getDisplacement(..., update=false) and push is getDisplacement(..., update=true); clear() resets all three
     state members
"""
from ..frontend import AnalysisBroken
from ..model import qt, loc_str, walk, inner
from ..expr import canon, pretty, children, strip, callee_info, subterms
from ..cfg import cfg_of
from .common import CQ, short, calls_to, loop_has_early_exit, expand_locals

EXPLANATION = (
    "Static check on the clang-resolved AST of row_legalizer.cpp. The state of RowLegalizer is {bounds, constrainingPos_, "
    "cumWidth_}. G11: inside getDisplacement each write to cumWidth_ / constrainingPos_ and each bounds.push of a *new* bound is "
    "edge-dominated by the parameter update being true (the parameter is never modified). R6: each bounds.pop() is dominated, in "
    "the same loop iteration, by a save of bounds.top() that executes whenever update is false; the function's update == false "
    "path pushes every saved bound back through a full-range loop over the save list; no other statement mutates the state on "
    "update == false paths. QP: getCost passes the literal false, push the literal true; clear() re-initialises the three members.")

DECLINED = ["order preservation, non-overlap, containment and optimality of the positions (numerical)",
            "equality of predicted and reported costs and their sum (numerical; the pinned tree is known to drift when cells are "
            "pushed against the right end of the row -- not visible in code shape)"]


def state_members(prog):
    """(queue member, [vector members]) of RowLegalizer, identified by type: the std::priority_queue of bounds and the
    std::vector<int> members holding the committed positions / cumulative widths."""
    r = prog.records.get(CQ + "RowLegalizer")
    if not r:
        raise AnalysisBroken("class RowLegalizer not found")
    queue = [n for n, fd in r["fields"].items() if "priority_queue" in qt(fd)]
    vecs = [n for n, fd in r["fields"].items() if "vector<int" in qt(fd) and not fd.get("mutable")]
    if len(queue) != 1 or len(vecs) < 2:
        raise AnalysisBroken("RowLegalizer: expected one priority_queue member and two vector<int> members, found %s / %s" % (queue, vecs))
    return queue[0], vecs


def run(ctx, rep, tier):
    prog, eff = ctx.prog, ctx.eff
    QN, VECS = state_members(prog)
    rep.rule("G11", "committed-state mutations in getDisplacement dominated by update == true", 3)
    rep.rule("R6", "bounds popped during a query are saved and all pushed back", 2)
    rep.rule("TS", "final position selector is the exact complement of the descent condition on the slope", 1)
    rep.rule("BP", "bounds are pushed at positions >= begin_", 2)
    rep.rule("LC", "the descent pops bounds beyond exactly the right limit the final position is clamped to", 1)
    rep.rule("BQ", "no bound is left right of the position committed for the inserted cell", 2)
    rep.rule("DS", "derived state of RowLegalizer is reset by every writer of its inputs", 1)
    rep.rule("CR", "clear() gives every changing scalar member the value the constructor gives it", 1)
    rep.rule("PA", "getCost and push hand the same arguments to getDisplacement", 1)
    rep.rule("QP", "getCost queries (update=false), push commits (update=true), clear resets everything", 3)
    f = prog.func1(CQ + "RowLegalizer::getDisplacement")
    g = cfg_of(f)
    upd = [p for p in f.params if qt(p).replace("const ", "").strip() == "bool"]
    if len(upd) != 1:
        raise AnalysisBroken("getDisplacement should have exactly one bool parameter (the commit flag), found %d" % len(upd))
    uv = ("var", upd[0].get("id"), upd[0].get("name"))
    from .common import var_write_nodes
    if var_write_nodes(ctx, f, [uv[1]]):
        rep.unknown("G11", f.decl, f, "update parameter", "the parameter is modified inside the function")
        return
    s = eff.summary(f)

    def under(node, value):
        guards = ctx.guards(f, node) or []
        return any(gc == uv and val is value for gc, val, _a, _b in guards)

    for fld in VECS:
        ws = s["writes"].get(CQ + "RowLegalizer::" + fld, []) + s["escapes"].get(CQ + "RowLegalizer::" + fld, [])
        if not ws:
            rep.unknown("G11", f.decl, f, fld, "no write found (shape changed)")
        for x, u in ws:
            if under(u.node, True):
                rep.holds("G11", u.node, f, "%s modified only when update is true (%s)" % (fld, u.why))
            else:
                rep.violation("G11", u.node, f, "%s modified on a query path (%s)" % (fld, u.why), "a cost prediction would change the legalizer's state",
                              key="RowLegalizer::getDisplacement|%s modified without update" % fld)
    # bounds
    bq = CQ + "RowLegalizer::" + QN
    muts = s["writes"].get(bq, []) + s["escapes"].get(bq, [])
    pops = [u.node for _x, u in muts if "pop" in u.why]
    pushes = [u.node for _x, u in muts if "push" in u.why or "emplace" in u.why]
    others = [u for _x, u in muts if "pop" not in u.why and "push" not in u.why and "emplace" not in u.why]
    if others:
        rep.unknown("R6", others[0].node, f, "bounds", "unrecognised mutation of bounds: %s" % others[0].why)
    # save list: local vector that receives bounds.top()
    saves = [x for x in walk(f.body) if x.get("kind") == "CXXMemberCallExpr" and callee_info(x)["name"] in ("push_back", "emplace_back")
             and callee_info(x)["args"] and expand_locals(ctx, f, canon(callee_info(x)["args"][0])) == ("call", "top", ("field", bq, ("this",)))]
    ok_pop = True
    save_nodes = [g.node_for(x) for x in saves]
    upd_true_edges = [n for n in g.nodes if n.kind == "edge" and n.val is True and canon(n.ast) == uv]
    for p in pops:
        pn = g.node_for(p)
        # on every path to the pop either update is true or the bound was saved: removing the save sites and the
        # (update == true) edges must make the pop unreachable
        reach = g.reachable_from([g.entry], avoid=save_nodes + upd_true_edges)
        if pn.idx in reach:
            ok_pop = False
            rep.violation("R6", p, f, "bounds.pop() on a query path without saving the bound first", "the popped bound cannot be restored",
                          key="RowLegalizer::getDisplacement|pop without save")
    if pops and ok_pop:
        rep.holds("R6", pops[0], f, "%d pop site(s): bounds.top() saved first whenever update is false" % len(pops))
    if not pops:
        rep.unknown("R6", f.decl, f, "bounds", "no pop found")
    # re-push loop
    restored = False
    for l in [x for x in walk(f.body) if x.get("kind") == "CXXForRangeStmt"]:
        var = inner(list(inner(l))[6])[0]
        rv = var.get("_rangevar")
        if rv is None:
            continue
        rvc = canon(rv)
        if not saves or rvc != canon(callee_info(saves[0])["obj"]):
            continue
        body = list(inner(l))[7]
        ps = [x for x in walk(body) if x.get("kind") == "CXXMemberCallExpr" and callee_info(x)["name"] in ("push", "emplace")
              and canon(callee_info(x)["obj"]) == ("field", bq, ("this",))]
        skip = loop_has_early_exit(body) or next((y for y in walk(body) if y.get("kind") in ("ContinueStmt", "IfStmt")), None)
        if ps and skip is None and under(l, False):
            a = canon(callee_info(ps[0])["args"][0])
            if a[0] in ("var", "elem") or (a[0] == "construct"):
                restored = True
                # and it is reached on every update == false path to the exit
                ln = g.node_for(l)
                e = [en for ast, val, en in g.dom_edges(ln) if canon(ast) == uv and val is False]
                if e and g.exit.idx in g.reachable_from([e[0]], avoid=[ln]):
                    restored = False
    if restored:
        rep.holds("R6", f.decl, f, "on update == false every saved bound is pushed back (full-range loop over the save list)")
    else:
        rep.violation("R6", f.decl, f, "saved bounds are not all pushed back on the query path", "a cost prediction would lose bounds",
                      key="RowLegalizer::getDisplacement|saved bounds not restored")
    # pushes of new bounds only when updating
    newp = [p for p in pushes if not under(p, False)]
    badp = [p for p in newp if not under(p, True)]
    if badp:
        rep.violation("G11", badp[0], f, "a bound is pushed on a path not controlled by update", "", key="RowLegalizer::getDisplacement|push outside update")
    elif newp:
        rep.holds("G11", newp[0], f, "%d new-bound push(es), all under update == true" % len(newp))
    # ---- QP ----
    for q, lit in (("RowLegalizer::getCost", False), ("RowLegalizer::push", True)):
        h = prog.func1(CQ + q)
        cs = calls_to(h, CQ + "RowLegalizer::getDisplacement")
        rets = [y for y in walk(h.body) if y.get("kind") == "ReturnStmt" and children(y)]
        other = [y for y in rets if not any(z is cs[0] for z in walk(y))] if len(cs) == 1 else []
        if other:
            rep.violation("QP", other[0], h, "%s can answer without asking getDisplacement" % q,
                          "prediction and commit must be the same evaluation: a separate shortcut in one of them makes the predicted cost differ "
                          "from the cost reported by the push (returns %s)" % pretty(canon(children(other[0])[0]))[:50], key="%s|separate return path" % h.short)
        elif len(cs) == 1 and canon(callee_info(cs[0])["args"][2]) == ("lit", lit):
            s2 = eff.summary(h)
            direct = [w for w in list(s2["writes"]) if w.startswith(CQ + "RowLegalizer::") and not all("non-const method" in u.why for _x, u in s2["writes"][w])]
            if direct:
                rep.violation("QP", h.decl, h, "%s writes %s itself" % (q, [short(d) for d in direct]), "", key="%s|direct state write" % h.short)
            else:
                rep.holds("QP", cs[0], h, "%s = getDisplacement(width, target, %s)" % (q.split("::")[-1], str(lit).lower()))
        else:
            rep.violation("QP", h.decl, h, "%s does not call getDisplacement(..., %s)" % (q, str(lit).lower()),
                          "a cost query must not commit, a push must", key="%s|wrong update flag" % h.short)
    # ---- PA: prediction and commit hand the same arguments to the shared evaluation ----
    forms = {}
    for q in ("RowLegalizer::getCost", "RowLegalizer::push"):
        h = prog.func1(CQ + q)
        cs = calls_to(h, CQ + "RowLegalizer::getDisplacement")
        if len(cs) != 1:
            continue
        ren = {p_.get("id"): ("param", k) for k, p_ in enumerate(h.params)}

        def norm(c_):
            if isinstance(c_, tuple):
                if c_ and c_[0] == "var" and c_[1] in ren:
                    return ren[c_[1]]
                return tuple(norm(t) for t in c_)
            return c_
        forms[q] = (cs[0], h, [norm(expand_locals(ctx, h, canon(a_))) for a_ in callee_info(cs[0])["args"][:2]])
    if len(forms) == 2:
        (x1, h1, a1), (x2, h2, a2) = forms["RowLegalizer::getCost"], forms["RowLegalizer::push"]
        if a1 == a2:
            rep.holds("PA", x1, h1, "getCost and push evaluate getDisplacement on the same (width, target) expressions of their parameters")
        else:
            rep.violation("PA", x1, h1, "getCost evaluates getDisplacement(%s), push evaluates getDisplacement(%s)" %
                          (", ".join(pretty(t)[:30] for t in a1), ", ".join(pretty(t)[:30] for t in a2)),
                          "prediction and commit of one insertion are the same evaluation of the same arguments; a transformation (an offset, a clamp) applied in "
                          "only one of them makes the predicted cost differ from the reported one", key="RowLegalizer::getCost|prediction and commit on different arguments")
    else:
        rep.unknown("PA", None, None, "getCost / push", "one call of getDisplacement in each was expected (shape changed)")
    c = prog.func1(CQ + "RowLegalizer::clear")
    sc = eff.summary(c)
    w = {x.split("::")[-1] for x in sc["writes"] if x.startswith(CQ + "RowLegalizer::")}
    allst = set(VECS) | {QN}
    if allst <= w:
        rep.holds("QP", c.decl, c, "clear() resets %s" % ", ".join(sorted(allst)))
    else:
        rep.violation("QP", c.decl, c, "clear() leaves %s untouched" % sorted(allst - w), "", key="RowLegalizer::clear|incomplete reset")
    from .common import shrinking_bound_loops
    for h in prog.funcs.values():
        if h.cls == CQ + "RowLegalizer":
            for lp, cont in shrinking_bound_loops(h):
                rep.violation("QP", lp, h, "%s empties %s with a loop whose bound shrinks as its index grows" % (h.short, pretty(cont)),
                              "`for (i = 0; i < c.size(); ++i) c.pop()` removes only about half of the elements: bounds of the previous use survive "
                              "and a cleared legalizer does not behave like a fresh one", key="%s|half-emptied container" % h.short)
    check_clear_restores(ctx, rep, c)

    check_tie_selector(ctx, rep, f)
    check_bound_positions(ctx, rep, f)
    check_limit_consistency(ctx, rep, f)
    from .common import check_derived_state
    scope = {h.short for h in prog.funcs.values() if h.cls == CQ + "RowLegalizer" and h.kind == "CXXMethodDecl" and h.is_const}
    n0 = len([i for i in rep.instances if i["rule"] == "DS"])
    nds = check_derived_state(ctx, rep, "DS", prog, scope=scope)
    if nds == 0:
        rep.unknown("DS", None, None, "const members of RowLegalizer", "none found (shape changed)")
    elif len([i for i in rep.instances if i["rule"] == "DS"]) == n0:
        rep.holds("DS", "-", None, "%d const member functions of RowLegalizer keep no derived state" % nds)


def check_clear_restores(ctx, rep, clr):
    """CR. Every scalar member of RowLegalizer that changes during use (written by a method other than the constructor and clear())
    must be given back by clear() the value the constructor gives it: the constructor's initialiser, with the constructor's
    parameters replaced by the members they initialise, equals the expression clear() assigns."""
    prog = ctx.prog
    cls = CQ + "RowLegalizer"
    rec = prog.records.get(cls)
    ctors = [f for f in prog.funcs.values() if f.cls == cls and f.kind == "CXXConstructorDecl"]
    if not rec or not ctors:
        rep.unknown("CR", clr.decl, clr, "constructor", "not found")
        return
    ctor = ctors[0]
    init, par2mem = {}, {}
    for ci_ in ctor.ctor_inits:
        an = ci_.get("anyInit") or {}
        if an.get("name") and children(ci_):
            e = children(ci_)[-1]
            if e.get("kind") == "CXXDefaultInitExpr":
                # in-class default member initialiser: the value is written on the field's declaration
                fdecl = rec["fields"].get(an.get("name")) or {}
                e = (children(fdecl) or [None])[-1]
                if e is None:
                    continue
            v = canon(e)
            init[an.get("name")] = v
            if v[0] == "var":
                par2mem[v[1]] = ("field", cls + "::" + an.get("name"), ("this",))

    def sub(c):
        if isinstance(c, tuple):
            if c and c[0] == "var" and c[1] in par2mem:
                return par2mem[c[1]]
            return tuple(sub(x) if isinstance(x, tuple) else x for x in c)
        return c

    n = 0
    for name, fd in rec["fields"].items():
        t = qt(fd).replace("const ", "").strip()
        if t not in ("int", "long", "long long", "bool", "float", "double", "unsigned int", "size_t"):
            continue
        fq = cls + "::" + name
        writers = {f.short for f, _x, _u in __import__("cqverif.rules.common", fromlist=["field_writes"]).field_writes(ctx, fq)
                   if f.kind != "CXXConstructorDecl" and f.key != clr.key}
        if not writers:
            continue          # constant after construction
        n += 1
        want = sub(init.get(name)) if name in init else None
        got = None
        for x in walk(clr.body):
            if x.get("kind") == "BinaryOperator" and x.get("opcode") == "=":
                l, r = canon(children(x)[0]), canon(children(x)[1])
                if l == ("field", fq, ("this",)):
                    got = r
        what = "member %s changes during use (%s)" % (name, ", ".join(sorted(writers))[:60])
        if got is None:
            rep.violation("CR", clr.decl, clr, what, "clear() does not reset it", key="RowLegalizer::clear|%s not reset" % name)
        elif want is not None and got != want:
            rep.violation("CR", clr.decl, clr, what, "clear() sets it to %s but the constructor starts it at %s: a legalizer that is cleared and reused does not "
                          "behave like a fresh one" % (pretty(got)[:40], pretty(want)[:40]), key="RowLegalizer::clear|%s reset to another value" % name)
        else:
            rep.holds("CR", clr.decl, clr, what, "clear() restores the constructor's value %s" % (pretty(want)[:40] if want else "?"))
    if n == 0:
        rep.holds("CR", clr.decl, clr, "RowLegalizer has no scalar member that changes during use", "the containers are covered by QP")


def _atoms_rel(c):
    """Flatten a condition into its relational atoms (through &&, ||, !)."""
    if c[0] == "un" and c[1] == "!":
        return _atoms_rel(c[2])
    if c[0] == "bin" and c[1] in ("&&", "||"):
        return _atoms_rel(c[2]) + _atoms_rel(c[3])
    return [c]


NEGREL = {"<": ">=", "<=": ">", ">": "<=", ">=": "<", "==": "!=", "!=": "=="}
FLIPREL = {"<": ">", "<=": ">=", ">": "<", ">=": "<=", "==": "==", "!=": "!="}


def _norm_rel(c, v):
    """(op, other) with the variable v on the left, or None."""
    if c[0] != "bin" or c[1] not in NEGREL:
        return None
    if c[2] == v:
        return c[1], c[3]
    if c[3] == v:
        return FLIPREL[c[1]], c[2]
    return None


def check_tie_selector(ctx, rep, f):
    """TS. Name-free roles: the *slope* is the local integer that the descent loop increases by bounds.top().weight and tests in its
    condition; the *last bound passed* is the local the loop assigns bounds.top().absolutePos to."""
    loops = [x for x in walk(f.body) if x.get("kind") == "WhileStmt"]
    if len(loops) != 1:
        rep.unknown("TS", f.decl, f, "descent loop", "expected one while loop in getDisplacement, found %d" % len(loops))
        return
    lp = loops[0]
    ch = [c for c in inner(lp) if isinstance(c, dict) and c.get("kind")]
    cond, body = canon(ch[-2]), ch[-1]
    slope = pos = None
    for x in walk(body):
        if x.get("kind") == "CompoundAssignOperator" and x.get("opcode") == "+=":
            l, r = children(x)
            rc = canon(r)
            if rc[0] == "field" and rc[1].endswith("Bound::weight"):
                slope = canon(l)
        if x.get("kind") == "BinaryOperator" and x.get("opcode") == "=":
            l, r = children(x)
            rc = canon(r)
            if rc[0] == "field" and rc[1].endswith("Bound::absolutePos"):
                pos = canon(l)
    if slope is None or pos is None:
        rep.unknown("TS", lp, f, "descent loop", "running slope / last-bound variable not recognised (shape changed)")
        return
    descent = [r for r in (_norm_rel(a, slope) for a in _atoms_rel(cond)) if r is not None]
    if len(descent) != 1:
        rep.unknown("TS", lp, f, "descent loop", "expected exactly one test of the slope in the loop condition, found %d" % len(descent))
        return
    dop, dother = descent[0]
    sels = []
    for x in walk(f.body):
        if x.get("kind") == "ConditionalOperator":
            c = canon(x)
            if pos in (c[2], c[3]):
                sels.append((x, c))
    # an if/else form of the same choice
    if not sels:
        rep.unknown("TS", f.decl, f, "final position", "no ?: choosing the last bound passed was found after the loop (shape changed)")
        return
    for x, c in sels:
        r = _norm_rel(c[1], slope)
        if r is None:
            rep.unknown("TS", x, f, "final position selector %s" % pretty(c)[:80], "its condition is not a single test of the slope")
            continue
        op, other = r
        stay_op = op if c[2] == pos else NEGREL[op]
        if other != ("lit", "0") or dother != ("lit", "0"):
            rep.unknown("TS", x, f, "final position selector %s" % pretty(c)[:80], "the slope is not compared with the literal 0 in both tests")
            continue
        SIGNS = {"<": {"neg"}, "<=": {"neg", "zero"}, ">": {"pos"}, ">=": {"pos", "zero"}, "==": {"zero"}, "!=": {"neg", "pos"}}
        D = SIGNS[dop]                       # the loop keeps descending on these signs of the slope
        J = {"neg", "zero", "pos"} - SIGNS[stay_op]      # the selector jumps to the target on these
        why = []
        if not J <= D:
            why.append("the cell jumps to its target when the slope is %s although the descent loop has already stopped on that sign: "
                       "bounds between the last one passed and the target were never priced, so the reported cost is too low" % "/".join(sorted(J - D)))
        if not (D - J) <= {"zero"}:
            why.append("the cell stays at the last bound passed when the slope is %s although moving on still lowers the cost" % "/".join(sorted((D - J) - {"zero"})))
        if "neg" not in D or "pos" in D:
            why.append("the descent test %s %s 0 does not separate negative from positive slopes" % (pretty(slope), dop))
        if not why:
            rep.holds("TS", x, f, "stays at the last bound passed iff %s %s 0; descends while %s %s 0: jump region within the descent region, "
                      "they differ at most on the tie" % (pretty(slope), stay_op, pretty(slope), dop))
        else:
            rep.violation("TS", x, f, "final position selector (%s %s 0 stays) vs descent test (%s %s 0)" % (pretty(slope), stay_op, pretty(slope), dop),
                          "; ".join(why), key="RowLegalizer::getDisplacement|selector inconsistent with the descent test")


def check_bound_positions(ctx, rep, f):
    from ..order import Facts, Prover
    from .common import expand_locals
    g = cfg_of(f)
    bq = CQ + "RowLegalizer::" + state_members(ctx.prog)[0]
    begin = ("field", CQ + "RowLegalizer::begin_", ("this",))
    n = 0
    for x in walk(f.body):
        if x.get("kind") != "CXXMemberCallExpr":
            continue
        ci = callee_info(x)
        if not ci or ci["name"] not in ("push", "emplace") or ci["obj"] is None or canon(ci["obj"]) != ("field", bq, ("this",)):
            continue
        a = canon(ci["args"][0]) if ci["args"] else None
        if ci["name"] == "emplace" and len(ci["args"]) >= 2:
            posn = canon(ci["args"][1])        # bounds.emplace(weight, position): the Bound is built in place
        elif a is None or a[0] != "construct" or len(a) < 4:
            continue      # re-push of a saved bound (a variable): its position was checked when it was first pushed
        else:
            posn = a[-1] if len(a) == 4 else a[3]
        n += 1
        site = g.node_for(x)
        F = Facts()
        for gc_, val, _ast, _asr in (ctx.guards(f, x, asserts=True, derived=True) or []):
            if isinstance(val, bool):
                F.add_cond(gc_, val)
        P = Prover(F, orthant=False)
        what = "bound pushed at %s" % pretty(posn)[:70]
        if P.prove_ge(posn, begin):
            rep.holds("BP", x, f, what, ">= begin_ from %d dominating guard(s) / stated invariant(s)" % len(F.facts))
            continue
        F2 = Facts()
        for a_, r_, b_ in F.facts:
            F2.add(expand_locals(ctx, f, a_), r_, expand_locals(ctx, f, b_))
        P2 = Prover(F2, orthant=False)
        cm = P2.countermodel(expand_locals(ctx, f, posn), begin)
        if cm is not None:
            env, va, vb = cm
            rep.violation("BP", x, f, what, "not implied by the guards that dominate the push: e.g. %s gives position %.4g < begin_ %.4g; a bound left "
                          "of the row start makes later insertions integrate the cost below begin_ and report too little" % (
                              ", ".join("%s=%s" % kv for kv in sorted(env.items())[:6]), va, vb),
                          key="RowLegalizer::getDisplacement|bound below begin_")
        else:
            rep.unknown("BP", x, f, what, "neither provable nor refutable from the dominating guards")
    # BQ: upper side. The position committed for the inserted cell (what the update appends to constrainingPos_) already respects the
    # right limit end_ - usedSpace() - width; a bound left in the queue to the right of it lies where no later cell can go, and the next
    # insertion integrates its weight over the stretch between the two: the reported costs drift above the real displacement.
    cp = ("field", CQ + "RowLegalizer::constrainingPos_", ("this",))
    commits = [canon(callee_info(y)["args"][0]) for y in walk(f.body) if y.get("kind") == "CXXMemberCallExpr" and callee_info(y)["name"] in ("push_back", "emplace_back")
               and callee_info(y)["obj"] is not None and canon(callee_info(y)["obj"]) == cp and callee_info(y)["args"]]
    if len(commits) != 1:
        rep.unknown("BQ", f.decl, f, "committed position", "expected exactly one append to constrainingPos_ in getDisplacement, found %d" % len(commits))
        return
    final = commits[0]
    for x in walk(f.body):
        if x.get("kind") != "CXXMemberCallExpr":
            continue
        ci = callee_info(x)
        if not ci or ci["name"] not in ("push", "emplace") or ci["obj"] is None or canon(ci["obj"]) != ("field", bq, ("this",)):
            continue
        a = canon(ci["args"][0]) if ci["args"] else None
        if ci["name"] == "emplace" and len(ci["args"]) >= 2:
            posn = canon(ci["args"][1])
        elif a is None or a[0] != "construct" or len(a) < 4:
            continue
        else:
            posn = a[-1] if len(a) == 4 else a[3]
        site = g.node_for(x)
        F = Facts()
        for ast, val, en in g.dom_edges(site, asserts=True):
            if isinstance(val, bool):
                F.add_cond(expand_locals(ctx, f, canon(ast)), val)
        P = Prover(F, orthant=False)
        fe, pe = expand_locals(ctx, f, final), expand_locals(ctx, f, posn)
        what = "bound pushed at %s, cell committed at %s" % (pretty(posn)[:50], pretty(final)[:30])
        if P.prove_ge(final, posn) or P.prove_ge(fe, pe):
            rep.holds("BQ", x, f, what, "the bound is not right of the committed position")
            continue
        cm = P.countermodel(fe, pe)
        if cm is not None:
            env, va, vb = cm
            rep.violation("BQ", x, f, what, "the bound can lie right of the position committed for the cell (e.g. %s: committed %.4g, bound %.4g): that "
                          "stretch is beyond the right limit of every later cell, yet the next insertion integrates the bound's weight over it - the "
                          "reported costs no longer sum to the displacement of the returned placement" % (
                              ", ".join("%s=%s" % kv for kv in sorted(env.items())[:6]), va, vb),
                          key="RowLegalizer::getDisplacement|bound right of the committed position")
        else:
            rep.unknown("BQ", x, f, what, "neither provable nor refutable from the dominating guards")
    if n == 0:
        rep.unknown("BP", f.decl, f, "bound pushes", "no push of a newly constructed Bound found (shape changed)")


def check_limit_consistency(ctx, rep, f):
    """LC. getDisplacement uses the right limit of the inserted cell twice: the descent loop pops every bound beyond it ("the position
    is not legal yet") and the final position is clamped to it (the first operand of the std::min that defines the committed position).
    Both must be the same quantity (compared as polynomials after inlining the class's trivial getters): a descent that stops at
    another limit pops too many bounds (the placement is no longer optimal) or too few (a bound beyond the clamp survives and the costs
    drift)."""
    from ..order import Facts, Prover
    from .common import inline_getters, expand_locals
    loops = [x for x in walk(f.body) if x.get("kind") == "WhileStmt"]
    cp = ("field", CQ + "RowLegalizer::constrainingPos_", ("this",))
    commits = [canon(callee_info(y)["args"][0]) for y in walk(f.body) if y.get("kind") == "CXXMemberCallExpr" and callee_info(y)["name"] in ("push_back", "emplace_back")
               and callee_info(y)["obj"] is not None and canon(callee_info(y)["obj"]) == cp and callee_info(y)["args"]]
    if len(loops) != 1 or len(commits) != 1:
        rep.unknown("LC", f.decl, f, "descent loop / committed position", "expected one while loop and one append to constrainingPos_")
        return
    final = expand_locals(ctx, f, commits[0])
    if not (final[0] == "call" and final[1] == "min" and len(final) == 5):
        rep.unknown("LC", f.decl, f, "committed position", "not of the form std::min(limit, ...) (shape changed)")
        return
    clamp = [t for t in final[3:] if not (t[0] == "call" and t[1] in ("max", "min"))]
    if len(clamp) != 1:
        rep.unknown("LC", f.decl, f, "committed position", "clamp limit not identified in %s" % pretty(final)[:60])
        return
    cond = canon([c for c in inner(loops[0]) if isinstance(c, dict) and c.get("kind")][0])
    atoms = []

    def flat(t):
        if t[0] == "bin" and t[1] in ("&&", "||"):
            flat(t[2]); flat(t[3])
        elif t[0] == "un" and t[1] == "!":
            flat(t[2])
        else:
            atoms.append(t)
    flat(cond)
    lims = []
    for a in atoms:
        if a[0] == "bin" and a[1] in (">", ">=", "<", "<="):
            l, r = (a[2], a[3]) if a[1] in (">", ">=") else (a[3], a[2])
            if any(isinstance(t, tuple) and t and t[0] == "field" and str(t[1]).endswith("absolutePos") for t in subterms(l)):
                lims.append((expand_locals(ctx, f, l), expand_locals(ctx, f, r)))
    P = Prover(Facts(), orthant=False)

    def nz(p_):
        return None if p_ is None else {k: v for k, v in p_.items() if v != 0}

    def limit_of(l, r):
        """`pos + rest > r` is the test `pos > r - rest`: the limit is r minus whatever stands next to the bound position on the left"""
        pl, pr = P.poly(inline_getters(ctx, l)), P.poly(inline_getters(ctx, r))
        if pl is None or pr is None:
            return None
        rest = {k: v for k, v in pl.items() if not any("absolutePos" in repr(a) for a in k)}
        if len(rest) == len(pl):
            return None
        return nz(P._padd(pr, rest, -1))
    want = nz(P.poly(inline_getters(ctx, clamp[0])))
    got = [(("bin", "-", r, l) if P.poly(l) is not None and len(P.poly(l)) > 1 else r, limit_of(l, r)) for l, r in lims]
    got = [(l, p_) for l, p_ in got if p_ is not None]
    lims = [l for l, _p in got]
    what = "descent limit(s) %s, clamp limit %s" % ([pretty(l)[:40] for l in lims], pretty(clamp[0])[:40])
    if want is None or not got:
        rep.unknown("LC", loops[0], f, what, "limits not recognised")
    elif any(p_ == want for _l, p_ in got):
        rep.holds("LC", loops[0], f, what, "the loop pops the bounds beyond the limit the position is clamped to")
    else:
        # the limit-like test is the one that mentions the width of the inserted cell
        wp = {p_.get("id") for p_ in f.params[:1]}
        cand = [l for l, p_ in got if any(isinstance(t, tuple) and t and t[0] == "var" and t[1] in wp for t in subterms(l))]
        if cand:
            rep.violation("LC", loops[0], f, what, "the legality test of the descent (%s) is not the limit the final position is clamped to: they agree only "
                          "for particular segments (e.g. begin_ == 0)" % pretty(cand[0])[:50], key="RowLegalizer::getDisplacement|descent limit differs from the clamp")
        else:
            rep.unknown("LC", loops[0], f, what, "no descent test on the right limit found")
