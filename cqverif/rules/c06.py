"""C06 — global placement stays inside the area and exports the documented blend (structural clauses).

QB   blendPlacement computes (1-b)*v1 + b*v2; its shortcuts fire only for exactly b == 0 / b == 1; every call passes
     (lower bound, upper bound, documented weight) of one axis
XP   the export converts centre to lower-left corner with the placed size of the same axis, for the blended placement
SB   spreadCells puts a cell at a convex combination of its bin's limits; demand sums are accumulated in float / 64 bits
G9   fixed pins are clamped to the placement-area bounds of the same axis before they enter the continuous model
P3   the matrix is regularised (finalize) before it is handed to the solver
QA   axis typing over the global placer's units
TW   X/Y twin functions agree up to the X<->Y renaming (sibling cross-check)
CC   cell conservation in the bin hierarchy: the functions that rebuild binCells_ wholesale choose the inheriting bin from
     the hierarchy alone, and a function that empties bins gives the cells back on every path to its exit
"""
import re

from ..frontend import AnalysisBroken
from ..model import qt, loc_str, walk, inner, desugared
from ..expr import canon, pretty, children, strip, callee_info, subterms, member_decl, ref_decl
from ..cfg import cfg_of
from ..qual import axis_conflicts, axis_of
from .common import CQ, short, expand_locals, calls_to, for_loop_info, var_write_nodes

EXPLANATION = (
    "Static check on the clang-resolved AST of place_global.cpp, net_model.cpp, density_grid.cpp and density_legalizer.cpp. "
    "QB: the element pushed by blendPlacement is normalised as a polynomial in (blending, v1[i], v2[i]) and must equal "
    "(1-b)*v1 + b*v2; each early return must be guarded by an *equality* of the weight with the constant at which the general "
    "formula yields the returned vector; the 6 call sites pass (xPlacementLB_, xPlacementUB_, w) or the y pair with w taken from "
    "exportBlending / penalty.targetBlending / roughLegalization.targetBlending. XP: the static exporter writes "
    "round(x[i] - 0.5*placedWidth(i)) into cellX_ and the height analogue into cellY_, and is fed the blend of the same axis. "
    "SB: in spreadCells the coordinate is dem*maxCoord + (1-dem)*minCoord with dem advanced by half the cell's demand share "
    "before and after; demand/area sums anywhere in these units accumulate in float, double or long long. G9: min/max pin "
    "positions are clamped with the area bounds of the same axis. P3: finalize() dominates setFromTriplets in "
    "MatrixCreator::solve. QA/TW: axis typing and X/Y twin agreement. CC: a cell that is in no bin keeps the coordinate 0 in "
    "every exposed upper bound, so (a) in every member function that replaces binCells_ by a freshly built container, each branch "
    "or loop condition may read (transitively) only the hierarchy description (the fields read by parentX/parentY/nbBinsX/"
    "nbBinsY) - a choice that depends on capacities, usage or cell data can select no bin at all; (b) from a clear() of bins in "
    "binCells_ the function exit is reachable only through a call that stores cells back (setBinCells or an assignment into "
    "binCells_), a loop over a container proven non-empty by a dominating guard counting as executed.")

DECLINED = ["containment of the solver's output in the bounding box, finiteness (floating-point behaviour of CG and of the spreading)",
            "'completes without raising an error' (search / numeric behaviour)"]

UNITS = ("place_global.cpp", "net_model.cpp", "density_grid.cpp", "density_legalizer.cpp")
AXIS_EXCEPTIONS = {"computeNorm": "norm of a 2-D vector legitimately combines |x| and |y|",
                   "DensityLegalizer::refine": "levelX()/levelY() are hierarchy depths, not coordinates"}
WEIGHT_PARAMS = {"exportBlending": "GlobalPlacerParameters::exportBlending",
                 "penalty.targetBlending": "PenaltyParameters::targetBlending",
                 "roughLegalization.targetBlending": "RoughLegalizationParameters::targetBlending"}
TWINS = [("HierarchicalDensityPlacement::spreadCoordX", "HierarchicalDensityPlacement::spreadCoordY"),
         ("HierarchicalDensityPlacement::simpleCoordX", "HierarchicalDensityPlacement::simpleCoordY"),
         ("HierarchicalDensityPlacement::findBinByX", "HierarchicalDensityPlacement::findBinByY"),
         ("HierarchicalDensityPlacement::refineX", "HierarchicalDensityPlacement::refineY"),
         ("HierarchicalDensityPlacement::coarsenX", "HierarchicalDensityPlacement::coarsenY"),
         ("DensityGrid::groupCenterX", "DensityGrid::groupCenterY"),
         ("DensityLegalizer::improveXTransport", "DensityLegalizer::improveYTransport"),
         ("DensityLegalizer::improveXNeighbours", "DensityLegalizer::improveYNeighbours"),
         ("NetModel::xTopology", "NetModel::yTopology"),
         ("NetModel::exportPlacementX", "NetModel::exportPlacementY"),
         ("IncrNetModel::exportPlacementX", "IncrNetModel::exportPlacementY")]


# ---- tiny polynomial normaliser ------------------------------------------------------

def poly(c, atoms):
    """Canonical polynomial {monomial(tuple of atom names sorted): coef} of a +,-,* expression over named atoms."""
    t = c[0]
    if t == "lit":
        try:
            v = float(str(c[1]).rstrip("fFlL"))
        except ValueError:
            return None
        return {(): v}
    if t == "bin" and c[1] in ("+", "-"):
        a, b = poly(c[2], atoms), poly(c[3], atoms)
        if a is None or b is None:
            return None
        out = dict(a)
        for m, k in b.items():
            out[m] = out.get(m, 0) + (k if c[1] == "+" else -k)
        return {m: k for m, k in out.items() if abs(k) > 1e-12}
    if t == "bin" and c[1] == "*":
        a, b = poly(c[2], atoms), poly(c[3], atoms)
        if a is None or b is None:
            return None
        out = {}
        for m1, k1 in a.items():
            for m2, k2 in b.items():
                m = tuple(sorted(m1 + m2))
                out[m] = out.get(m, 0) + k1 * k2
        return {m: k for m, k in out.items() if abs(k) > 1e-12}
    if t == "un" and c[1] == "-":
        a = poly(c[2], atoms)
        return None if a is None else {m: -k for m, k in a.items()}
    for name, pat in atoms.items():
        if pat(c):
            return {(name,): 1.0}
    return None


def run(ctx, rep, tier):
    prog = ctx.prog
    rep.rule("QB", "blendPlacement = (1-b)*LB + b*UB, exact shortcuts, correct arguments at every call", 8)
    rep.rule("XP", "export: corner = round(centre - 0.5 * placed size of the same axis), fed with the same-axis blend", 3)
    rep.rule("SB", "spreadCells convex combination inside the bin; demand sums in float / 64 bits", 3)
    rep.rule("G9", "fixed pins clamped to the same-axis area bounds", 4)
    rep.rule("P3", "finalize() before the solver sees the matrix", 1)
    rep.rule("QA", "axis typing over the global placer's units", 50)
    rep.rule("TW", "X/Y twins agree up to renaming", 8)
    rep.rule("XC", "global-placement callbacks observe the exported placement of the step they announce", 1)
    rep.rule("DI", "the lower- and upper-bound placements are assigned on every path before a step blends or exports them", 2)
    from .c07 import check_di
    check_di(ctx, ctx.prog, rep)
    rep.rule("CR", "the rows handed to the density grid lie inside the rows of the circuit; the blending weight is used as given", 2)
    check_clipped_rows(ctx, rep)
    rep.rule("FA", "the cell demands are computed by the same formula when the density model is built and when it is refreshed", 1)
    from .common import check_sibling_cell_formula
    _fa = [f_ for f_ in ctx.prog.func(CQ + "HierarchicalDensityPlacement::fromIspdCircuit", required=False) or []]
    _fb = [f_ for f_ in (ctx.prog.func(CQ + "HierarchicalDensityPlacement::updateCellDemand", required=False) or []) if any("Circuit" in qt(p_) for p_ in f_.params)]
    if len(_fa) >= 1 and len(_fb) == 1:
        for f_ in _fa:
            check_sibling_cell_formula(ctx, rep, "FA", f_, _fb[0], "the demand of a cell")
    else:
        rep.unknown("FA", None, None, "HierarchicalDensityPlacement::fromIspdCircuit / updateCellDemand(circuit)", "not found (shape changed)")
    rep.rule("CC", "cell conservation: hierarchy-only bin choice when binCells_ is rebuilt; emptied bins are refilled on every path", 5)
    check_blend(ctx, rep)
    check_export(ctx, rep)
    check_spread(ctx, rep)
    check_clamp(ctx, rep)
    check_p3(ctx, rep)
    for f in prog.all_funcs(with_lambdas=False):
        if not f.unit.name.endswith(UNITS) and not loc_str(f.decl).startswith(("src/place_global", "src/utils")):
            continue
        cs = axis_conflicts(f)
        if f.short in AXIS_EXCEPTIONS or f.qname in AXIS_EXCEPTIONS:
            if cs:
                rep.holds("QA", f.decl, f, "%s (listed)" % f.short, AXIS_EXCEPTIONS.get(f.short) or AXIS_EXCEPTIONS.get(f.qname))
            continue
        if cs:
            for x, what, a, b in cs:
                rep.violation("QA", x, f, "cross-axis expression %s" % what[:90], "%s-typed and %s-typed quantities combined" % (a, b),
                              key="%s|cross-axis %s" % (f.short, what[:50]))
        else:
            rep.holds("QA", f.decl, f, "%s is axis-consistent" % f.short)
    from .common import crossed_axis_arguments
    for x_, f_, t_ in crossed_axis_arguments(ctx, [g_ for g_ in prog.all_funcs(with_lambdas=True) if g_.unit.name.endswith(UNITS)]):
        rep.violation("QA", x_, f_, "arguments crossed between the axes: %s" % t_, "the x-named argument goes to the y-named parameter and the reverse: the callee "
                      "(an export, a callback exposure, a solver) sees the two coordinates exchanged", key="%s|x and y arguments crossed" % f_.short)
    check_twins(ctx, rep)
    check_conservation(ctx, rep)
    from .c02 import check_export_before_callback
    check_export_before_callback(ctx, rep, "XC", (CQ + "GlobalPlacer",))


# ---- CC: cell conservation ------------------------------------------------------------------

HDP = CQ + "HierarchicalDensityPlacement"
HIER_METHODS = ("parentX", "parentY", "nbBinsX", "nbBinsY", "levelX", "levelY", "nbLevelX", "nbLevelY")


def _is_assert(x):
    from ..expr import is_noreturn_call
    if x.get("kind") != "ConditionalOperator":
        return False
    ch = children(x)
    return len(ch) == 3 and (is_noreturn_call(ch[1]) or is_noreturn_call(ch[2]))


def _cond_reads(ctx, func, cond):
    """Fields read (transitively through resolved callees) by the evaluation of `cond`."""
    tr = ctx.eff.transitive()
    out = {}
    for x in walk(cond):
        k = x.get("kind")
        if k == "MemberExpr":
            d = member_decl(x)
            if d is not None and d.get("kind") == "FieldDecl":
                out.setdefault(d.get("_q"), x)
        if k in ("CallExpr", "CXXMemberCallExpr", "CXXOperatorCallExpr", "CXXConstructExpr"):
            _ci, fs = ctx.eff.resolve_callee(x)
            for g in fs:
                for q in tr.get(g.key, {}).get("reads", ()):
                    out.setdefault(q, x)
    return out


def _roots_field(e, field_q):
    """True when expression e is an access path rooted at member field_q (binCells_[..][..], binCells_ ...)."""
    s = strip(e)
    while s is not None and s.get("kind"):
        k = s.get("kind")
        if k == "MemberExpr":
            d = member_decl(s)
            if d is not None and d.get("kind") == "FieldDecl":
                return d.get("_q") == field_q
            ch = children(s)
            s = strip(ch[0]) if ch else None
        elif k in ("CXXOperatorCallExpr",):
            ch = children(s)
            s = strip(ch[1]) if len(ch) > 1 else None
        elif k in ("ArraySubscriptExpr", "CXXMemberCallExpr"):
            ch = children(s)
            s = strip(ch[0]) if ch else None
        else:
            return False
    return False


def check_conservation(ctx, rep):
    prog = ctx.prog
    bc = HDP + "::binCells_"
    tr = ctx.eff.transitive()
    hier = set()
    found = 0
    for m in HIER_METHODS:
        for f in prog.funcs.values():
            if f.cls == HDP and f.name == m:
                hier |= set(tr.get(f.key, {}).get("reads", ()))
                found += 1
    if found < 4 or not hier:
        rep.unknown("CC", None, None, "hierarchy accessors", "parentX/parentY/nbBinsX/nbBinsY not found in %s" % short(HDP))
        return
    if bc in hier:
        rep.unknown("CC", None, None, "hierarchy accessors", "the hierarchy accessors read binCells_: the rule's split between hierarchy and data no longer exists")
        return
    # (a) wholesale rebuilds
    n_rebuild = 0
    for f in prog.all_funcs(with_lambdas=False):
        if f.body is None or f.decl.get("kind") in ("CXXConstructorDecl",) or not (f.cls or "").startswith(CQ):
            continue
        whole = []
        for x in walk(f.body):
            if x.get("kind") == "CXXOperatorCallExpr" and callee_info(x) and callee_info(x)["name"] == "operator=":
                ch = children(x)
                if len(ch) >= 3:
                    l = strip(ch[1])
                    d = member_decl(l) if l.get("kind") == "MemberExpr" else None
                    if d is not None and d.get("_q") == bc:
                        whole.append((x, ch[2]))
        if not whole:
            continue
        n_rebuild += 1
        conds = []
        for x in walk(f.body):
            k = x.get("kind")
            ch = [c for c in inner(x) if isinstance(c, dict)]
            if k == "IfStmt":
                i = (1 if x.get("hasInit") else 0) + (1 if x.get("hasVar") else 0)
                conds.append(ch[i])
            elif k == "WhileStmt":
                conds.append(ch[-2])
            elif k == "DoStmt":
                conds.append(ch[1])
            elif k == "ForStmt" and len(ch) >= 5 and ch[2].get("kind"):
                conds.append(ch[2])
            elif k == "ConditionalOperator" and not _is_assert(x):
                conds.append(children(x)[0])
            elif k == "SwitchStmt":
                conds.append(ch[(1 if x.get("hasInit") else 0) + (1 if x.get("hasVar") else 0)])
        bad = []
        for c in conds:
            par = c.get("_p")
            while par is not None and par is not f.body and not _is_assert(par):
                par = par.get("_p")
            if par is not None and _is_assert(par):
                continue
            reads = _cond_reads(ctx, f, c)
            extra = {q: n for q, n in reads.items() if q not in hier}
            if bc in extra and canon(c)[0] == "call" and canon(c)[1] == "empty":
                extra.pop(bc)
            if extra:
                bad.append((c, extra))
        for c, extra in bad:
            rep.violation("CC", c, f, "%s rebuilds binCells_ under a condition that reads %s" % (f.short, ", ".join(sorted(short(q) for q in extra))),
                          "the bin that inherits the cells must be chosen by the hierarchy alone; a data-dependent test can reject every bin and the cells stay at coordinate 0",
                          key="%s|data-dependent rebuild" % f.short)
        if not bad:
            rep.holds("CC", whole[0][0], f, "%s rebuilds binCells_; its %d branch/loop conditions read only the hierarchy" % (f.short, len(conds)))
    if n_rebuild < 4:
        rep.unknown("CC", None, None, "wholesale rebuilds of binCells_", "expected the four coarsen/refine functions, found %d" % n_rebuild)
    # (b) emptied bins are refilled on every path
    n_clear = 0
    for f in prog.all_funcs(with_lambdas=False):
        if f.body is None or not (f.cls or "").startswith(CQ):
            continue
        clears = []
        for x in walk(f.body):
            if x.get("kind") == "CXXMemberCallExpr":
                ci = callee_info(x)
                if ci and ci["name"] == "clear" and _roots_field(children(x)[0], bc):
                    clears.append(x)
        if not clears:
            continue
        g = cfg_of(f)
        restore = []
        for x in walk(f.body):
            k = x.get("kind")
            if k == "CXXMemberCallExpr":
                _ci, fs = ctx.eff.resolve_callee(x)
                if any(bc in tr.get(h.key, {}).get("writes", ()) for h in fs):
                    restore.append(x)
            elif k == "CXXOperatorCallExpr" and callee_info(x) and callee_info(x)["name"] == "operator=":
                ch = children(x)
                if len(ch) >= 3 and _roots_field(ch[1], bc):
                    restore.append(x)
        avoid = []
        for x in restore:
            cn = g.node_for(x)
            if cn is not None:
                avoid.append(cn)
            # a loop over a container proven non-empty executes its body at least once
            lp = x.get("_p")
            while lp is not None and lp is not f.body:
                if lp.get("kind") in ("ForStmt", "CXXForRangeStmt") and _nonempty_loop(ctx, f, g, lp):
                    for n in g.nodes:
                        if n.kind == "join" and n.ast is lp:
                            avoid.append(n)
                lp = lp.get("_p")
        for x in clears:
            n_clear += 1
            cn = g.node_for(x)
            reach = g.reachable_from(cn.succ, avoid=avoid)
            if g.exit.idx in reach:
                # name an offending exit
                rets = [n for n in g.nodes if n.kind == "stmt" and (n.ast or {}).get("kind") == "ReturnStmt" and n.idx in reach]
                where = loc_str(rets[0].ast) if rets else "end of function"
                rep.violation("CC", x, f, "%s empties bins of binCells_ and can leave through %s without storing the cells back" % (f.short, where),
                              "a path from clear() to the exit avoids every call that writes binCells_", key="%s|clear without refill" % f.short)
            else:
                rep.holds("CC", x, f, "%s: every path from clear() to the exit stores cells back (%d restoring call sites)" % (f.short, len(restore)))
    if n_clear < 1:
        rep.unknown("CC", None, None, "clear() of bins", "no function empties bins of binCells_ any more: the refill rule has no instance")


def _nonempty_loop(ctx, f, g, lp):
    """The loop `for (i = 0; i < X.size(); ++i)` / `for (e : X)` runs at least once: a dominating branch edge says X.empty() is false
    (or X.size() compared unequal to / greater than 0) and X is a local that is not modified afterwards."""
    if lp.get("kind") == "ForStmt":
        info = for_loop_info(lp)
        if not info or info["lo"] != ("lit", "0") or info["hi"] is None:
            return False
        hi = info["hi"]
        if not (hi[0] == "call" and hi[1] == "size" and len(hi) == 3):
            return False
        cont = hi[2]
    else:
        ch = [c for c in inner(lp) if isinstance(c, dict)]
        rng = ch[1] if len(ch) > 1 else None
        if not rng or not rng.get("kind"):
            return False
        init = children(rng)[0] if rng.get("kind") == "DeclStmt" and children(rng) else None
        vd = [d for d in inner(rng) if d.get("kind") == "VarDecl"] if rng.get("kind") == "DeclStmt" else []
        if not vd or not children(vd[0]):
            return False
        cont = canon(children(vd[0])[-1])
    if cont[0] != "var":
        return False
    head = [n for n in g.nodes if n.kind == "join" and n.ast is lp]
    if not head:
        return False
    from .common import nonempty_fact
    for ast, val, en in g.dom_edges(head[0]):
        c = canon(ast)
        if isinstance(val, bool) and nonempty_fact(c, val) == cont:
            ws = [w for w in var_write_nodes(ctx, f, [cont[1]])]
            stable = True
            for w in ws:
                wn = g.node_for(w)
                if wn is None or (wn.idx in g.reachable_from([en]) and g.can_reach(wn, head[0])):
                    stable = False
            if stable:
                return True
    return False


def check_blend(ctx, rep):
    prog = ctx.prog
    fs = [f for f in prog.funcs.values() if f.name == "blendPlacement"]
    if len(fs) != 1:
        raise AnalysisBroken("blendPlacement not found exactly once")
    f = fs[0]
    v1, v2, b = [("var", p.get("id"), p.get("name")) for p in f.params[:3]]
    g = cfg_of(f)
    # general formula
    pushes = [x for x in walk(f.body) if x.get("kind") == "CXXMemberCallExpr" and callee_info(x)["name"] in ("push_back", "emplace_back")]
    ok_formula = False
    for x in pushes:
        e = canon(callee_info(x)["args"][0])
        atoms = {"b": lambda c: c == b, "v1": lambda c: c[0] == "index" and c[1] == v1, "v2": lambda c: c[0] == "index" and c[1] == v2}
        p = poly(e, atoms)
        want = {("v1",): 1.0, ("b", "v1"): -1.0, ("b", "v2"): 1.0}
        if p == want:
            # same index on both, full loop
            idx = {t[2] for t in subterms(e) if t[0] == "index"}
            if len(idx) == 1:
                ok_formula = True
                rep.holds("QB", x, f, "element = (1-b)*v1[i] + b*v2[i]", "polynomial normal form matches")
        if not ok_formula:
            rep.violation("QB", x, f, "blended element is %s" % pretty(e)[:90], "normal form %s differs from (1-b)*v1 + b*v2" % p,
                          key="blendPlacement|wrong formula")
    if not pushes:
        # std::transform(v1.begin(), v1.end(), v2.begin(), out, [..](a, b) { return expr; })
        done = False
        for x in walk(f.body):
            if x.get("kind") != "CallExpr":
                continue
            ci = callee_info(x)
            if not ci or ci["name"] != "transform" or len(ci["args"]) != 5:
                continue
            a0, a2 = canon(ci["args"][0]), canon(ci["args"][2])
            lam = next((y for y in walk(ci["args"][4]) if y.get("kind") == "LambdaExpr"), None)
            if lam is None or not (a0[0] == "call" and a0[1] in ("begin", "cbegin") and a2[0] == "call" and a2[1] in ("begin", "cbegin")):
                continue
            lf = lam.get("_lam")
            lps = list(lf.params) if lf is not None else []
            rets = [y for y in walk(lf.body) if y.get("kind") == "ReturnStmt" and children(y)] if lf is not None else []
            if len(lps) != 2 or len(rets) != 1:
                continue
            first, second = a0[2], a2[2]
            role = {lps[0].get("id"): "v1" if first == v1 else ("v2" if first == v2 else None),
                    lps[1].get("id"): "v1" if second == v1 else ("v2" if second == v2 else None)}
            e = canon(children(rets[0])[0])
            atoms = {"b": lambda c: (c[0] == "var" and c[2] == b[2]) or c == b,
                     "v1": lambda c: c[0] == "var" and role.get(c[1]) == "v1", "v2": lambda c: c[0] == "var" and role.get(c[1]) == "v2"}
            pp = poly(e, atoms)
            done = True
            if pp == {("v1",): 1.0, ("b", "v1"): -1.0, ("b", "v2"): 1.0} and set(role.values()) == {"v1", "v2"}:
                rep.holds("QB", x, f, "element-wise transform with (1-b)*a + b*c over (v1, v2)", "polynomial normal form matches")
            else:
                rep.violation("QB", x, f, "blended element is %s" % pretty(e)[:90], "normal form %s over %s differs from (1-b)*v1 + b*v2" % (pp, sorted(map(str, role.values()))),
                              key="blendPlacement|wrong formula")
        if not done:
            rep.unknown("QB", f.decl, f, "blend formula", "no element push / element-wise transform found")
    # shortcuts
    for x in walk(f.body):
        if x.get("kind") != "ReturnStmt" or not children(x):
            continue
        rv = canon(children(x)[0])
        if rv not in (v1, v2):
            continue
        n = g.node_for(x)
        conds = [(canon(a), val) for a, val, _e in g.dom_edges(n) if isinstance(val, bool)]
        want_const = 0.0 if rv == v1 else 1.0
        good = False
        bad = None
        for c, val in conds:
            if c[0] == "bin" and c[2] == b and c[3][0] == "lit":
                try:
                    k = float(str(c[3][1]).rstrip("fF"))
                except ValueError:
                    continue
                if c[1] == "==" and val is True and k == want_const:
                    good = True
                elif c[1] in ("==", "!=") and ((c[1] == "==" and val is False) or (c[1] == "!=" and val is True)):
                    pass   # excludes one value: irrelevant to this shortcut
                elif val is True or c[1] in ("==", "!="):
                    bad = (c, val)
        what = "shortcut `return %s`" % rv[2]
        if good and bad is None:
            rep.holds("QB", x, f, what, "taken only for blending == %g, where the formula gives the same vector" % want_const)
        elif bad is not None:
            rep.violation("QB", x, f, what, "taken under %s: for weights other than exactly %g the formula gives a different vector "
                          "(weights outside [0,1] are accepted by the parameter check)" % (pretty(bad[0]), want_const),
                          key="blendPlacement|shortcut %s inexact" % rv[2])
        else:
            rep.violation("QB", x, f, what, "not guarded by blending == %g" % want_const, key="blendPlacement|shortcut %s unguarded" % rv[2])
    # call sites
    n_calls = 0
    for fn in prog.funcs.values():
        for x in walk(fn.body):
            if x.get("kind") == "CallExpr" and callee_info(x)["qname"] == f.qname:
                n_calls += 1
                a = [canon(y) for y in callee_info(x)["args"]]
                names = [pretty(y) for y in a]
                m = re.match(r"^([xy])PlacementLB_$", names[0])
                m2 = re.match(r"^([xy])PlacementUB_$", names[1])
                w = expand_locals(ctx, fn, a[2])
                wtxt = pretty(w)
                okw = any(wtxt.endswith(k) for k in WEIGHT_PARAMS)
                pidx = [j for j, p_ in enumerate(fn.params) if w[0] == "var" and p_.get("id") == w[1]]
                if not okw and pidx:
                    # a thin wrapper (`blendedPlacementX(float blending)`): the weight is what its callers pass
                    ws_ = []
                    for g_ in prog.funcs.values():
                        for y_ in walk(g_.body):
                            if y_.get("kind") in ("CallExpr", "CXXMemberCallExpr") and callee_info(y_)["qname"] == fn.qname and \
                                    len(callee_info(y_)["args"]) > pidx[0]:
                                ws_.append(pretty(expand_locals(ctx, g_, canon(callee_info(y_)["args"][pidx[0]]))))
                    if ws_ and all(any(t_.endswith(k) for k in WEIGHT_PARAMS) for t_ in ws_):
                        okw = True
                        wtxt = "%s = %s" % (wtxt, " | ".join(sorted(set(t_[-30:] for t_ in ws_))))
                what = "blendPlacement(%s, %s, %s)" % (names[0], names[1], wtxt[-40:])
                if m and m2 and m.group(1) == m2.group(1) and okw:
                    rep.holds("QB", x, fn, what)
                elif not (re.search(r"LB_?$", names[0]) or re.search(r"UB_?$", names[0]) or re.search(r"LB_?$", names[1]) or re.search(r"UB_?$", names[1])):
                    rep.unknown("QB", x, fn, what, "arguments are not recognisable lower/upper-bound placements (members renamed?)")
                else:
                    why = []
                    if not (m and m2):
                        why.append("arguments must be (lower-bound placement, upper-bound placement): 0 selects the lower bound, 1 the upper bound")
                    elif m.group(1) != m2.group(1):
                        why.append("x and y placements mixed")
                    if not okw:
                        why.append("weight is not one of the documented blending parameters")
                    rep.violation("QB", x, fn, what, "; ".join(why), key="%s|blend arguments %s" % (fn.short, names[0][:1]))
    if n_calls < 6:
        rep.note("blendPlacement call sites: %d (6 confirmed)" % n_calls)


def check_export(ctx, rep):
    prog = ctx.prog
    fs = [f for f in prog.func(CQ + "GlobalPlacer::exportPlacement") if len(f.params) == 3]
    if len(fs) != 1:
        raise AnalysisBroken("static GlobalPlacer::exportPlacement(circuit, x, y) not found")
    f = fs[0]
    xs, ys = f.params[1], f.params[2]
    for fld, vec, size in (("cellX_", xs, "placedWidth"), ("cellY_", ys, "placedHeight")):
        ws = [x for x in walk(f.body) if x.get("kind") == "BinaryOperator" and x.get("opcode") == "=" and
              canon(children(x)[0])[0] == "index" and canon(children(x)[0])[1][0] == "field" and canon(children(x)[0])[1][1] == CQ + "Circuit::" + fld]
        if not ws:
            rep.unknown("XP", f.decl, f, fld, "write not found")
            continue
        for x in ws:
            idx = canon(children(x)[0])[2]
            v = expand_locals(ctx, f, canon(children(x)[1]))
            ok = False
            if v[0] == "call" and v[1] in ("round", "lround", "llround", "nearbyint") and len(v) >= 4:
                e = v[3]
                atoms = {"p": lambda c: c == ("index", ("var", vec.get("id"), vec.get("name")), idx),
                         "s": lambda c: c[0] == "call" and c[1] == CQ + "Circuit::" + size and c[3] == idx}
                ok = poly(e, atoms) == {("p",): 1.0, ("s",): -0.5}
            if ok:
                rep.holds("XP", x, f, "%s[i] = round(%s[i] - 0.5*%s(i))" % (fld, vec.get("name"), size))
            else:
                rep.violation("XP", x, f, "%s[i] = %s" % (fld, pretty(v)[:80]), "expected round(%s[i] - 0.5 * %s(i)): centre to lower-left corner on the same axis" % (vec.get("name"), size),
                              key="GlobalPlacer::exportPlacement|%s conversion" % fld)
    # the member overload passes (x blend, y blend) in this order
    ms = [g_ for g_ in prog.func(CQ + "GlobalPlacer::exportPlacement") if len(g_.params) == 1]
    for m in ms:
        calls = [x for x in walk(m.body) if x.get("kind") == "CallExpr" and callee_info(x)["qname"] == CQ + "GlobalPlacer::exportPlacement"]
        for x in calls:
            from .common import inline_getters
            a = [inline_getters(ctx, expand_locals(ctx, m, canon(y)), with_params=True) for y in callee_info(x)["args"]]
            tx, ty = pretty(a[1]), pretty(a[2])
            if "xPlacementLB_" in tx and "xPlacementUB_" in tx and "yPlacementLB_" in ty and "yPlacementUB_" in ty and "exportBlending" in tx and "exportBlending" in ty:
                rep.holds("XP", x, m, "returned placement = blend(LB, UB, exportBlending) per axis")
            else:
                rep.violation("XP", x, m, "final export is not the per-axis blend with exportBlending", "x: %s; y: %s" % (tx[:60], ty[:60]),
                              key="GlobalPlacer::exportPlacement|final export arguments")


def check_spread(ctx, rep):
    prog = ctx.prog
    fs = [f for f in prog.funcs.values() if f.name == "spreadCells"]
    if len(fs) != 1:
        raise AnalysisBroken("spreadCells not found")
    f = fs[0]
    fl = [p for p in f.params if qt(p).replace("const ", "").strip() in ("float", "double")]
    mn, mx = fl[:1], fl[1:2]      # the two scalar parameters: lower and upper limit of the bin
    rets = [canon(children(y)[0]) for y in walk(f.body) if y.get("kind") == "ReturnStmt" and children(y)]
    rv = rets[-1] if rets else None
    ws = [x for x in walk(f.body) if x.get("kind") == "BinaryOperator" and x.get("opcode") == "=" and canon(children(x)[0])[0] == "index"
          and canon(children(x)[0])[1] == rv]
    if not ws:
        rep.unknown("SB", f.decl, f, "spread formula", "coordinate store not found")
    # every return hands back the spread coordinates: returning the (unclamped) targets themselves leaves a cell wherever its
    # target is, possibly outside the bin and outside the rows; only an empty input may be returned as it is
    pids_ = {q.get("id"): q.get("name") for q in f.params}
    for y in walk(f.body):
        if y.get("kind") != "ReturnStmt" or not children(y):
            continue
        rc = canon(children(y)[0])
        if rc[0] == "var" and rc[1] in pids_:
            from .common import nonempty_fact
            emp = False
            for gc, val, _a, _b in (ctx.guards(f, y) or []):
                if gc == ("call", "empty", rc) and val is True:
                    emp = True
                if gc[0] == "bin" and gc[1] == "==" and val is True and {gc[2], gc[3]} == {("call", "size", rc), ("lit", "0")}:
                    emp = True
            if emp:
                rep.holds("SB", y, f, "the empty input is returned as it is")
            else:
                rep.violation("SB", y, f, "spreadCells returns its parameter %s unchanged on some path" % pids_[rc[1]],
                              "the cells of that bin keep their raw targets instead of a position inside the bin: a target outside the rows is "
                              "exposed as it is (a bin holding a single cell is the common case)", key="spreadCells|targets returned unspread")
    for x in ws:
        e = canon(children(x)[1])
        pids = {q.get("id") for q in f.params}
        if mn and mx:
            lo_id, hi_id = mn[0].get("id"), mx[0].get("id")
            atoms = {"lo": lambda c: c[0] == "var" and c[1] == lo_id, "hi": lambda c: c[0] == "var" and c[1] == hi_id,
                     "d": lambda c: c[0] == "var" and c[1] not in pids}
            p = poly(e, atoms)
        else:
            # the two limits travel in a small struct (`interval.minCoord`, `interval.maxCoord`): any two distinct scalar members of a
            # parameter play the roles; the formula must still be d*B + (1-d)*A
            lims = sorted({t for t in subterms(e) if isinstance(t, tuple) and t and t[0] == "field" and t[2][0] == "var" and t[2][1] in pids},
                          key=lambda t: ("min" not in str(t[1]).lower(), str(t)))
            p = None
            if len(lims) == 2:
                la, lb = lims
                atoms = {"lo": lambda c, la=la: c == la, "hi": lambda c, lb=lb: c == lb, "d": lambda c: c[0] == "var" and c[1] not in pids}
                p = poly(e, atoms)
                if p == {("hi",): 1.0, ("d", "hi"): -1.0, ("d", "lo"): 1.0}:
                    p = {("lo",): 1.0, ("d", "lo"): -1.0, ("d", "hi"): 1.0}
        if p == {("lo",): 1.0, ("d", "lo"): -1.0, ("d", "hi"): 1.0}:
            rep.holds("SB", x, f, "coordinate = dem*maxCoord + (1-dem)*minCoord (convex combination of the bin limits)")
        else:
            rep.violation("SB", x, f, "coordinate = %s" % pretty(e)[:80], "not the convex combination dem*max + (1-dem)*min", key="spreadCells|formula")
    # demand accumulation types in the global placer's units
    n = 0
    for fn in prog.all_funcs(with_lambdas=False):
        if not loc_str(fn.decl).startswith("src/place_global"):
            continue
        for x in walk(fn.body):
            if x.get("kind") == "CallExpr" and callee_info(x)["name"] == "accumulate":
                args = callee_info(x)["args"]
                if len(args) >= 3:
                    n += 1
                    it = (desugared(args[2]) or qt(args[2]))
                    src = pretty(canon(args[0])).lower()
                    demand = "demand" in src or "capa" in src or "area" in src or "usage" in src
                    if demand and it in ("int", "unsigned int", "short"):
                        rep.violation("SB", x, fn, "demand sum accumulated in %s" % it, "std::accumulate's result type is the type of its initial value: "
                                      "a bin's total demand exceeds 2^31 at the supported magnitudes", key="%s|demand accumulated in int" % fn.short)
                    elif demand:
                        rep.holds("SB", x, fn, "demand sum accumulated in %s" % it)
            if x.get("kind") == "CompoundAssignOperator" and x.get("opcode") == "+=":
                l, r = children(x)
                lt = desugared(l) or qt(l)
                rtxt = pretty(canon(r)).lower()
                if lt in ("int", "unsigned int") and ("demand" in rtxt or "area(" in rtxt or "usage" in rtxt or "capacity" in rtxt):
                    n += 1
                    rep.violation("SB", x, fn, "%s += %s accumulates demand/area in %s" % (pretty(canon(l)), pretty(canon(r))[:40], lt),
                                  "sums of areas exceed 2^31 at the supported magnitudes", key="%s|area summed in int" % fn.short)
    rep.extra["demand_accumulations_examined"] = n


def check_clipped_rows(ctx, rep):
    """CR. (a) DensityGrid::fromIspdCircuit hands the rough legalizer rows that are the circuit's rows shrunk by a side margin: each
    rectangle it builds from a row lies inside that row (min >= row.min, max <= row.max on both axes, margins being non-negative) -
    a row *shifted* by the margin makes the grid, and with it every upper-bound placement, stick out of the rows. (b) blendPlacement
    computes (1 - w) v1 + w v2 for the weight it is given: the parameter is never reassigned (a clamp to [0, 1] silently replaces the
    extrapolating weights the parameter check accepts)."""
    from ..order import Facts, Prover
    prog = ctx.prog
    n = 0
    for f in prog.func(CQ + "DensityGrid::fromIspdCircuit", required=False) or []:
        if f.body is None:
            continue
        for x in walk(f.body):
            if x.get("kind") != "CXXMemberCallExpr" or callee_info(x)["name"] not in ("emplace_back", "push_back") or "Rectangle" not in qt(callee_info(x)["obj"] or {}):
                continue
            a = [expand_locals(ctx, f, canon(t)) for t in callee_info(x)["args"]]
            if len(a) == 1 and a[0][0] in ("construct", "initlist"):
                a = [t for t in a[0][1:] if isinstance(t, tuple)][-4:]
            if len(a) != 4:
                continue
            rows = {t[2] for e in a for t in subterms(e) if isinstance(t, tuple) and len(t) == 3 and t[0] == "field" and str(t[1]).endswith(("::minX", "::maxX", "::minY", "::maxY"))}
            if len(rows) != 1:
                continue
            row = list(rows)[0]
            n += 1
            F = Facts()
            for gc, val, _a, _b in (ctx.guards(f, x) or []):
                F.add_cond(expand_locals(ctx, f, gc), val)
            P = Prover(F, orthant=True)
            fld = lambda nm: ("field", [str(t[1]) for e in a for t in subterms(e) if isinstance(t, tuple) and len(t) == 3 and t[0] == "field" and str(t[1]).endswith("::" + nm)][0], row) \
                if any(isinstance(t, tuple) and len(t) == 3 and t[0] == "field" and str(t[1]).endswith("::" + nm) for e in a for t in subterms(e)) else None
            bad = []
            for e, nm, ge in ((a[0], "minX", True), (a[1], "maxX", False), (a[2], "minY", True), (a[3], "maxY", False)):
                ref = fld(nm)
                if ref is None:
                    bad.append((nm, "does not mention the row's %s" % nm))
                    continue
                ok = P.prove_ge(e, ref) if ge else P.prove_ge(ref, e)
                if not ok:
                    cm = P.countermodel(e, ref) if ge else P.countermodel(ref, e)
                    bad.append((nm, "%s can be %s the row's (e.g. %s)" % (pretty(e)[:30], "below" if ge else "above", ", ".join("%s=%s" % kv for kv in sorted((cm[0] if cm else {}).items())[:4]))))
            what = "%s: rectangle built from a row of the circuit" % f.short
            if bad:
                rep.violation("CR", x, f, what, "is not inside that row: " + "; ".join("%s %s" % b for b in bad) + " - the density grid then extends past the rows and the "
                              "spread coordinates of the cells in its outer bins fall outside them", key="%s|clipped row not inside the row" % f.short)
            else:
                rep.holds("CR", x, f, what, "lies inside the row (margins are non-negative)")
    if n == 0:
        rep.unknown("CR", None, None, "DensityGrid::fromIspdCircuit", "no rectangle built from a row found (shape changed)")
    bl = [g_ for g_ in prog.all_funcs(with_lambdas=False) if g_.name == "blendPlacement" and g_.body is not None]
    if not bl:
        rep.unknown("CR", None, None, "blendPlacement", "not found (shape changed)")
    from .common import var_write_nodes
    for g_ in bl:
        fl = [p_ for p_ in g_.params if qt(p_).replace("const ", "").strip() in ("float", "double")]
        wr = [p_ for p_ in fl if var_write_nodes(ctx, g_, [p_.get("id")])]
        if wr:
            rep.violation("CR", g_.decl, g_, "blendPlacement reassigns its weight %s" % wr[0].get("name"), "the blend is no longer the one asked for: weights outside [0, 1], "
                          "which the parameter check accepts (extrapolation), are silently replaced", key="blendPlacement|weight altered")
        else:
            rep.holds("CR", g_.decl, g_, "blendPlacement uses the weight it is given (parameter never reassigned)")


def check_clamp(ctx, rep):
    """G9, by role: the two bounds of fixed-pin positions handed to NetModel::addNet (its 3rd and 4th argument) are locals that
    are clamped - `v = max(v, B)` resp. `v = min(v, B)` - with B the min / max bound of computePlacementArea() on the axis of the
    topology. A topology that only forwards to a shared helper is judged on the helper, specialised for the literal it passes."""
    from .common import forwarding_target, specialise, is_dead_under
    prog = ctx.prog
    for q, ax in (("NetModel::xTopology", "X"), ("NetModel::yTopology", "Y")):
        f0 = prog.func1(CQ + q)
        f, env = forwarding_target(ctx, f0)
        adds = [x for x in walk(f.body) if x.get("kind") == "CXXMemberCallExpr" and callee_info(x)["qname"] == CQ + "NetModel::addNet"
                and len(callee_info(x)["args"]) >= 4 and not is_dead_under(x, f, env)]
        if not adds:
            rep.unknown("G9", f0.decl, f0, "%s: bounds of fixed pins" % f0.short, "no NetModel::addNet(cells, offsets, min, max, ...) call found (shape changed)")
            continue
        for call in adds:
            args = [canon(a) for a in callee_info(call)["args"]]
            for var, fn, bound in ((args[2], "max", "min"), (args[3], "min", "max")):
                label = "lower" if bound == "min" else "upper"
                if var[0] != "var":
                    rep.unknown("G9", call, f0, "%s bound of fixed pins in %s" % (label, f0.short), "argument %s is not a local variable" % pretty(var)[:40])
                    continue
                found = False
                for x in walk(f.body):
                    if x.get("kind") == "BinaryOperator" and x.get("opcode") == "=" and not is_dead_under(x, f, env):
                        l, r = canon(children(x)[0]), canon(children(x)[1])
                        if l[:2] == var[:2] and r[0] == "call" and r[1] in ("min", "max", "fmin", "fmax"):
                            others = [a for a in r[3:] if a[:2] != l[:2]]
                            if len(others) != 1:
                                continue
                            o = specialise(expand_locals(ctx, f, others[0]), env)
                            area = [t for t in subterms(o) if t[0] == "field" and str(t[1]).startswith(CQ + "Rectangle::") and
                                    any(u[0] == "call" and str(u[1]).endswith("computePlacementArea") for u in subterms(t))]
                            if not area:
                                continue          # e.g. the accumulation over the pins
                            found = True
                            want = bound + ax
                            got = str(area[0][1]).split("::")[-1]
                            if r[1] in (fn, "f" + fn) and got == want and o == area[0]:
                                rep.holds("G9", x, f0, "%s bound of fixed pins in %s clamped with area.%s" % (label, f0.short, want))
                            else:
                                rep.violation("G9", x, f0, "%s bound of fixed pins in %s: %s(.., %s)" % (label, f0.short, r[1], pretty(o)[-40:]),
                                              "expected %s(.., placement area's %s)" % (fn, want), key="%s|%s clamp bound" % (f0.short, label))
                if not found:
                    rep.violation("G9", call, f0, "%s bound of fixed pins in %s is not clamped to the placement area" % (label, f0.short),
                                  "far-away fixed pins would pull cells outside the area", key="%s|%s not clamped" % (f0.short, label))


def check_p3(ctx, rep):
    prog = ctx.prog
    f = prog.func1(CQ + "MatrixCreator::solve")
    g = cfg_of(f)
    fin = calls_to(f, CQ + "MatrixCreator::finalize")
    sft = [x for x in walk(f.body) if x.get("kind") == "CXXMemberCallExpr" and callee_info(x)["name"] == "setFromTriplets"]
    if not sft or not fin:
        # solve() split into private steps (assemble / run the solver / read the positions): judge the order of the calls of solve()
        # that (transitively, within the class) reach finalize() and setFromTriplets
        def reaches(h, name, depth=0):
            if h.body is None or depth > 3:
                return False
            for y in walk(h.body):
                if y.get("kind") == "CXXMemberCallExpr":
                    if callee_info(y)["name"] == name:
                        return True
                    _c, hs = ctx.eff.resolve_callee(y)
                    if any(h2.cls == f.cls and h2 is not h and reaches(h2, name, depth + 1) for h2 in hs):
                        return True
            return False
        fin2, sft2 = [], []
        for y in walk(f.body):
            if y.get("kind") == "CXXMemberCallExpr":
                _c, hs = ctx.eff.resolve_callee(y)
                for h in hs:
                    if h.cls == f.cls and h is not f:
                        hg = cfg_of(h)
                        if reaches(h, "finalize") or h.qname == CQ + "MatrixCreator::finalize":
                            fin2.append(y)
                        if reaches(h, "setFromTriplets"):
                            sft2.append(y)
        both = [y for y in fin2 if y in sft2]
        if both and not (sft or fin):
            # one helper does both: the order is judged inside it
            h = ctx.eff.resolve_callee(both[0])[1][0]
            hg = cfg_of(h)
            fin_h = calls_to(h, CQ + "MatrixCreator::finalize")
            sft_h = [x for x in walk(h.body) if x.get("kind") == "CXXMemberCallExpr" and callee_info(x)["name"] == "setFromTriplets"]
            if fin_h and sft_h and all(hg.dominates(hg.node_for(fin_h[0]), hg.node_for(s_)) for s_ in sft_h):
                rep.holds("P3", fin_h[0], h, "finalize() dominates setFromTriplets (in %s, called by solve)" % h.short)
                return
        fin = fin or fin2
        sft = sft or sft2
    if not sft:
        rep.unknown("P3", f.decl, f, "matrix construction", "setFromTriplets not found")
    elif fin and all(g.dominates(g.node_for(fin[0]), g.node_for(s)) for s in sft):
        rep.holds("P3", fin[0], f, "finalize() dominates setFromTriplets")
    else:
        rep.violation("P3", sft[0], f, "matrix handed to the solver without finalize()", "rows without any coefficient make the system singular (NaN coordinates)",
                      key="MatrixCreator::solve|finalize missing")


def swap_axis(s):
    out = []
    i = 0
    rep = {"X": "Y", "Y": "X", "x": "y", "y": "x"}
    toks = re.split(r"(Width|Height|width|height)", s)
    for t in toks:
        if t == "Width":
            out.append("Height")
        elif t == "Height":
            out.append("Width")
        elif t == "width":
            out.append("height")
        elif t == "height":
            out.append("width")
        else:
            out.append(re.sub(r"X|Y|\bx|\by", lambda m: rep[m.group(0)], t))
    return "".join(out)


def name_bag(f):
    bag = {}
    skip = set()
    for x in walk(f.body):
        if x.get("kind") == "CallExpr" and callee_info(x)["name"] in ("__assert_fail",):
            for y in walk(x):
                skip.add(id(y))
    for x in walk(f.body):
        if id(x) in skip:
            continue
        n = None
        if x.get("kind") == "MemberExpr":
            n = x.get("name")
        elif x.get("kind") == "DeclRefExpr":
            d = x.get("referencedDecl") or {}
            if d.get("kind") in ("FunctionDecl", "CXXMethodDecl", "EnumConstantDecl"):
                n = d.get("name")
        elif x.get("kind") in ("BinaryOperator", "CompoundAssignOperator", "UnaryOperator"):
            n = "op" + str(x.get("opcode"))
        elif x.get("kind") in ("IntegerLiteral", "FloatingLiteral"):
            n = "lit" + str(x.get("value"))
        if n:
            bag[n] = bag.get(n, 0) + 1
    return bag


def check_twins(ctx, rep):
    prog = ctx.prog
    for qa, qb in TWINS:
        fa = prog.func(CQ + qa, required=False)
        fb = prog.func(CQ + qb, required=False)
        fa = [f for f in fa if not (len(f.params) == 1 and "IncrNetModel" in qa and "Topology" in qa)]
        if not fa or not fb:
            rep.unknown("TW", "-", None, "%s / %s" % (qa, qb), "twin not found")
            continue
        # pair overloads by parameter count
        for a in fa:
            bs = [b for b in fb if len(b.params) == len(a.params)]
            if not bs:
                continue
            b = bs[0]
            ba = {swap_axis(k): v for k, v in name_bag(a).items()}
            bb = name_bag(b)
            if ba == bb:
                rep.holds("TW", a.decl, a, "%s mirrors %s" % (a.short, b.short), "%d distinct names/operators agree" % len(bb))
            else:
                diff = []
                for k in sorted(set(ba) | set(bb)):
                    if ba.get(k, 0) != bb.get(k, 0):
                        diff.append("%s: %d vs %d" % (k, ba.get(k, 0), bb.get(k, 0)))
                rep.violation("TW", b.decl, b, "%s is not the X<->Y image of %s" % (b.short, a.short),
                              "after renaming, uses differ: %s" % "; ".join(diff[:6]), key="%s|differs from twin %s" % (b.short, a.short))
